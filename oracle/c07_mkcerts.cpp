// Mints the certificate set for C07 (and the TLS part of C01) through the OpenSSL X509 API so that the
// validity periods are positioned relative to the VIRTUAL wall clock of the model checker
// (T0 = 1 700 000 000 s), not relative to today.  Usage: c07_mkcerts <outdir>
//
//   ca_a.pem ca_a.key            trust anchor A            ca_b.pem ca_b.key   trust anchor B
//   srv_ok.{pem,key}             leaf under CA-A, SAN DNS:localhost + IP:127.0.0.1, valid [T0-1d, T0+10d]
//   srv_self.{pem,key}           self-signed leaf, same names
//   srv_wrongname.{pem,key}      leaf under CA-A, SAN DNS:other.example only
//   srv_mismatch.{pem,key}       srv_ok's certificate with a DIFFERENT private key
//   srv_b.{pem,key}              leaf under CA-B (valid names): "valid, but not under the configured anchor"
//   cli_ok.{pem,key}             client leaf under CA-A         cli_b.{pem,key}   client leaf under CA-B
#include <openssl/evp.h>
#include <openssl/pem.h>
#include <openssl/x509.h>
#include <openssl/x509v3.h>

#include <cstdio>
#include <string>

static const time_t T0 = 1700000000;
static const long DAY = 86400;

static EVP_PKEY *genKey() { return EVP_EC_gen("P-256"); }

static void addExt(X509 *cert, X509 *issuer, int nid, const char *value)
{
  X509V3_CTX ctx;
  X509V3_set_ctx_nodb(&ctx);
  X509V3_set_ctx(&ctx, issuer, cert, nullptr, nullptr, 0);
  X509_EXTENSION *ex = X509V3_EXT_conf_nid(nullptr, &ctx, nid, value);
  if (ex)
  {
    X509_add_ext(cert, ex, -1);
    X509_EXTENSION_free(ex);
  }
}

static X509 *mint(const char *cn, EVP_PKEY *key, X509 *issuerCert, EVP_PKEY *issuerKey, bool ca, const char *san, long serial, time_t nb, time_t na)
{
  X509 *x = X509_new();
  X509_set_version(x, 2);
  ASN1_INTEGER_set(X509_get_serialNumber(x), serial);
  ASN1_TIME_set(X509_getm_notBefore(x), nb);
  ASN1_TIME_set(X509_getm_notAfter(x), na);
  X509_set_pubkey(x, key);
  X509_NAME *name = X509_get_subject_name(x);
  X509_NAME_add_entry_by_txt(name, "CN", MBSTRING_ASC, (const unsigned char *)cn, -1, -1, 0);
  X509_set_issuer_name(x, issuerCert ? X509_get_subject_name(issuerCert) : name);
  addExt(x, issuerCert ? issuerCert : x, NID_basic_constraints, ca ? "critical,CA:TRUE" : "CA:FALSE");
  if (ca)
    addExt(x, issuerCert ? issuerCert : x, NID_key_usage, "critical,keyCertSign,cRLSign");
  if (san)
    addExt(x, issuerCert ? issuerCert : x, NID_subject_alt_name, san);
  X509_sign(x, issuerKey ? issuerKey : key, EVP_sha256());
  return x;
}

static void save(const std::string &dir, const char *base, X509 *c, EVP_PKEY *k)
{
  FILE *f = fopen((dir + "/" + base + ".pem").c_str(), "w");
  PEM_write_X509(f, c);
  fclose(f);
  f = fopen((dir + "/" + base + ".key").c_str(), "w");
  PEM_write_PrivateKey(f, k, nullptr, nullptr, 0, nullptr, nullptr);
  fclose(f);
}

int main(int argc, char **argv)
{
  if (argc < 2)
    return 2;
  std::string dir = argv[1];
  const char *names = "DNS:localhost,IP:127.0.0.1";
  time_t nb = T0 - DAY, na = T0 + 10 * DAY;
  EVP_PKEY *kA = genKey(), *kB = genKey();
  X509 *caA = mint("Verif CA A", kA, nullptr, nullptr, true, nullptr, 1, T0 - 400 * DAY, T0 + 4000 * DAY);
  X509 *caB = mint("Verif CA B", kB, nullptr, nullptr, true, nullptr, 2, T0 - 400 * DAY, T0 + 4000 * DAY);
  save(dir, "ca_a", caA, kA);
  save(dir, "ca_b", caB, kB);
  EVP_PKEY *k1 = genKey();
  X509 *ok = mint("localhost", k1, caA, kA, false, names, 10, nb, na);
  save(dir, "srv_ok", ok, k1);
  EVP_PKEY *k2 = genKey();
  save(dir, "srv_self", mint("localhost", k2, nullptr, nullptr, false, names, 11, nb, na), k2);
  EVP_PKEY *k3 = genKey();
  save(dir, "srv_wrongname", mint("other.example", k3, caA, kA, false, "DNS:other.example", 12, nb, na), k3);
  EVP_PKEY *k4 = genKey();
  save(dir, "srv_mismatch", ok, k4);
  EVP_PKEY *k5 = genKey();
  save(dir, "srv_b", mint("localhost", k5, caB, kB, false, names, 13, nb, na), k5);
  EVP_PKEY *k6 = genKey();
  save(dir, "cli_ok", mint("client", k6, caA, kA, false, nullptr, 20, nb, na), k6);
  EVP_PKEY *k7 = genKey();
  save(dir, "cli_b", mint("client-b", k7, caB, kB, false, nullptr, 21, nb, na), k7);
  printf("certificates written to %s (validity of leaves: T0-1d .. T0+10d, T0=%ld)\n", dir.c_str(), (long)T0);
  return 0;
}

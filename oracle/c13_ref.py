#!/usr/bin/env python3
"""Independent reference decoder for C13 (RFC 8259), built on CPython's `json` module.

Used in two ways:
  * imported by c13_gen.py to attach the expected canonical value to every generated text;
  * run as a co-process by the C++ harness (`python3 c13_ref.py --serve`): reads one hex-encoded
    byte string per line on stdin and answers one line per request on stdout (see respond()).

Nothing here depends on iora.

Canonical value encoding (both sides produce it; numbers are compared *numerically*, i.e. the
int64/double distinction is deliberately erased where the two denote the same real number):
    n | t | f
    i<decimal>           number that is an integer in [-2^63, 2^63)   (also 1.0, -0.0, 1E+2 ...)
    d<16 hex digits>     any other number: IEEE-754 binary64 bit pattern (inf for 1e400)
    s<hex of UTF-8>      string
    a(<v> <v> ...)       array
    o(<s..> <v> ...)     object: duplicate names resolved last-wins, members sorted by name bytes
Integers outside int64 are converted to double first (round to nearest), which is iora's documented
number model ("Integers outside the 64-bit range are parsed as double").

Response line:
    R                         the reference rejects the text (not RFC 8259 / not UTF-8)
    U                         RFC-valid but contains an unpaired surrogate escape: value not judged
    V <canon> <D> <N> <maxArr> <memText> <memVal> <strBytes> <strCps>
        D        deepest value depth, root = 0
        N        max number of simultaneously open containers
        maxArr   longest array
        memText  most members in one object counting duplicate names, memVal counting distinct names
        strBytes longest string (names included) in UTF-8 bytes, strCps in code points
"""
import json
import struct
import sys

I64_MIN = -(1 << 63)
I64_MAX = (1 << 63) - 1


class Reject(Exception):
    pass


class Unjudged(Exception):
    pass


class Pairs(list):
    """object_pairs_hook result: keeps duplicates and order."""
    pass


def _reject_constant(name):
    raise Reject('non-RFC constant ' + name)


_decoder = json.JSONDecoder(object_pairs_hook=Pairs, parse_constant=_reject_constant, strict=True)


def decode(data: bytes):
    """RFC 8259 text (bytes) -> Python value with Pairs for objects.  Raises Reject."""
    try:
        s = data.decode('utf-8', 'strict')
    except UnicodeDecodeError as e:
        raise Reject('not UTF-8: %s' % e)
    try:
        # JSONDecoder.decode() strips only the four RFC whitespace characters and requires that
        # nothing else follows the value.
        return _decoder.decode(s)
    except Reject:
        raise
    except (ValueError, RecursionError) as e:
        raise Reject(str(e))


def canon_number(x):
    if isinstance(x, int):
        if I64_MIN <= x <= I64_MAX:
            return 'i%d' % x
        try:
            x = float(x)
        except OverflowError:
            x = float('inf') if x > 0 else float('-inf')
    # float
    if x == x and x not in (float('inf'), float('-inf')) and x == int(x) and I64_MIN <= int(x) <= I64_MAX:
        return 'i%d' % int(x)
    return 'd' + struct.pack('>d', x).hex()


def canon(v):
    """Canonical encoding; raises Unjudged for unpaired surrogates."""
    if v is None:
        return 'n'
    if v is True:
        return 't'
    if v is False:
        return 'f'
    if isinstance(v, (int, float)):
        return canon_number(v)
    if isinstance(v, str):
        try:
            return 's' + v.encode('utf-8', 'strict').hex()
        except UnicodeEncodeError:
            raise Unjudged('unpaired surrogate')
    if isinstance(v, Pairs) or isinstance(v, dict):
        items = v if isinstance(v, Pairs) else list(v.items())
        last = {}
        for k, val in items:
            try:
                kb = k.encode('utf-8', 'strict')
            except UnicodeEncodeError:
                raise Unjudged('unpaired surrogate in name')
            last[kb] = val
        parts = []
        for kb in sorted(last):
            parts.append('s' + kb.hex())
            parts.append(canon(last[kb]))
        return 'o(' + ' '.join(parts) + ')'
    if isinstance(v, list):
        return 'a(' + ' '.join(canon(e) for e in v) + ')'
    raise TypeError(type(v))


def measures(v):
    """(D, N, maxArr, memText, memVal, strBytes, strCps)"""
    D = N = maxArr = memText = memVal = strBytes = strCps = 0
    stack = [(v, 0)]
    while stack:
        x, d = stack.pop()
        if d > D:
            D = d
        if isinstance(x, str):
            b = len(x.encode('utf-8', 'surrogatepass'))
            strBytes = max(strBytes, b)
            strCps = max(strCps, len(x))
        elif isinstance(x, Pairs):
            N = max(N, d + 1)
            memText = max(memText, len(x))
            memVal = max(memVal, len({k for k, _ in x}))
            for k, val in x:
                b = len(k.encode('utf-8', 'surrogatepass'))
                strBytes = max(strBytes, b)
                strCps = max(strCps, len(k))
                stack.append((val, d + 1))
        elif isinstance(x, list):
            N = max(N, d + 1)
            maxArr = max(maxArr, len(x))
            for e in x:
                stack.append((e, d + 1))
    return D, N, maxArr, memText, memVal, strBytes, strCps


def respond(data: bytes) -> str:
    try:
        v = decode(data)
    except Reject:
        return 'R'
    try:
        c = canon(v)
    except Unjudged:
        return 'U'
    return 'V %s %d %d %d %d %d %d %d' % ((c,) + measures(v))


def serve():
    out = sys.stdout
    for line in sys.stdin:
        line = line.strip()
        if line == 'quit':
            break
        try:
            data = bytes.fromhex(line)
        except ValueError:
            out.write('E bad request\n')
            out.flush()
            continue
        out.write(respond(data))
        out.write('\n')
        out.flush()


if __name__ == '__main__':
    sys.setrecursionlimit(20000)
    if len(sys.argv) > 1 and sys.argv[1] == '--serve':
        serve()
    else:
        for a in sys.argv[1:]:
            print(respond(a.encode('utf-8', 'surrogateescape')))

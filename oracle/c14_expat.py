#!/usr/bin/env python3
"""C14 oracle cross-check: CPython's expat against the generator's expected event sequence.

usage: c14_expat.py <in> <out>
<in>  : one case per line  "<hex document>\t<hex expected canonical events>"
<out> : one line per disagreement "<line index>\t<REJECT|DIFF>\t<hex of what expat produced / its error>"
        and a last line "DONE <number of cases>" (its absence means the script died).

Canonical event serialisation (must match canonEvents() in harness/C14_xml.cpp):
  kind depth 0x1f name 0x1f text { 0x1e attrname 0x1f attrvalue }* 0x1d
kind: S start element, E end element, T character data outside CDATA (adjacent pieces merged,
whitespace-only pieces dropped), C one CDATA section, M comment, P processing instruction
(name = target, text = data).  depth: S/E = nesting depth of that element (root = 1), the others =
number of open elements.  XML declaration and DOCTYPE are not events.  No namespace processing.
"""
import sys
import xml.parsers.expat as expat


def events(doc):
    out = []
    st = {'depth': 0, 'cdata': False, 'cbuf': None}

    def ev(kind, depth, name=b'', text=b'', attrs=()):
        b = kind + str(depth).encode() + b'\x1f' + name + b'\x1f' + text
        for an, av in attrs:
            b += b'\x1e' + an + b'\x1f' + av
        out.append(b + b'\x1d')

    def start(name, attrs):
        st['depth'] += 1
        pairs = [(attrs[i].encode('utf-8'), attrs[i + 1].encode('utf-8')) for i in range(0, len(attrs), 2)]
        ev(b'S', st['depth'], name.encode('utf-8'), b'', pairs)

    def end(name):
        ev(b'E', st['depth'], name.encode('utf-8'))
        st['depth'] -= 1

    def chars(data):
        if st['cdata']:
            st['cbuf'].append(data)
        else:
            if data.strip(' \t\r\n') != '':
                ev(b'T', st['depth'], b'', data.encode('utf-8'))

    def cstart():
        st['cdata'] = True
        st['cbuf'] = []

    def cend():
        ev(b'C', st['depth'], b'', ''.join(st['cbuf']).encode('utf-8'))
        st['cdata'] = False

    def comment(data):
        ev(b'M', st['depth'], b'', data.encode('utf-8'))

    def pi(target, data):
        ev(b'P', st['depth'], target.encode('utf-8'), data.encode('utf-8'))

    p = expat.ParserCreate()
    p.ordered_attributes = True
    p.buffer_text = True
    p.buffer_size = 1 << 20
    p.StartElementHandler = start
    p.EndElementHandler = end
    p.CharacterDataHandler = chars
    p.StartCdataSectionHandler = cstart
    p.EndCdataSectionHandler = cend
    p.CommentHandler = comment
    p.ProcessingInstructionHandler = pi
    p.Parse(doc, True)
    return b''.join(out)


def main():
    src, dst = sys.argv[1], sys.argv[2]
    n = 0
    with open(src, 'rb') as f, open(dst, 'wb') as o:
        for i, line in enumerate(f):
            line = line.rstrip(b'\n')
            if not line:
                continue
            n += 1
            h1, _, h2 = line.partition(b'\t')
            doc = bytes.fromhex(h1.decode())
            want = bytes.fromhex(h2.decode())
            try:
                got = events(doc)
            except expat.ExpatError as e:
                o.write(b'%d\tREJECT\t%s\n' % (i, str(e).encode().hex().encode()))
                continue
            if got != want:
                o.write(b'%d\tDIFF\t%s\n' % (i, got.hex().encode()))
        o.write(b'DONE %d\n' % n)
    return 0


if __name__ == '__main__':
    sys.exit(main())

// C15 (server side): independent reference framer for HTTP/1.1 *request* streams.
//
// Written from RFC 9112 (§2.2 message parsing, §3 request line, §5 field syntax, §6 message body,
// §6.3 message body length, §7.1 chunked coding incl. chunk extensions and trailer section) and
// RFC 9110 §5 (fields, OWS, list combination).  It shares no code and no parsing strategy with iora:
// it is a strict, single forward pass with subtraction-based bounds and never searches for a
// terminator inside a body.
//
// The framer is deliberately *three-valued*.  For a byte stream it returns the longest sequence of
// messages that every conforming HTTP/1.1 server must frame identically ("certainly valid": strict
// grammar subset, see below), plus a verdict about the first thing that is not such a message:
//   Complete       nothing follows the last message
//   Incomplete     what follows is a proper prefix of a message; no conforming server can have
//                  completed another message from these bytes
//   InvalidLength  what follows carries invalid length information (conflicting or non-numeric
//                  Content-Length, non-hex / overflowing chunk-size ...): the property statement says
//                  it must be rejected rather than framed
//   Other          anything else that is malformed, unusual or merely outside the strict subset: the
//                  property statement makes no claim (a lenient server may accept, a strict one may
//                  reject), so the oracle demands nothing about it
//
// Strict subset ("certainly valid, certainly routed to a handler"):
//   request-line  = ("GET" / "POST" / "HEAD") SP origin-form SP "HTTP/1.1" CRLF
//   origin-form   = "/" *( ALPHA / DIGIT / "/" / "%" / "." / "_" / "~" / "-" ) [ "?" k "=" v *( "&" k "=" v ) ]
//   field-line    = token ":" OWS *( %x21-7E / SP / HTAB ) OWS CRLF     (no obs-fold, no obs-text, no bare CR/LF)
//   exactly one non-empty Host; repeated field names only for Via (a #list field, RFC 9110 §7.6.3)
//   Transfer-Encoding, if present, is exactly "chunked" (case-insensitive), at most one field line
//   Content-Length, if present, is one field line holding 1*DIGIT that fits 64 bits
//   chunk         = 1*HEXDIG *( ";" token [ "=" ( token / quoted-string ) ] ) CRLF data CRLF
//   trailer field lines as header field lines
#pragma once
#include <cstdint>
#include <string>
#include <utility>
#include <vector>

namespace c15ref
{

struct Field
{
  std::string name, value; // value OWS-trimmed, name as written
};

struct Region
{
  size_t off;        // first byte of the region
  const char *label; // request-line, headers, header-terminator, cl-body, chunk-size-line, chunk-data,
                     // chunk-crlf, last-chunk-line, trailer-fields, final-crlf
};

struct Msg
{
  std::string method, target;
  std::vector<Field> fields;
  std::string body;    // payload after removing any transfer coding
  std::string framing; // none | cl | chunked | chunked+ext | chunked+trailers | chunked+ext+trailers
  bool clAndTe = false; // both Content-Length and Transfer-Encoding present (RFC 9112 §6.1: the server
                        // MAY reject, or process by Transfer-Encoding alone)
  size_t begin = 0, bodyBegin = 0, end = 0; // [begin,end) in the stream; bodyBegin = first byte after CRLFCRLF
  std::vector<Field> trailers;
  std::vector<Region> regions;
};

enum class Tail
{
  Complete,
  Incomplete,
  InvalidLength,
  Other
};

inline const char *tailName(Tail t)
{
  switch (t)
  {
  case Tail::Complete:
    return "complete";
  case Tail::Incomplete:
    return "incomplete";
  case Tail::InvalidLength:
    return "invalid-length";
  default:
    return "other";
  }
}

struct Parse
{
  std::vector<Msg> msgs;
  Tail tail = Tail::Complete;
  std::string feature; // why the tail is what it is (structural, no offsets)
  size_t tailAt = 0;   // offset where the tail starts
};

namespace detail
{
inline bool isTchar(unsigned char c)
{
  if ((c >= 'A' && c <= 'Z') || (c >= 'a' && c <= 'z') || (c >= '0' && c <= '9'))
    return true;
  switch (c)
  {
  case '!': case '#': case '$': case '%': case '&': case '\'': case '*': case '+':
  case '-': case '.': case '^': case '_': case '`': case '|': case '~':
    return true;
  }
  return false;
}
inline bool isToken(const std::string &s)
{
  if (s.empty())
    return false;
  for (unsigned char c : s)
    if (!isTchar(c))
      return false;
  return true;
}
inline char lower(unsigned char c) { return (c >= 'A' && c <= 'Z') ? char(c + 32) : char(c); }
inline std::string lowered(std::string s)
{
  for (auto &c : s)
    c = lower((unsigned char)c);
  return s;
}
inline std::string trimOws(const std::string &s)
{
  size_t a = 0, b = s.size();
  while (a < b && (s[a] == ' ' || s[a] == '\t'))
    ++a;
  while (b > a && (s[b - 1] == ' ' || s[b - 1] == '\t'))
    --b;
  return s.substr(a, b - a);
}
inline bool isHex(unsigned char c) { return (c >= '0' && c <= '9') || (c >= 'a' && c <= 'f') || (c >= 'A' && c <= 'F'); }
inline int hexVal(unsigned char c) { return c <= '9' ? c - '0' : (c | 0x20) - 'a' + 10; }

// Strict origin-form with a well-formed query (unique non-empty keys).
inline bool strictTarget(const std::string &t)
{
  if (t.empty() || t[0] != '/')
    return false;
  size_t q = t.find('?');
  std::string path = t.substr(0, q);
  for (unsigned char c : path)
  {
    bool ok = (c >= 'A' && c <= 'Z') || (c >= 'a' && c <= 'z') || (c >= '0' && c <= '9') || c == '/' || c == '%' || c == '.' ||
              c == '_' || c == '~' || c == '-';
    if (!ok)
      return false;
  }
  if (q == std::string::npos)
    return true;
  std::string query = t.substr(q + 1);
  if (query.empty())
    return false;
  std::vector<std::string> keys;
  size_t p = 0;
  while (true)
  {
    size_t amp = query.find('&', p);
    std::string pair = query.substr(p, amp == std::string::npos ? std::string::npos : amp - p);
    size_t eq = pair.find('=');
    if (eq == std::string::npos || eq == 0)
      return false;
    for (unsigned char c : pair)
    {
      bool ok = (c >= 'A' && c <= 'Z') || (c >= 'a' && c <= 'z') || (c >= '0' && c <= '9') || c == '=' || c == '%' || c == '.' ||
                c == '_' || c == '~' || c == '-';
      if (!ok)
        return false;
    }
    std::string k = pair.substr(0, eq);
    for (auto &o : keys)
      if (o == k)
        return false;
    keys.push_back(k);
    if (amp == std::string::npos)
      break;
    p = amp + 1;
  }
  return true;
}

// Result of trying to take one CRLF-terminated line starting at pos.
enum class LineSt
{
  Ok,
  NeedMore, // no CRLF yet and nothing wrong so far
  Bad       // a bare LF / bare CR / NUL / byte outside the strict field alphabet
};

// Takes the line [pos, eol) where eol is the first CRLF at or after pos.  `strictBytes`: demand that
// every byte of the line is SP / HTAB / %x21-7E.
inline LineSt takeLine(const std::string &s, size_t pos, std::string &line, size_t &next, bool &bareLf)
{
  size_t i = pos;
  bareLf = false;
  for (; i < s.size(); ++i)
  {
    unsigned char c = (unsigned char)s[i];
    if (c == '\r')
    {
      if (i + 1 >= s.size())
        return LineSt::NeedMore; // CR is the last byte so far
      if (s[i + 1] == '\n')
      {
        line = s.substr(pos, i - pos);
        next = i + 2;
        return LineSt::Ok;
      }
      return LineSt::Bad; // bare CR
    }
    if (c == '\n')
    {
      bareLf = true;
      return LineSt::Bad;
    }
    if (!(c == ' ' || c == '\t' || (c >= 0x21 && c <= 0x7e)))
      return LineSt::Bad; // NUL, other CTL, DEL, obs-text
  }
  return LineSt::NeedMore;
}

// Any LF not preceded by CR in [pos,end)?  (a lenient server MAY treat it as a line end, RFC 9112 §2.2)
inline bool hasBareLf(const std::string &s, size_t pos)
{
  for (size_t i = pos; i < s.size(); ++i)
    if (s[i] == '\n' && (i == pos || s[i - 1] != '\r'))
      return true;
  return false;
}

inline bool parseFieldLine(const std::string &line, Field &f)
{
  if (line.empty() || line[0] == ' ' || line[0] == '\t')
    return false; // obs-fold / empty
  size_t c = line.find(':');
  if (c == std::string::npos || c == 0)
    return false;
  f.name = line.substr(0, c);
  if (!isToken(f.name))
    return false; // includes whitespace before the colon
  f.value = trimOws(line.substr(c + 1));
  return true;
}

// chunk-ext: *( ";" token [ "=" ( token / quoted-string ) ] ), strict (no BWS).
inline bool strictChunkExt(const std::string &e)
{
  size_t i = 0;
  while (i < e.size())
  {
    if (e[i] != ';')
      return false;
    ++i;
    size_t a = i;
    while (i < e.size() && isTchar((unsigned char)e[i]))
      ++i;
    if (i == a)
      return false;
    if (i < e.size() && e[i] == '=')
    {
      ++i;
      if (i < e.size() && e[i] == '"')
      {
        ++i;
        bool closed = false;
        while (i < e.size())
        {
          unsigned char c = (unsigned char)e[i];
          if (c == '"')
          {
            closed = true;
            ++i;
            break;
          }
          if (c == '\\')
            return false; // quoted-pair: legal but outside the strict subset
          if (!(c == ' ' || c == '\t' || (c >= 0x21 && c <= 0x7e)))
            return false;
          ++i;
        }
        if (!closed)
          return false;
      }
      else
      {
        size_t b = i;
        while (i < e.size() && isTchar((unsigned char)e[i]))
          ++i;
        if (i == b)
          return false;
      }
    }
  }
  return true;
}

// Classify a length token that is not 1*DIGIT / 1*HEXDIG.  Structural, no digits of the value.
inline std::string badNumberClass(const std::string &v, bool hex)
{
  if (v.empty())
    return "empty";
  unsigned char c0 = (unsigned char)v[0];
  if (c0 == '+')
    return "sign-plus";
  if (c0 == '-')
    return "negative";
  if (c0 == ' ' || c0 == '\t')
    return "leading-ws";
  bool lead = hex ? isHex(c0) : (c0 >= '0' && c0 <= '9');
  if (lead)
  {
    if (hex && v.size() >= 2 && v[0] == '0' && (v[1] == 'x' || v[1] == 'X'))
      return "0x-prefix";
    return "trailing-garbage";
  }
  return "non-numeric";
}
} // namespace detail

// Content-Length field lines -> value.  ret: 0 ok (value in n), 1 invalid (feature set), 2 identical
// duplicates (RFC 9112 §6.3 rule 5: MAY accept or MUST reject -> no claim).
inline int evalContentLength(const std::vector<std::string> &values, uint64_t &n, std::string &feature)
{
  std::vector<std::string> elems;
  for (auto &v : values)
  {
    size_t p = 0;
    while (true)
    {
      size_t comma = v.find(',', p);
      elems.push_back(detail::trimOws(v.substr(p, comma == std::string::npos ? std::string::npos : comma - p)));
      if (comma == std::string::npos)
        break;
      p = comma + 1;
    }
  }
  bool droppedEmpty = false;
  if (elems.size() > 1)
  {
    // RFC 9110 §5.6.1: a recipient MUST ignore a reasonable number of empty list elements
    std::vector<std::string> ne;
    for (auto &e : elems)
      if (!e.empty())
        ne.push_back(e);
    if (!ne.empty() && ne.size() != elems.size())
    {
      droppedEmpty = true;
      elems = ne;
    }
  }
  std::vector<uint64_t> nums;
  for (auto &e : elems)
  {
    bool digits = !e.empty();
    for (unsigned char c : e)
      if (c < '0' || c > '9')
        digits = false;
    if (!digits)
    {
      // a list whose first element is numeric and that has further elements is reported as a list
      feature = std::string("cl:") + (elems.size() > 1 && values.size() == 1 ? "list:" : "") + detail::badNumberClass(e, false);
      return 1;
    }
    size_t z = 0;
    while (z + 1 < e.size() && e[z] == '0')
      ++z;
    std::string sig = e.substr(z);
    if (sig.size() > 20)
    {
      feature = "cl:overflow-64bit";
      return 1;
    }
    unsigned __int128 acc = 0;
    for (unsigned char c : sig)
      acc = acc * 10 + (c - '0');
    if (acc > (unsigned __int128)UINT64_MAX)
    {
      feature = "cl:overflow-64bit";
      return 1;
    }
    nums.push_back((uint64_t)acc);
  }
  for (size_t i = 1; i < nums.size(); ++i)
    if (nums[i] != nums[0])
    {
      feature = values.size() > 1 ? "cl:duplicate-fields-differ" : "cl:list-values-differ";
      return 1;
    }
  n = nums[0];
  if (nums.size() > 1 || droppedEmpty)
  {
    feature = droppedEmpty ? "cl:empty-list-element" : "cl:identical-duplicates";
    return 2;
  }
  return 0;
}

inline Parse parseStream(const std::string &s)
{
  using namespace detail;
  Parse out;
  size_t pos = 0;
  auto stop = [&](Tail t, const std::string &f, size_t at)
  {
    out.tail = t;
    out.feature = f;
    out.tailAt = at;
    return out;
  };
  while (pos < s.size())
  {
    Msg m;
    m.begin = pos;
    // A head that cannot be completed: Incomplete unless a bare LF is present anywhere in the rest
    // (a lenient server may take it as a line terminator and see a complete head).
    auto headNeedMore = [&](const char *where) { return hasBareLf(s, m.begin) ? stop(Tail::Other, std::string("bare-lf-in-incomplete-") + where, m.begin)
                                                                              : stop(Tail::Incomplete, std::string("incomplete-") + where, m.begin); };
    std::string line;
    size_t next = 0;
    bool bareLf = false;
    // ---- request line ----
    LineSt st = takeLine(s, pos, line, next, bareLf);
    if (st == LineSt::NeedMore)
      return headNeedMore("request-line");
    if (st == LineSt::Bad)
      return stop(Tail::Other, "request-line:bad-byte", m.begin);
    {
      size_t p1 = line.find(' ');
      size_t p2 = p1 == std::string::npos ? std::string::npos : line.find(' ', p1 + 1);
      if (p1 == std::string::npos || p2 == std::string::npos)
        return stop(Tail::Other, "request-line:shape", m.begin);
      m.method = line.substr(0, p1);
      m.target = line.substr(p1 + 1, p2 - p1 - 1);
      std::string ver = line.substr(p2 + 1);
      if (!(m.method == "GET" || m.method == "POST" || m.method == "HEAD"))
        return stop(Tail::Other, "request-line:method", m.begin);
      if (!strictTarget(m.target))
        return stop(Tail::Other, "request-line:target", m.begin);
      if (ver != "HTTP/1.1")
        return stop(Tail::Other, "request-line:version", m.begin);
    }
    m.regions.push_back({pos, "request-line"});
    pos = next;
    // ---- header section ----
    size_t hdrStart = pos;
    size_t lastLineStart = pos;
    while (true)
    {
      st = takeLine(s, pos, line, next, bareLf);
      if (st == LineSt::NeedMore)
        return headNeedMore("header-section");
      if (st == LineSt::Bad)
        return stop(Tail::Other, "header-section:bad-byte", m.begin);
      if (line.empty())
      {
        // empty line: end of section.  Terminator = CRLF of the previous line + this CRLF.
        break;
      }
      Field f;
      if (!parseFieldLine(line, f))
        return stop(Tail::Other, "header-section:field-syntax", m.begin);
      m.fields.push_back(f);
      lastLineStart = pos;
      pos = next;
    }
    (void)lastLineStart;
    size_t termStart = pos - 2; // CRLF that ends the last non-empty line (request line if no fields)
    if (hdrStart < termStart)
      m.regions.push_back({hdrStart, "headers"});
    else if (!m.regions.empty() && termStart < hdrStart)
    {
      // no header fields: the terminator overlaps the request line's CRLF
    }
    m.regions.push_back({termStart, "header-terminator"});
    pos = next;
    m.bodyBegin = pos;
    // ---- field constraints ----
    int hosts = 0;
    std::vector<std::string> cl, te;
    for (size_t i = 0; i < m.fields.size(); ++i)
    {
      std::string ln = lowered(m.fields[i].name);
      if (ln == "host")
      {
        ++hosts;
        if (m.fields[i].value.empty())
          return stop(Tail::Other, "host:empty", m.begin);
      }
      else if (ln == "content-length")
        cl.push_back(m.fields[i].value);
      else if (ln == "transfer-encoding")
        te.push_back(m.fields[i].value);
      else if (ln == "upgrade" || ln == "expect" || ln == "connection")
        return stop(Tail::Other, "field:" + ln, m.begin); // may legitimately divert or close; outside the subset
      if (ln != "via" && ln != "content-length")
        for (size_t j = 0; j < i; ++j)
          if (lowered(m.fields[j].name) == ln)
            return stop(Tail::Other, "field:repeated-non-list", m.begin);
    }
    if (hosts != 1)
      return stop(Tail::Other, "host:count", m.begin);
    // ---- message body length, RFC 9112 §6.3 ----
    if (!te.empty())
    {
      if (te.size() > 1 || lowered(te[0]) != "chunked")
        return stop(Tail::Other, "te:not-exactly-chunked", m.begin);
      m.clAndTe = !cl.empty();
      bool anyExt = false;
      // ---- chunked body, RFC 9112 §7.1 ----
      while (true)
      {
        size_t lineStart = pos;
        // chunk-size line.  Its leading token is length information, so it is classified precisely:
        // 1*HEXDIG then ";" / CRLF is valid; whitespace or a bare LF/CR after (or before) the digits is
        // outside the strict subset but a lenient parser may legitimately cope (BWS, RFC 9112 §7.1.1;
        // bare LF, §2.2) -> Other; any other byte makes the size non-numeric -> InvalidLength.
        size_t i = pos;
        while (i < s.size() && isHex((unsigned char)s[i]))
          ++i;
        std::string sizeTok = s.substr(pos, i - pos);
        if (i >= s.size())
          return stop(Tail::Incomplete, "incomplete-chunk-size-line", m.begin);
        unsigned char d = (unsigned char)s[i];
        size_t eol = std::string::npos; // offset of the CR of the terminating CRLF
        size_t semi = std::string::npos;
        if (d == ';')
          semi = i;
        else if (d == '\r')
        {
          if (i + 1 >= s.size())
            return stop(Tail::Incomplete, "incomplete-chunk-size-line", m.begin);
          if (s[i + 1] != '\n')
            return stop(Tail::Other, "chunk-size:bare-cr", m.begin);
          eol = i;
        }
        else if (d == '\n')
          return stop(Tail::Other, "chunk-size:bare-lf", m.begin);
        else if (d == ' ' || d == '\t')
          return stop(Tail::Other, sizeTok.empty() ? "chunk-size:leading-ws" : "chunk-size:bws", m.begin);
        else
        {
          std::string cls;
          if (sizeTok.empty())
            cls = d == '+' ? "sign-plus" : d == '-' ? "negative" : "non-numeric";
          else if (sizeTok == "0" && (d == 'x' || d == 'X'))
            cls = "0x-prefix";
          else
            cls = "trailing-garbage";
          return stop(Tail::InvalidLength, "chunk-size:" + cls, m.begin);
        }
        if (sizeTok.empty())
          return stop(Tail::InvalidLength, "chunk-size:empty", m.begin);
        size_t z = 0;
        while (z + 1 < sizeTok.size() && sizeTok[z] == '0')
          ++z;
        if (sizeTok.size() - z > 16)
          return stop(Tail::InvalidLength, "chunk-size:overflow-64bit", m.begin);
        uint64_t v = 0;
        for (size_t k = z; k < sizeTok.size(); ++k)
          v = (v << 4) | (uint64_t)hexVal((unsigned char)sizeTok[k]);
        if (semi != std::string::npos)
        {
          size_t j = semi;
          for (; j < s.size(); ++j)
          {
            unsigned char c = (unsigned char)s[j];
            if (c == '\r')
            {
              if (j + 1 >= s.size())
                return stop(Tail::Incomplete, "incomplete-chunk-size-line", m.begin);
              if (s[j + 1] != '\n')
                return stop(Tail::Other, "chunk-ext:bare-cr", m.begin);
              eol = j;
              break;
            }
            if (!(c == ' ' || c == '\t' || (c >= 0x21 && c <= 0x7e)))
              return stop(Tail::Other, "chunk-ext:bad-byte", m.begin);
          }
          if (eol == std::string::npos)
            return stop(Tail::Incomplete, "incomplete-chunk-size-line", m.begin);
          if (!strictChunkExt(s.substr(semi, eol - semi)))
            return stop(Tail::Other, "chunk-ext:syntax", m.begin);
          anyExt = true;
        }
        pos = eol + 2;
        if (v == 0)
        {
          m.regions.push_back({lineStart, "last-chunk-line"});
          break;
        }
        m.regions.push_back({lineStart, "chunk-size-line"});
        // v bytes of data then CRLF; subtraction-based bounds (v may be close to 2^64)
        size_t avail = s.size() - pos;
        if (v > (uint64_t)avail)
        {
          std::string f = "incomplete-chunk-data";
          if (v >= (uint64_t(1) << 63))
            f += ":size>=2^63";
          else if (v >= (uint64_t(1) << 32))
            f += ":size>=2^32";
          return stop(Tail::Incomplete, f, m.begin);
        }
        m.regions.push_back({pos, "chunk-data"});
        m.body.append(s, pos, (size_t)v);
        pos += (size_t)v;
        if (s.size() - pos < 2)
        {
          if (s.size() - pos == 1 && s[pos] != '\r')
            return stop(Tail::Other, "chunk-data:not-followed-by-crlf", m.begin);
          return stop(Tail::Incomplete, "incomplete-chunk-crlf", m.begin);
        }
        if (s[pos] != '\r' || s[pos + 1] != '\n')
          return stop(Tail::Other, "chunk-data:not-followed-by-crlf", m.begin);
        m.regions.push_back({pos, "chunk-crlf"});
        pos += 2;
      }
      // ---- trailer section ----
      size_t trStart = pos;
      while (true)
      {
        st = takeLine(s, pos, line, next, bareLf);
        if (st == LineSt::NeedMore)
          return hasBareLf(s, trStart) ? stop(Tail::Other, "bare-lf-in-incomplete-trailer-section", m.begin)
                                       : stop(Tail::Incomplete, "incomplete-trailer-section", m.begin);
        if (st == LineSt::Bad)
          return stop(Tail::Other, "trailer-section:bad-byte", m.begin);
        if (line.empty())
          break;
        Field f;
        if (!parseFieldLine(line, f))
          return stop(Tail::Other, "trailer-section:field-syntax", m.begin);
        std::string ln = lowered(f.name);
        if (ln == "content-length" || ln == "transfer-encoding" || ln == "host" || ln == "trailer")
          return stop(Tail::Other, "trailer-section:forbidden-field", m.begin);
        m.trailers.push_back(f);
        pos = next;
      }
      if (trStart < pos)
        m.regions.push_back({trStart, "trailer-fields"});
      m.regions.push_back({pos, "final-crlf"});
      pos = next;
      m.framing = "chunked";
      if (anyExt)
        m.framing += "+ext";
      if (!m.trailers.empty())
        m.framing += "+trailers";
    }
    else if (!cl.empty())
    {
      uint64_t n = 0;
      std::string feat;
      int r = evalContentLength(cl, n, feat);
      if (r == 1)
        return stop(Tail::InvalidLength, feat, m.begin);
      if (r == 2)
        return stop(Tail::Other, feat, m.begin);
      size_t avail = s.size() - pos;
      if (n > (uint64_t)avail)
        return stop(Tail::Incomplete, "incomplete-cl-body", m.begin);
      if (n > 0)
        m.regions.push_back({pos, "cl-body"});
      m.body.assign(s, pos, (size_t)n);
      pos += (size_t)n;
      m.framing = "cl";
    }
    else
    {
      m.framing = "none"; // RFC 9112 §6.3 rule 7: a request without CL/TE has no body
    }
    m.end = pos;
    out.msgs.push_back(std::move(m));
  }
  out.tail = Tail::Complete;
  out.tailAt = pos;
  return out;
}

// Label of the place where the stream is cut between byte c-1 and byte c (0 < c < size): the region
// holding byte c-1 and the region holding byte c; "A" if equal, "A|B" if the cut falls between two
// regions, "message-boundary" between two messages, "tail" beyond the last framed message.
inline std::string cutRegion(const Parse &p, size_t c)
{
  auto labelOf = [&](size_t b) -> std::string
  {
    for (auto &m : p.msgs)
      if (b >= m.begin && b < m.end)
      {
        const char *l = "?";
        for (auto &r : m.regions)
          if (r.off <= b)
            l = r.label;
        return l;
      }
    return "tail";
  };
  for (auto &m : p.msgs)
    if (c == m.end)
      return "message-boundary";
  std::string a = labelOf(c - 1), b = labelOf(c);
  return a == b ? a : a + "|" + b;
}

} // namespace c15ref

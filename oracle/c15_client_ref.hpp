// C15 (client side): independent reference framer for HTTP/1.1 *responses*.
//
// Written from RFC 9112 (HTTP/1.1) section 2.2 (message parsing), 4 (status line), 5 (field syntax),
// 6.1-6.3 (Transfer-Encoding, Content-Length, message body length rules 1..8), 7.1 (chunked
// transfer coding, chunk extensions, trailer section) and RFC 9110 section 5.5/5.6 (field values,
// tokens, lists, quoted-string), 8.6 (Content-Length).  It shares no code and no parsing strategy
// with iora: it looks at the WHOLE byte stream at once (stream + EOF), is strict about grammar, and
// classifies what an HTTP client is obliged to do with that stream:
//
//   MustEqual        the stream starts with a strictly valid response (after 0..n interim 1xx
//                    responses); the client has to hand exactly `msg` to the application and the
//                    message ends at `consumed`.
//   Either           valid, but the RFC explicitly lets a recipient reject it (Content-Length given
//                    as a list of identical values, unsupported final transfer coding, invalid
//                    length fields on a response that has no body by rule 1): the client may frame
//                    exactly `msg` or report a framing error.  Anything else is wrong.
//   MustNotComplete  nothing may be handed to the application as a complete message: either the
//                    (so far strictly valid) message is cut short by EOF ("truncated"), or its
//                    length information is invalid ("bad-length:*": non-numeric / conflicting /
//                    overflowing Content-Length, Content-Length together with Transfer-Encoding,
//                    non-numeric / overflowing / over-cap chunk-size).
//   DontCare         some other grammar violation (bare CR/LF, bad field name, obs-fold, bad
//                    version, status outside 100..599, 101, malformed chunk-ext, ...).  A lenient
//                    recipient may accept or reject; only the robustness clauses apply.
//
// The strictness is deliberate: whatever this framer calls MustEqual is valid beyond doubt, and
// whatever an implementation accepts leniently lands in DontCare, so the oracle never demands more
// than the property statement.
#pragma once
#include <cstdint>
#include <string>
#include <utility>
#include <vector>

namespace c15ref
{

struct Field
{
  std::string name, value; // value with optional whitespace (SP / HTAB) removed on both sides
};

struct Message
{
  int status = 0;
  int minor = 1;
  std::string reason;
  std::vector<Field> fields;   // header section of the FINAL response, in order
  std::vector<Field> trailers; // trailer section (chunked only)
  std::string body;            // decoded content
};

enum class Verdict
{
  MustEqual,
  Either,
  MustNotComplete,
  DontCare
};

// A region of the stream, used to derive structural signatures from the position of a cut.
struct Region
{
  size_t begin, end; // [begin,end)
  const char *name;
};

struct Result
{
  Verdict verdict = Verdict::DontCare;
  std::string why;        // "ok", "ok:cl-list", "truncated:<where>", "bad-length:<what>", "syntax:<what>", ...
  std::string framing;    // nobody | content-length | chunked | close-delimited | "" (undetermined)
  Message msg;            // meaningful for MustEqual / Either
  size_t consumed = 0;    // offset just past the final response (stream.size() for close-delimited)
  bool closeDelimited = false;
  int interim = 0;        // number of interim 1xx responses skipped
  bool interimLengthFields = false; // an interim response carried Content-Length / Transfer-Encoding
  std::vector<Region> regions;
};

namespace detail
{
inline bool isDigit(unsigned char c) { return c >= '0' && c <= '9'; }
inline bool isAlpha(unsigned char c) { return (c >= 'a' && c <= 'z') || (c >= 'A' && c <= 'Z'); }
inline bool isHex(unsigned char c) { return isDigit(c) || (c >= 'a' && c <= 'f') || (c >= 'A' && c <= 'F'); }
inline bool isTchar(unsigned char c)
{
  if (isDigit(c) || isAlpha(c))
    return true;
  switch (c)
  {
  case '!': case '#': case '$': case '%': case '&': case '\'': case '*': case '+':
  case '-': case '.': case '^': case '_': case '`': case '|': case '~':
    return true;
  default:
    return false;
  }
}
inline bool isToken(const std::string &s)
{
  if (s.empty())
    return false;
  for (unsigned char c : s)
    if (!isTchar(c))
      return false;
  return true;
}
inline bool isFieldVchar(unsigned char c) { return (c >= 0x21 && c <= 0x7e) || c >= 0x80; } // VCHAR / obs-text
inline bool isOws(unsigned char c) { return c == ' ' || c == '\t'; }
inline std::string lower(std::string s)
{
  for (auto &c : s)
    if (c >= 'A' && c <= 'Z')
      c = char(c + 32);
  return s;
}
inline std::string trimOws(const std::string &s)
{
  size_t a = 0, b = s.size();
  while (a < b && isOws((unsigned char)s[a]))
    ++a;
  while (b > a && isOws((unsigned char)s[b - 1]))
    --b;
  return s.substr(a, b - a);
}

// One CRLF-terminated line starting at `pos`.
enum class LineStatus
{
  Ok,        // line = [pos, eol), next = eol + 2
  Partial,   // no LF yet and nothing wrong so far
  BareLf,    // LF not preceded by CR
  BareCr     // CR not followed by LF inside the line
};
inline LineStatus readLine(const std::string &s, size_t pos, std::string &line, size_t &next)
{
  size_t i = pos;
  for (; i < s.size(); ++i)
  {
    unsigned char c = (unsigned char)s[i];
    if (c == '\n')
      return LineStatus::BareLf;
    if (c == '\r')
    {
      if (i + 1 >= s.size())
        return LineStatus::Partial; // CR is the last byte received: cannot tell yet
      if (s[i + 1] == '\n')
      {
        line = s.substr(pos, i - pos);
        next = i + 2;
        return LineStatus::Ok;
      }
      return LineStatus::BareCr;
    }
  }
  return LineStatus::Partial;
}

// field-line = field-name ":" OWS field-value OWS
inline bool parseFieldLine(const std::string &line, Field &f)
{
  size_t colon = line.find(':');
  if (colon == std::string::npos)
    return false;
  f.name = line.substr(0, colon);
  if (!isToken(f.name))
    return false;
  f.value = trimOws(line.substr(colon + 1));
  for (unsigned char c : f.value)
    if (!isFieldVchar(c) && !isOws(c))
      return false;
  return true;
}

// Split a field value at commas (no quoted-string awareness is needed for the two fields this is
// used on: Content-Length and Transfer-Encoding elements never contain quoted commas once they are
// restricted to DIGITs / tokens; anything else is classified as invalid or DontCare by the caller).
inline std::vector<std::string> splitList(const std::string &v)
{
  std::vector<std::string> out;
  size_t a = 0;
  while (true)
  {
    size_t c = v.find(',', a);
    if (c == std::string::npos)
    {
      out.push_back(trimOws(v.substr(a)));
      break;
    }
    out.push_back(trimOws(v.substr(a, c - a)));
    a = c + 1;
  }
  return out;
}

// Decimal / hex digit strings compared as unbounded naturals via their normalised digits.
inline std::string stripZeros(const std::string &d)
{
  size_t i = 0;
  while (i + 1 < d.size() && d[i] == '0')
    ++i;
  return d.substr(i);
}
// value of a decimal string if it fits in 64 bits
inline bool dec64(const std::string &digits, uint64_t &out)
{
  std::string d = stripZeros(digits);
  if (d.size() > 20)
    return false;
  unsigned __int128 v = 0;
  for (char c : d)
    v = v * 10 + unsigned(c - '0');
  if (v > (unsigned __int128)UINT64_MAX)
    return false;
  out = (uint64_t)v;
  return true;
}
inline bool hex64(const std::string &digits, uint64_t &out)
{
  std::string d = stripZeros(digits);
  if (d.size() > 16)
    return false;
  uint64_t v = 0;
  for (char ch : d)
  {
    unsigned char c = (unsigned char)ch;
    unsigned x = isDigit(c) ? c - '0' : (c >= 'a' ? c - 'a' + 10 : c - 'A' + 10);
    v = (v << 4) | x;
  }
  out = v;
  return true;
}

// chunk-ext = *( BWS ";" BWS chunk-ext-name [ BWS "=" BWS chunk-ext-val ] )
// chunk-ext-val = token / quoted-string
inline bool parseChunkExt(const std::string &s)
{
  size_t i = 0, n = s.size();
  auto bws = [&]()
  {
    while (i < n && isOws((unsigned char)s[i]))
      ++i;
  };
  while (i < n)
  {
    bws();
    if (i >= n || s[i] != ';')
      return false;
    ++i;
    bws();
    size_t a = i;
    while (i < n && isTchar((unsigned char)s[i]))
      ++i;
    if (i == a)
      return false;
    size_t save = i;
    bws();
    if (i < n && s[i] == '=')
    {
      ++i;
      bws();
      if (i < n && s[i] == '"')
      {
        ++i;
        bool closed = false;
        while (i < n)
        {
          unsigned char c = (unsigned char)s[i];
          if (c == '"')
          {
            closed = true;
            ++i;
            break;
          }
          if (c == '\\')
          {
            if (i + 1 >= n)
              return false;
            unsigned char e = (unsigned char)s[i + 1];
            if (!(isOws(e) || isFieldVchar(e)))
              return false;
            i += 2;
            continue;
          }
          if (!(isOws(c) || c == 0x21 || (c >= 0x23 && c <= 0x5b) || (c >= 0x5d && c <= 0x7e) || c >= 0x80))
            return false;
          ++i;
        }
        if (!closed)
          return false;
      }
      else
      {
        size_t b = i;
        while (i < n && isTchar((unsigned char)s[i]))
          ++i;
        if (i == b)
          return false;
      }
    }
    else
      i = save; // BWS belongs to the next extension (or is trailing garbage, rejected by the loop head)
  }
  return true;
}
} // namespace detail

// Frame the response to a `headRequest ? HEAD : GET` request from the complete byte `stream`
// followed by EOF.  `cap` = the client's configured limit on received bytes (a chunk-size or
// Content-Length beyond it can never be satisfied and counts as over-limit length information).
inline Result frameStrict(const std::string &s, bool headRequest, uint64_t cap)
{
  using namespace detail;
  Result r;
  auto verdict = [&](Verdict v, const std::string &why) -> Result &
  {
    r.verdict = v;
    r.why = why;
    return r;
  };
  size_t pos = 0;
  while (true)
  {
    // ---- status-line = HTTP-version SP status-code SP [ reason-phrase ] CRLF ----
    std::string line;
    size_t next = 0;
    size_t lineStart = pos;
    LineStatus ls = readLine(s, pos, line, next);
    if (ls == LineStatus::BareLf || ls == LineStatus::BareCr)
      return verdict(Verdict::DontCare, "syntax:status-line-terminator");
    if (ls == LineStatus::Partial)
      return verdict(Verdict::MustNotComplete, "truncated:status-line");
    r.regions.push_back({lineStart, next, "status-line"});
    if (line.size() < 13 || line.compare(0, 5, "HTTP/") != 0 || !isDigit((unsigned char)line[5]) || line[6] != '.' ||
        !isDigit((unsigned char)line[7]) || line[8] != ' ' || !isDigit((unsigned char)line[9]) ||
        !isDigit((unsigned char)line[10]) || !isDigit((unsigned char)line[11]) || line[12] != ' ')
      return verdict(Verdict::DontCare, "syntax:status-line");
    if (line[5] != '1')
      return verdict(Verdict::DontCare, "version:major");
    if (line[7] != '0' && line[7] != '1')
      return verdict(Verdict::DontCare, "version:minor"); // HTTP/1.2+ : a recipient may refuse what it does not implement
    Message m;
    m.minor = line[7] - '0';
    m.status = (line[9] - '0') * 100 + (line[10] - '0') * 10 + (line[11] - '0');
    m.reason = line.substr(13);
    for (unsigned char c : m.reason)
      if (!isFieldVchar(c) && !isOws(c))
        return verdict(Verdict::DontCare, "syntax:reason-phrase");
    if (m.status < 100 || m.status > 599)
      return verdict(Verdict::DontCare, "status:out-of-range");
    if (m.status == 101)
      return verdict(Verdict::DontCare, "status:101-switching-protocols");
    pos = next;

    // ---- *( field-line CRLF ) CRLF ----
    while (true)
    {
      size_t fs = pos;
      ls = readLine(s, pos, line, next);
      if (ls == LineStatus::BareLf || ls == LineStatus::BareCr)
        return verdict(Verdict::DontCare, "syntax:field-line-terminator");
      if (ls == LineStatus::Partial)
        return verdict(Verdict::MustNotComplete, "truncated:header-section");
      pos = next;
      if (line.empty())
      {
        r.regions.push_back({fs, next, "header-terminator"});
        break;
      }
      r.regions.push_back({fs, next, "field-line"});
      if (isOws((unsigned char)line[0]))
        return verdict(Verdict::DontCare, "syntax:obs-fold");
      Field f;
      if (!parseFieldLine(line, f))
        return verdict(Verdict::DontCare, "syntax:field-line");
      m.fields.push_back(f);
    }

    if (m.status < 200)
    {
      // Interim response (RFC 9110 15.2): never final, no content; the final response follows.
      ++r.interim;
      for (auto &f : m.fields)
      {
        std::string n = lower(f.name);
        if (n == "content-length" || n == "transfer-encoding")
          r.interimLengthFields = true;
      }
      for (auto &rg : r.regions)
        if (rg.begin >= lineStart && std::string(rg.name) != "interim")
          rg.name = "interim";
      continue;
    }
    r.msg = m;
    break;
  }

  // ---- message body length, RFC 9112 section 6.3 ----
  Message &m = r.msg;
  std::vector<std::string> clLines, teLines;
  for (auto &f : m.fields)
  {
    std::string n = lower(f.name);
    if (n == "content-length")
      clLines.push_back(f.value);
    else if (n == "transfer-encoding")
      teLines.push_back(f.value);
  }
  // Content-Length analysis (independent of rule order)
  enum
  {
    ClAbsent,
    ClSingle,   // exactly one field line holding 1*DIGIT that fits in 64 bits
    ClSameList, // several identical valid values (lines and/or list): recipient MAY accept or reject
    ClInvalid
  } clKind = ClAbsent;
  std::string clWhy;
  uint64_t clValue = 0;
  if (!clLines.empty())
  {
    std::vector<std::string> elems;
    bool emptyElem = false;
    for (auto &v : clLines)
      for (auto &e : splitList(v))
      {
        if (e.empty())
          emptyElem = true;
        else
          elems.push_back(e);
      }
    clKind = ClSingle;
    if (elems.empty())
    {
      clKind = ClInvalid;
      clWhy = "content-length:empty";
    }
    std::string first;
    for (auto &e : elems)
    {
      bool digits = true;
      for (unsigned char c : e)
        if (!isDigit(c))
          digits = false;
      if (!digits)
      {
        clKind = ClInvalid;
        clWhy = "content-length:non-numeric";
        break;
      }
      uint64_t v;
      if (!dec64(e, v))
      {
        clKind = ClInvalid;
        clWhy = "content-length:overflow";
        break;
      }
      if (first.empty())
      {
        first = stripZeros(e);
        clValue = v;
      }
      else if (stripZeros(e) != first)
      {
        clKind = ClInvalid;
        clWhy = "content-length:conflict";
        break;
      }
    }
    if (clKind != ClInvalid && (elems.size() > 1 || emptyElem || clLines.size() > 1))
      clKind = ClSameList;
  }
  // Transfer-Encoding analysis
  enum
  {
    TeAbsent,
    TeChunkedFinal, // token list whose last element is "chunked" and no other element is
    TeOtherFinal,   // token list, "chunked" absent or not last: close-delimited in a response
    TeOdd           // empty list, parameters, non-token elements, chunked applied twice
  } teKind = TeAbsent;
  if (!teLines.empty())
  {
    std::vector<std::string> codings;
    bool odd = false;
    for (auto &v : teLines)
      for (auto &e : splitList(v))
      {
        if (e.empty())
          continue; // empty list elements are ignored (RFC 9110 5.6.1.2) - but sender MUST NOT: odd
        if (!isToken(e))
          odd = true;
        codings.push_back(lower(e));
      }
    for (auto &v : teLines)
      for (auto &e : splitList(v))
        if (e.empty())
          odd = true;
    size_t nChunked = 0;
    for (auto &c : codings)
      if (c == "chunked")
        ++nChunked;
    if (odd || codings.empty() || nChunked > 1)
      teKind = TeOdd;
    else if (codings.back() == "chunked")
      teKind = TeChunkedFinal;
    else
      teKind = TeOtherFinal;
  }

  const size_t bodyStart = pos;
  const bool rule1 = headRequest || m.status == 204 || m.status == 304;
  if (rule1)
  {
    r.framing = "nobody";
    r.consumed = bodyStart;
    if (bodyStart < s.size())
      r.regions.push_back({bodyStart, s.size(), "surplus"});
    // Length fields on a bodiless response do not frame anything; if they are themselves invalid
    // a recipient may still refuse the message.
    if (clKind == ClInvalid || clKind == ClSameList || (clKind != ClAbsent && teKind != TeAbsent) || teKind == TeOdd ||
        (teKind != TeAbsent && m.minor == 0))
      return verdict(Verdict::Either, "ok:nobody-with-odd-length-fields");
    return verdict(Verdict::MustEqual, "ok");
  }
  if (teKind != TeAbsent && clKind != ClAbsent)
    return verdict(Verdict::MustNotComplete, "bad-length:content-length+transfer-encoding");
  if (teKind == TeOdd)
    return verdict(Verdict::DontCare, "syntax:transfer-encoding");
  if (teKind != TeAbsent && m.minor == 0)
    return verdict(Verdict::DontCare, "version:transfer-encoding-in-http/1.0"); // faulty framing per 6.1
  if (teKind == TeOtherFinal)
  {
    r.framing = "close-delimited";
    r.closeDelimited = true;
    m.body = s.substr(bodyStart);
    r.consumed = s.size();
    r.regions.push_back({bodyStart, s.size(), "body"});
    return verdict(Verdict::Either, "ok:non-chunked-final-coding");
  }
  if (teKind == TeChunkedFinal)
  {
    using detail::LineStatus;
    r.framing = "chunked";
    size_t p = bodyStart;
    while (true)
    {
      std::string line;
      size_t next = 0;
      LineStatus ls = readLine(s, p, line, next);
      if (ls == LineStatus::BareLf || ls == LineStatus::BareCr)
        return verdict(Verdict::DontCare, "syntax:chunk-size-line-terminator");
      if (ls == LineStatus::Partial)
        return verdict(Verdict::MustNotComplete, "truncated:chunk-size-line");
      r.regions.push_back({p, next, "chunk-size-line"});
      size_t h = 0;
      while (h < line.size() && isHex((unsigned char)line[h]))
        ++h;
      if (line.empty())
        return verdict(Verdict::DontCare, "syntax:empty-chunk-size-line");
      if (h == 0)
        return verdict(Verdict::MustNotComplete, "bad-length:chunk-size:non-numeric");
      if (h < line.size() && !(isOws((unsigned char)line[h]) || line[h] == ';'))
        return verdict(Verdict::MustNotComplete, "bad-length:chunk-size:non-numeric");
      uint64_t size = 0;
      bool fits = hex64(line.substr(0, h), size);
      if (!fits)
        return verdict(Verdict::MustNotComplete, "bad-length:chunk-size:overflow");
      if (!parseChunkExt(line.substr(h)))
        return verdict(Verdict::DontCare, "syntax:chunk-ext");
      p = next;
      if (size == 0)
        break;
      if (size > cap)
        return verdict(Verdict::MustNotComplete, "bad-length:chunk-size:over-cap");
      if (s.size() - p < size)
        return verdict(Verdict::MustNotComplete, "truncated:chunk-data");
      m.body.append(s, p, (size_t)size);
      r.regions.push_back({p, p + (size_t)size, "chunk-data"});
      p += (size_t)size;
      if (s.size() - p < 2)
      {
        if (s.size() - p == 1 && s[p] != '\r')
          return verdict(Verdict::DontCare, "syntax:chunk-data-terminator");
        return verdict(Verdict::MustNotComplete, "truncated:chunk-data-terminator");
      }
      if (s[p] != '\r' || s[p + 1] != '\n')
        return verdict(Verdict::DontCare, "syntax:chunk-data-terminator");
      r.regions.push_back({p, p + 2, "chunk-data-crlf"});
      p += 2;
    }
    // trailer-section = *( field-line CRLF ), then CRLF
    while (true)
    {
      std::string line;
      size_t next = 0;
      LineStatus ls = readLine(s, p, line, next);
      if (ls == LineStatus::BareLf || ls == LineStatus::BareCr)
        return verdict(Verdict::DontCare, "syntax:trailer-terminator");
      if (ls == LineStatus::Partial)
        return verdict(Verdict::MustNotComplete, "truncated:trailer-section");
      if (line.empty())
      {
        r.regions.push_back({p, next, "chunked-final-crlf"});
        p = next;
        break;
      }
      r.regions.push_back({p, next, "trailer-line"});
      p = next;
      if (isOws((unsigned char)line[0]))
        return verdict(Verdict::DontCare, "syntax:trailer-obs-fold");
      Field f;
      if (!parseFieldLine(line, f))
        return verdict(Verdict::DontCare, "syntax:trailer-line");
      m.trailers.push_back(f);
    }
    r.consumed = p;
    if (p < s.size())
      r.regions.push_back({p, s.size(), "surplus"});
    return verdict(Verdict::MustEqual, "ok");
  }
  if (clKind == ClInvalid)
    return verdict(Verdict::MustNotComplete, "bad-length:" + clWhy);
  if (clKind != ClAbsent)
  {
    r.framing = "content-length";
    if (clValue > cap)
      return verdict(Verdict::MustNotComplete, "bad-length:content-length:over-cap");
    if (s.size() - bodyStart < clValue)
    {
      if (bodyStart < s.size())
        r.regions.push_back({bodyStart, s.size(), "body"});
      return verdict(Verdict::MustNotComplete, "truncated:content-length-body");
    }
    m.body = s.substr(bodyStart, (size_t)clValue);
    r.consumed = bodyStart + (size_t)clValue;
    if (clValue)
      r.regions.push_back({bodyStart, r.consumed, "body"});
    if (r.consumed < s.size())
      r.regions.push_back({r.consumed, s.size(), "surplus"});
    return verdict(clKind == ClSingle ? Verdict::MustEqual : Verdict::Either, clKind == ClSingle ? "ok" : "ok:cl-list");
  }
  // rule 8: no length information: the body is everything up to connection close
  r.framing = "close-delimited";
  r.closeDelimited = true;
  m.body = s.substr(bodyStart);
  r.consumed = s.size();
  if (bodyStart < s.size())
    r.regions.push_back({bodyStart, s.size(), "body"});
  return verdict(Verdict::MustEqual, "ok");
}

inline Result frame(const std::string &s, bool headRequest, uint64_t cap)
{
  Result r = frameStrict(s, headRequest, cap);
  // Length fields on an interim response frame nothing (1xx never has content), but a recipient that
  // validates them anyway (and refuses e.g. two different Content-Length values) is within its rights.
  if (r.interimLengthFields && r.verdict == Verdict::MustEqual)
  {
    r.verdict = Verdict::Either;
    r.why = "ok:interim-with-length-fields";
  }
  return r;
}

inline const char *regionAt(const Result &r, size_t cut)
{
  // a cut at offset c separates byte c-1 from byte c; attribute it to the region holding byte c-1
  // unless c is exactly a region start, in which case name the boundary by the region that ends.
  for (auto &rg : r.regions)
    if (cut > rg.begin && cut <= rg.end)
      return rg.name;
  return "beyond";
}

} // namespace c15ref

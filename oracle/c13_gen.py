#!/usr/bin/env python3
"""Bounded-exhaustive case generator for C13.  Deterministic: no randomness, no clocks.

Writes a cases file consumed by harness/C13_json.cpp, one case per line, TAB separated:

  P <depthMax>,<arrayItemsMax>,<membersMax>,<stringLengthMax> <mut> <hex text> <reference response>
      parse case: text under the given ParseLimits; <reference response> is c13_ref.respond(text);
      <mut>=1: the harness additionally evaluates every truncation and every single-byte
      substitution (over the 16-byte robustness alphabet) of the text.
  D <value spec> <canonical value>
      dump case: the harness builds the value from the spec (same syntax as the canonical encoding
      except that doubles are always d<bits> and ints always i<dec>, i.e. the type is kept), then
      for each of the 4 serialisation option sets checks parse(dump(v)) == v and asks the reference
      to decode dump(v).

All texts are derived from a token grammar of RFC 8259 over the atom alphabets below; every
enumeration is complete inside its stated bound (see LAYERS in the summary written to stderr and
to <out>.summary.json).  The expected values come from CPython's json module (c13_ref.py), never
from the generator's own knowledge of the atoms.
"""
import argparse
import itertools
import json
import os
import struct
import sys

sys.path.insert(0, os.path.dirname(os.path.abspath(__file__)))
import c13_ref  # noqa: E402

DEFAULT_LIMITS = (100, 10000, 10000, 1000000)

# ------------------------------------------------------------------ atom alphabets
# String-body atoms (each is a valid fragment of a JSON string body), simplest first.
STR_ATOMS = [
    b'a', b' ', b'/', b'\x7f',
    b'\\"', b'\\\\', b'\\/', b'\\b', b'\\f', b'\\n', b'\\r', b'\\t',
    b'\\u0041', b'\\u0061', b'\\u00e9', b'\\u00E9', b'\\u20ac', b'\\u20AC', b'\\u0000', b'\\u001f', b'\\u007f',
    b'\\u0080', b'\\u07ff', b'\\u0800', b'\\uffff', b'\\uFFFF', b'\\ud7ff', b'\\ue000',
    b'\\u0022', b'\\u005c', b'\\u002f', b'\\u005C',
    b'\\ud83d\\ude00', b'\\uD83D\\uDE00', b'\\uD83d\\uDe00', b'\\ud800\\udc00', b'\\udbff\\udfff',
    '\u00e9'.encode(), '\u20ac'.encode(), '\U0001F600'.encode(),
    '\u0080'.encode(), '\u07ff'.encode(), '\u0800'.encode(), '\uffff'.encode(), '\U00010000'.encode(),
    '\U0010FFFF'.encode(),
    # RFC-grammar-valid but unpaired surrogates: the reference answers U (value not judged)
    b'\\ud83d', b'\\ude00', b'\\ud83d\\u0041',
]
# Medium / reduced subsets (indices chosen to keep one member of every class)
STR_ATOMS_MED = [b'a', b'\\"', b'\\\\', b'\\b', b'\\n', b'\\u0041', b'\\u00e9', b'\\u20AC', b'\\u0000',
                 b'\\ud83d\\ude00', '\u00e9'.encode(), '\u20ac'.encode(), '\U0001F600'.encode(), b'\\/', b'\\t', b'\\ud83d']

NUMBERS = [
    b'0', b'-0', b'1', b'-1', b'10', b'-10', b'123',
    b'9223372036854775807', b'9223372036854775808', b'-9223372036854775808', b'-9223372036854775809',
    b'18446744073709551616', b'100000000000000000000', b'123456789012345678901234567890', b'9007199254740993',
    b'1.5', b'-1.5', b'0.1', b'0.0', b'-0.0', b'1.0', b'0.000001', b'123456.789012345', b'0.30000000000000004',
    b'9007199254740993.0', b'1.000000000000000000000000001',
    b'1e-7', b'1E-7', b'1e+2', b'1E+2', b'1e2', b'1E2', b'0e0', b'1e0', b'1e00', b'1e-07', b'1.0e1', b'1.5e-3', b'-1.5E+3',
    b'1e400', b'-1e400', b'1e-400', b'1.7976931348623157e308', b'5e-324', b'2.2250738585072014e-308',
]
NUMBERS_MED = [b'0', b'-1', b'10', b'9223372036854775807', b'9223372036854775808', b'1.5', b'1e-7', b'1E+2', b'0.1',
               b'-0', b'123456.789012345', b'1e400']
LITERALS = [b'true', b'false', b'null']

WS = [b' ', b'\t', b'\n', b'\r', b'\r\n', b' \t\n\r ']


def jstr(body):
    return b'"' + body + b'"'


# ------------------------------------------------------------------ token grammar
def texts_by_tokens(scalars, keys, max_tokens):
    """val[n] = all RFC 8259 values (as token tuples) with exactly n tokens, n = 1..max_tokens.
    Tokens: a scalar or a member name = 1 token, each of { } [ ] , : = 1 token."""
    val, elems, members = {}, {}, {}
    for n in range(1, max_tokens + 1):
        v = []
        if n == 1:
            v.extend((s,) for s in scalars)
        if n == 2:
            v.append((b'[', b']'))
            v.append((b'{', b'}'))
        if n >= 3:
            for body in elems.get(n - 2, []):
                v.append((b'[',) + body + (b']',))
            for body in members.get(n - 2, []):
                v.append((b'{',) + body + (b'}',))
        val[n] = v
        # non-empty element lists with exactly n tokens
        e = list(v)
        for first in range(1, n - 1):
            rest = n - first - 1
            for a in val[first]:
                for b in elems.get(rest, []):
                    e.append(a + (b',',) + b)
        elems[n] = e
        # non-empty member lists with exactly n tokens
        m = []
        if n >= 3:
            for k in keys:
                for x in val[n - 2]:
                    m.append((k, b':') + x)
        for first in range(3, n - 3):
            rest = n - first - 1
            for k in keys:
                for x in val[first - 2]:
                    head = (k, b':') + x
                    for b in members.get(rest, []):
                        m.append(head + (b',',) + b)
        members[n] = m
    return val


class Out:
    def __init__(self, path):
        self.f = open(path, 'w')
        self.seen = set()
        self.counts = {}
        self.layer_counts = {}
        self.dups = 0

    def parse_case(self, layer, text, limits=DEFAULT_LIMITS, mut=True):
        key = (b'P', limits, text)
        if key in self.seen:
            self.dups += 1
            return
        self.seen.add(key)
        resp = c13_ref.respond(text)
        self.f.write('P\t%d,%d,%d,%d\t%d\t%s\t%s\n' % (limits + (1 if mut else 0, text.hex(), resp)))
        self.layer_counts[layer] = self.layer_counts.get(layer, 0) + 1
        self.counts['P_' + resp[0]] = self.counts.get('P_' + resp[0], 0) + 1

    def dump_case(self, layer, spec, canon):
        key = (b'D', spec)
        if key in self.seen:
            self.dups += 1
            return
        self.seen.add(key)
        self.f.write('D\t%s\t%s\n' % (spec, canon))
        self.layer_counts[layer] = self.layer_counts.get(layer, 0) + 1
        self.counts['D'] = self.counts.get('D', 0) + 1


def strings_up_to(atoms, k):
    yield b''
    for n in range(1, k + 1):
        for combo in itertools.product(atoms, repeat=n):
            yield b''.join(combo)


# ------------------------------------------------------------------ part (i): texts
def gen_texts(out, thorough):
    # L1: every string of <= 2 atoms (full alphabet) in 4 contexts; thorough adds <= 3 atoms over the
    #     medium alphabet in all contexts and 3 full-alphabet atoms top-level.
    for body in strings_up_to(STR_ATOMS, 2):
        s = jstr(body)
        out.parse_case('L1-strings', s)
        out.parse_case('L1-strings', b'[' + s + b']')
        out.parse_case('L1-strings', b'{"k":' + s + b'}')
        out.parse_case('L1-strings', b'{' + s + b':0}')
    for body in strings_up_to(STR_ATOMS_MED, 3):
        s = jstr(body)
        out.parse_case('L1-strings', s)
        if thorough:
            out.parse_case('L1-strings', b'[' + s + b']')
            out.parse_case('L1-strings', b'{' + s + b':0}')
    if thorough:
        for body in strings_up_to(STR_ATOMS, 3):
            out.parse_case('L1-strings', jstr(body))
    for n in NUMBERS + LITERALS:
        out.parse_case('L1-numbers', n)
        out.parse_case('L1-numbers', b'[' + n + b']')
        out.parse_case('L1-numbers', b'{"k":' + n + b'}')
        out.parse_case('L1-numbers', b'[' + n + b',' + n + b']')
        out.parse_case('L1-numbers', b' ' + n + b' ')

    # L2: full single-atom scalar alphabet, all derivations with <= 5 tokens (quick) / medium alphabet <= 7 (thorough)
    full_scalars = [jstr(b'')] + [jstr(a) for a in STR_ATOMS] + NUMBERS + LITERALS
    full_keys = [jstr(b'')] + [jstr(a) for a in STR_ATOMS]
    nfull = 6 if thorough else 5
    val = texts_by_tokens(full_scalars, full_keys, nfull)
    for n in range(1, nfull + 1):
        for toks in val[n]:
            out.parse_case('L2-full<=%dtok' % nfull, b''.join(toks))
    med_scalars = [jstr(b'')] + [jstr(a) for a in STR_ATOMS_MED] + NUMBERS_MED + LITERALS
    med_keys = [jstr(b''), jstr(b'a'), jstr(b'\\u0061'), jstr(b'\\n'), jstr('\u00e9'.encode()), jstr(b'\\u00e9')]
    nmed = 7
    val = texts_by_tokens(med_scalars, med_keys, nmed)
    for n in range(1, nmed + 1):
        for toks in val[n]:
            # 7-token texts over the medium alphabet are 30k+ in quick: keep them, they are cheap
            out.parse_case('L2-medium<=7tok', b''.join(toks), mut=thorough or n <= 5)

    # L3: reduced alphabet, deeper derivations (duplicate names, nesting, mixed containers)
    red_scalars = [b'0', b'1.5', jstr(b'a'), jstr(b'\\u0061'), b'true']
    red_keys = [jstr(b'a'), jstr(b'\\u0061'), jstr(b'b')]
    nred = 11 if thorough else 9
    val3 = texts_by_tokens(red_scalars, red_keys, nred)
    for n in range(1, nred + 1):
        for toks in val3[n]:
            out.parse_case('L3-reduced<=%dtok' % nred, b''.join(toks), mut=(n <= 9))

    # L4: whitespace variants: every gap (incl. leading / trailing) x every ws form, and all gaps at once
    nws = 7
    for n in range(1, nws + 1):
        for toks in val3[n]:
            for w in WS:
                for g in range(len(toks) + 1):
                    out.parse_case('L4-whitespace', b''.join(toks[:g]) + w + b''.join(toks[g:]), mut=thorough)
                out.parse_case('L4-whitespace', w + w.join(toks) + w, mut=(thorough or n <= 5))

    # L5: limits.  (a) every reduced text with <= 9 tokens under every single small limit
    small = []
    for v in (0, 1, 2):
        small.append((v,) + DEFAULT_LIMITS[1:])
        small.append(DEFAULT_LIMITS[:1] + (v,) + DEFAULT_LIMITS[2:])
        small.append(DEFAULT_LIMITS[:2] + (v,) + DEFAULT_LIMITS[3:])
        small.append(DEFAULT_LIMITS[:3] + (v,))
    small.append((1, 1, 1, 1))
    small.append((2, 2, 2, 2))
    for n in range(1, 10):
        for toks in val3[n]:
            t = b''.join(toks)
            for lim in small:
                out.parse_case('L5a-reduced-x-small-limits', t, lim, mut=False)
    # (b) directed families at limit-1, limit, limit+1, limit+2
    inner = [b'', b'0', b'[]', b'{}', jstr(b'a')]
    for dmax in (0, 1, 2, 3, 4, 100):
        lim = (dmax,) + DEFAULT_LIMITS[1:]
        for depth in range(max(0, dmax - 1), dmax + 3):
            shapes = []
            if depth <= 6:
                shapes = list(itertools.product('ao', repeat=depth))
            else:
                shapes = ['a' * depth, 'o' * depth, ('ao' * depth)[:depth], ('oa' * depth)[:depth]]
            for sh in shapes:
                for core in inner:
                    if core == b'' and depth == 0:
                        continue
                    pre = b''.join(b'[' if c == 'a' else b'{"k":' for c in sh)
                    post = b''.join(b']' if c == 'a' else b'}' for c in reversed(sh))
                    if core == b'' and sh and sh[-1] == 'o':
                        # innermost empty object written as {} : drop the '"k":' of the last level
                        pre = pre[:-len(b'"k":')]
                    out.parse_case('L5b-depth', pre + core + post, lim, mut=thorough)
    elems = [b'0', jstr(b'a'), b'[]', b'null']
    for amax in (0, 1, 2, 3, 4):
        lim = DEFAULT_LIMITS[:1] + (amax,) + DEFAULT_LIMITS[2:]
        for n in range(0, amax + 3):
            for combo in itertools.product(elems, repeat=n) if n <= 4 else [(e,) * n for e in elems]:
                arr = b'[' + b','.join(combo) + b']'
                out.parse_case('L5b-array-items', arr, lim, mut=thorough)
                out.parse_case('L5b-array-items', b'[' + arr + b']', lim, mut=thorough)
                out.parse_case('L5b-array-items', b'{"k":' + arr + b'}', lim, mut=thorough)
    knames = [b'a', b'b', b'c', b'd', b'e', b'f', b'g']
    for mmax in (0, 1, 2, 3, 4):
        lim = DEFAULT_LIMITS[:2] + (mmax,) + DEFAULT_LIMITS[3:]
        for n in range(0, mmax + 3):
            # all name sequences over the first n names (so duplicates in every pattern) for n <= 4
            seqs = itertools.product(knames[:n], repeat=n) if n <= 4 else [tuple(knames[:n]), tuple(knames[:n - 1]) + (b'a',)]
            for seq in seqs:
                obj = b'{' + b','.join(jstr(k) + b':0' for k in seq) + b'}'
                out.parse_case('L5b-members', obj, lim, mut=thorough)
                out.parse_case('L5b-members', b'[' + obj + b']', lim, mut=thorough)
    latoms = [b'a', b'\\n', b'\\u0041', b'\\u00e9', '\u00e9'.encode(), b'\\u20ac', '\U0001F600'.encode(), b'\\ud83d\\ude00']
    for smax in (0, 1, 2, 3, 4, 5):
        lim = DEFAULT_LIMITS[:3] + (smax,)
        for k in range(0, 5):
            for combo in itertools.product(latoms, repeat=k):
                s = jstr(b''.join(combo))
                out.parse_case('L5b-string-length', s, lim, mut=thorough)
                out.parse_case('L5b-string-length', b'{' + s + b':0}', lim, mut=thorough)
        for k in range(5, smax + 3):
            s = jstr(b'a' * k)
            out.parse_case('L5b-string-length', s, lim, mut=thorough)
            out.parse_case('L5b-string-length', b'[' + s + b']', lim, mut=thorough)
            out.parse_case('L5b-string-length', b'{' + s + b':0}', lim, mut=thorough)
    # (c) default limits: depth and array items
    for depth in (99, 100, 101, 102):
        for core in (b'', b'0'):
            out.parse_case('L5c-default-limits', b'[' * depth + core + b']' * depth, DEFAULT_LIMITS, mut=False)
            out.parse_case('L5c-default-limits', b'{"k":' * (depth - 1) + (b'{"k":' + core + b'}' if core else b'{}') + b'}' * (depth - 1),
                           DEFAULT_LIMITS, mut=False)
    for n in (9999, 10000, 10001, 10002):
        out.parse_case('L5c-default-limits', b'[' + b','.join([b'0'] * n) + b']', DEFAULT_LIMITS, mut=False)


# ------------------------------------------------------------------ part (ii): values
def dbits(x):
    return 'd' + struct.pack('>d', x).hex()


def spec_str(b):
    return 's' + b.hex()


def gen_values(out, thorough):
    # scalar alphabets: the *decoded* atoms of part (i) (reference-decoded), plus control characters
    strs = []
    for a in STR_ATOMS:
        r = c13_ref.respond(jstr(a))
        if r.startswith('V '):
            b = bytes.fromhex(r.split(' ')[1][1:])
            if b not in strs:
                strs.append(b)
    for extra in (b'', b'\x01', b'\x1f', b'\x0b', b'ab', b'"\\', b'a\x00b', '\u00e9\u20ac'.encode(), b'\\u0041', b'</script>'):
        if extra not in strs:
            strs.append(extra)
    for a in strs:
        a.decode('utf-8', 'strict')  # all value strings are valid UTF-8 (property precondition)
    ints = [0, 1, -1, 10, 123, (1 << 63) - 1, -(1 << 63), (1 << 53) + 1]
    doubles = [0.0, -0.0, 1.0, 1.5, -1.5, 100.0, 0.1, 0.000001, 1.5e-6, 1e-7, 123456.789012345, 0.30000000000000004,
               1.0 / 3.0, 9.223372036854775808e18, 1e21, 1e22, 1e300, 1.7976931348623157e308, 5e-324,
               2.2250738585072014e-308, 123456789.125, 0.5, 1e15 + 0.5, 4.35, 2.5e-5]
    scal = ['n', 't', 'f'] + ['i%d' % i for i in ints] + [dbits(d) for d in doubles] + [spec_str(s) for s in strs]
    keys = [spec_str(s) for s in strs]

    def canon_of(spec):
        # canonical value of a spec, computed from the spec alone (numeric normalisation, name sort)
        v, rest = parse_spec(spec)
        assert rest == ''
        return c13_ref.canon(v)

    def emit(layer, spec):
        out.dump_case(layer, spec, canon_of(spec))

    # V1: full alphabets, <= 2 nodes, and 3 nodes over full x medium
    for s in scal:
        emit('V1-full<=3nodes', s)
    emit('V1-full<=3nodes', 'a()')
    emit('V1-full<=3nodes', 'o()')
    for s in scal:
        emit('V1-full<=3nodes', 'a(%s)' % s)
        emit('V1-full<=3nodes', 'a(a(%s))' % s)
        emit('V1-full<=3nodes', 'o(%s a(%s))' % (keys[0], s))
    for k in keys:
        emit('V1-full<=3nodes', 'o(%s n)' % k)
        emit('V1-full<=3nodes', 'a(o(%s n))' % k)
    med = ['n', 't', 'i0', 'i-1', dbits(1.5), dbits(1e-7), dbits(100.0), dbits(123456.789012345), spec_str(b'a'), spec_str(b'"'),
           spec_str(b'\n'), spec_str(b'\x01'), spec_str('\u00e9'.encode()), spec_str('\U0001F600'.encode()), spec_str(b'')]
    medk = [spec_str(b'a'), spec_str(b'b'), spec_str(b''), spec_str(b'\n'), spec_str('\u00e9'.encode()), spec_str(b'\x01'), spec_str(b'"')]
    for s in scal:
        for m in med:
            emit('V1-full<=3nodes', 'a(%s %s)' % (s, m))
            emit('V1-full<=3nodes', 'a(%s %s)' % (m, s))
        for k in medk:
            emit('V1-full<=3nodes', 'o(%s %s)' % (k, s))
    for k1 in keys:
        for k2 in medk:
            if k1 != k2:
                emit('V1-full<=3nodes', 'o(%s i0 %s i1)' % (k1, k2))

    # V2: reduced alphabet, all values with <= nodes_max nodes (a node = scalar or container; names are free)
    red = ['n', 'i0', dbits(1.5), dbits(1e-7), spec_str(b'a'), spec_str(b'\x01')]
    redk = [spec_str(b'a'), spec_str(b'b'), spec_str(b'\n')]
    nodes_max = 6 if thorough else 5
    vals = {0: []}
    lists = {0: [()]}     # sequences of values with total node count n
    for n in range(1, nodes_max + 1):
        v = []
        if n == 1:
            v.extend(red)
            v.append('a()')
            v.append('o()')
        else:
            for seq in lists[n - 1]:
                if not seq:
                    continue
                v.append('a(' + ' '.join(seq) + ')')
                # objects: distinct names in increasing order of redk index (order is irrelevant in a value)
                if len(seq) <= len(redk):
                    for ks in itertools.combinations(redk, len(seq)):
                        v.append('o(' + ' '.join(k + ' ' + x for k, x in zip(ks, seq)) + ')')
        vals[n] = v
        ls = []
        for first in range(1, n + 1):
            for a in vals[first]:
                for rest in lists[n - first]:
                    ls.append((a,) + rest)
        lists[n] = ls
    for n in range(1, nodes_max + 1):
        for spec in vals[n]:
            emit('V2-reduced<=%dnodes' % nodes_max, spec)


def parse_spec(s):
    """spec -> (python value, rest).  Objects become dicts (names are distinct by construction)."""
    c = s[0]
    if c == 'n':
        return None, s[1:]
    if c == 't':
        return True, s[1:]
    if c == 'f':
        return False, s[1:]
    if c in 'ids':
        j = 1
        while j < len(s) and s[j] not in ' )':
            j += 1
        body = s[1:j]
        if c == 'i':
            return int(body), s[j:]
        if c == 'd':
            return struct.unpack('>d', bytes.fromhex(body))[0], s[j:]
        return bytes.fromhex(body).decode('utf-8'), s[j:]
    if c in 'ao':
        assert s[1] == '('
        rest = s[2:]
        items = []
        while rest[0] != ')':
            if rest[0] == ' ':
                rest = rest[1:]
                continue
            v, rest = parse_spec(rest)
            items.append(v)
        rest = rest[1:]
        if c == 'a':
            return items, rest
        d = c13_ref.Pairs()
        for i in range(0, len(items), 2):
            d.append((items[i], items[i + 1]))
        return d, rest
    raise ValueError(s)


def main():
    ap = argparse.ArgumentParser()
    ap.add_argument('--tier', default='quick')
    ap.add_argument('--out', required=True)
    a = ap.parse_args()
    thorough = a.tier == 'thorough'
    sys.setrecursionlimit(20000)
    os.makedirs(os.path.dirname(os.path.abspath(a.out)), exist_ok=True)
    out = Out(a.out + '.tmp')
    gen_texts(out, thorough)
    gen_values(out, thorough)
    out.f.close()
    os.replace(a.out + '.tmp', a.out)
    summary = {'tier': a.tier, 'layers': out.layer_counts, 'counts': out.counts, 'duplicates_dropped': out.dups}
    json.dump(summary, open(a.out + '.summary.json', 'w'), indent=1)
    sys.stderr.write('c13_gen: %s\n' % json.dumps(summary))


if __name__ == '__main__':
    main()

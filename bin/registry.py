"""Registry of checks: property id -> harness parts, build flavours, tier arguments.

Every part is a C++ harness under /verif/harness that includes /repo/include headers directly
(iora is header-only), so building a part == rebuilding from /repo's current working tree.
"""
import os

REPO = os.environ.get('VERIF_REPO', '/repo')

_COMMON = ['-std=c++17', '-g', '-fno-omit-frame-pointer', '-pthread', '-Wno-deprecated-declarations']
FLAVOURS = {
    # sequential harnesses
    'plain': {'cxx': _COMMON + ['-O1']},
    'asan': {'cxx': _COMMON + ['-O1', '-fsanitize=address,undefined', '-fno-sanitize-recover=undefined'],
             'ld': ['-fsanitize=address,undefined']},
}

CHECKS = {}


def _load():
    import glob, json
    d = os.path.join(os.path.dirname(os.path.dirname(os.path.abspath(__file__))), 'checks')
    for f in sorted(glob.glob(os.path.join(d, 'C*.json'))):
        c = json.load(open(f))
        CHECKS[c['property_id']] = c


_load()

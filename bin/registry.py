"""Registry of checks: property id -> harness parts, build flavours, tier arguments.

Every part is a C++ harness under /verif/harness that includes /repo/include headers directly
(iora is header-only), so building a part == rebuilding from /repo's current working tree.
"""
import os

REPO = os.environ.get('VERIF_REPO', '/repo')

_COMMON = ['-std=c++17', '-g', '-fno-omit-frame-pointer', '-pthread', '-Wno-deprecated-declarations']
FLAVOURS = {
    # sequential harnesses
    'plain': {'cxx': _COMMON + ['-O1']},
    'asan': {'cxx': _COMMON + ['-O1', '-fsanitize=address,undefined', '-fno-sanitize-recover=undefined'],
             'ld': ['-fsanitize=address,undefined']},
    # concurrent harnesses: scheduler runtime (rt/mc.cpp etc., uninstrumented) + harness TU
    'mc_asan': {'cxx': _COMMON + ['-O1', '-fsanitize=address', '-fno-access-control'],
                'ld': ['-fsanitize=address', '-ldl', '-Wl,-z,now']},
    'mc_plain': {'cxx': _COMMON + ['-O1', '-fno-access-control'], 'ld': ['-ldl', '-Wl,-z,now']},
    # TSan-ABI instrumentation (atomics + memory accesses call into rt/tsan_shim.cpp, NOT libtsan)
    'mc_tsan': {'cxx': _COMMON + ['-O1', '-fsanitize=thread', '--param', 'tsan-instrument-func-entry-exit=0', '-fno-access-control'],
                'ld': ['-ldl', '-Wl,-z,now']},
}

CHECKS = {}


def _load():
    import glob, json
    d = os.path.join(os.path.dirname(os.path.dirname(os.path.abspath(__file__))), 'checks')
    for f in sorted(glob.glob(os.path.join(d, 'C*.json'))):
        c = json.load(open(f))
        pid = c['property_id']
        if pid in CHECKS:  # several files may contribute parts to one property (C15.server.json, C15.client.json)
            CHECKS[pid]['parts'].extend(c.get('parts', []))
            CHECKS[pid].setdefault('assumptions', []).extend(c.get('assumptions', []))
            for t, v in c.get('deadline', {}).items():
                CHECKS[pid].setdefault('deadline', {})[t] = max(CHECKS[pid].get('deadline', {}).get(t, 0), v)
        else:
            CHECKS[pid] = c


_load()

// T-flavour only: std::thread::join()/detach() live in libstdc++.so, which is not instrumented, so
// their write to the std::thread object (the id is reset) would be invisible to the race detector.
// Defining the two members in the (instrumented) harness executable takes precedence at link time;
// the bodies are the libstdc++ ones.
#pragma once
#include <pthread.h>
#include <system_error>
#include <thread>

void std::thread::join()
{
  int e = EINVAL;
  if (_M_id != id())
    e = pthread_join(_M_id._M_thread, nullptr);
  if (e)
    std::__throw_system_error(e);
  _M_id = id();
}

void std::thread::detach()
{
  int e = EINVAL;
  if (_M_id != id())
    e = pthread_detach(_M_id._M_thread);
  if (e)
    std::__throw_system_error(e);
  _M_id = id();
}

// mcsched: deterministic cooperative scheduler + stateless deviation-bounded explorer over the
// *real* code.  See DESIGN.md §2.1–2.4.  The runtime (mc.cpp, hooks.cpp, simk.cpp) is compiled
// without sanitizer instrumentation and linked into each concurrent harness; it interposes
// pthread / futex / clock / sleep (and, with simk, epoll / eventfd / timerfd / sockets) at link
// time from the executable.
#pragma once
#include <cstddef>
#include <cstdint>
#include <functional>
#include <string>
#include <vector>

// ---- cost classes of a choice alternative -------------------------------------------------
enum McCost
{
  MC_FREE = 0,    // no deviation (default continuation, or a switch forced by blocking)
  MC_PREEMPT = 1, // switch away from a thread that could have continued
  MC_TIMER = 2,   // a timed wait / sleep expires although other threads are enabled
  MC_ENV = 3,     // a non-default environment answer (short write, EAGAIN, spurious wake, ...)
  MC_SWITCH = 4,  // non-default successor when the running thread blocked/finished (only charged if bounds.S >= 0)
};

struct McBounds
{
  int P = 0, T = 0, E = 0; // per-class deviation caps
  int S = -1;              // cap on non-default successors at blocking points; -1 = unbounded (free, CHESS-style)
  int total = -1;          // cap on the sum (-1: P+T+E(+S))
};

struct McScenario
{
  std::string name;
  std::function<void()> body; // runs as scheduler thread 0 inside a forked child
  McBounds quick, thorough;
  double horizon_s = 3600;    // virtual-time horizon
  double exec_timeout_s = 20; // real-time watchdog per execution
  bool point_before_unlock = false;
  bool spurious_wakeups = false; // offer spurious cond wake-ups as MC_ENV deviations
  uint64_t max_executions = 0;   // 0 = unlimited (a cap makes the run non-exhaustive)
  double weight = 1;             // share of the remaining wall-clock budget relative to the other scenarios
};

// Entry point of a concurrent harness:  parses --tier/--out/--jobs/--deadline/--replay/--only.
int mc_main(int argc, char **argv, const char *part, const std::vector<McScenario> &scenarios);

// ---- API usable inside a scenario body (all are no-ops / pass-through outside an execution) ----
// Environment choice with n alternatives (0 = default).  cost is the class charged for any
// alternative other than 0.
int mc_choose(int n, McCost cost = MC_ENV);
// Record an observation (part of the execution's outcome; also used for the replay-twice rule).
void mc_obs(const char *fmt, ...) __attribute__((format(printf, 1, 2)));
// Report a violation of oracle clause `clause` (ends the execution).
[[noreturn]] void mc_violation(const char *clause, const std::string &sig, const std::string &detail);
// Convenience: if(!cond) mc_violation(...)
inline void mc_check(bool cond, const char *clause, const std::string &sig, const std::string &detail)
{
  if (!cond)
    mc_violation(clause, sig, detail);
}
// Name the calling thread / describe what it is about to do (used in deadlock signatures).
void mc_label(const char *label);
// Mix a harness-level state digest into the state hash taken at scheduling points.
void mc_state_mix(uint64_t h);
// Sync objects that should not be scheduling points (leaf locks irrelevant to the property).
void mc_ignore_sync(const void *obj);
// Mark the calling thread as a daemon: it need not finish for the execution to be complete.
void mc_daemon();
// Virtual clocks.
uint64_t mc_now_ns();      // CLOCK_MONOTONIC
uint64_t mc_wall_ns();     // CLOCK_REALTIME
void mc_advance_wall(int64_t delta_ns); // jump the wall clock only
// Let background threads run until nothing is enabled; if advance_ns>0 first advance virtual
// time by that amount in deadline order (timers that expire on the way fire in order).
void mc_quiesce(uint64_t advance_ns = 0);
// Virtual time that elapsed through timer *deviations* (a timed wait fired while other threads were
// runnable, i.e. those threads were slow): not attributable to the code under test.
uint64_t mc_deviation_ns();
// Round every sleep (nanosleep family) UP to a multiple of ns: legal oversleeping that removes value
// nondeterminism the harness does not own (e.g. random back-off jitter drawn with RDRAND).
void mc_set_sleep_quantum(uint64_t ns);
// Current scheduling step (monotonic counter of executed operations): usable as a timestamp.
uint64_t mc_step();
// True while inside a scheduled execution.
bool mc_active();
// Thread id of the calling scheduler thread (0 = scenario body).
int mc_tid();
// Explicit scheduling point (used by harness-level instrumentation).
void mc_yield_point(const char *what);

// mcsched runtime: scheduler, pthread/futex/time hooks, explorer.  Compiled WITHOUT sanitizer
// instrumentation.  See mc.h and DESIGN.md §2.
#ifndef _GNU_SOURCE
#define _GNU_SOURCE
#endif
#include "mc.h"
#include "mc_internal.h"
#include "report.hpp"

// optional race detector (rt/tsan_shim.cpp); absent in A-flavour harnesses
void tsanshim_acquire(const void *obj) __attribute__((weak));
void tsanshim_release(const void *obj) __attribute__((weak));
void tsanshim_thread_create(int parent, int child) __attribute__((weak));
void tsanshim_thread_join(int joiner, int child) __attribute__((weak));
#define HB_ACQ(o) do { if (tsanshim_acquire) tsanshim_acquire(o); } while (0)
#define HB_REL(o) do { if (tsanshim_release) tsanshim_release(o); } while (0)

#include <algorithm>
#include <cerrno>
#include <climits>
#include <csignal>
#include <cstdarg>
#include <cstdio>
#include <cstdlib>
#include <cstring>
#include <dlfcn.h>
#include <link.h>
#include <fcntl.h>
#include <linux/futex.h>
#include <map>
#include <new>
#include <pthread.h>
#include <sched.h>
#include <set>
#include <sys/mman.h>
#include <sys/prctl.h>
#include <sys/syscall.h>
#include <sys/time.h>
#include <sys/wait.h>
#include <time.h>
#include <unistd.h>

// =====================================================================================
// raw syscalls (never go through the interposed wrappers)
// =====================================================================================
static inline long raw_syscall6(long n, long a, long b, long c, long d, long e, long f)
{
  long ret;
  register long r10 __asm__("r10") = d;
  register long r8 __asm__("r8") = e;
  register long r9 __asm__("r9") = f;
  __asm__ volatile("syscall" : "=a"(ret) : "a"(n), "D"(a), "S"(b), "d"(c), "r"(r10), "r"(r8), "r"(r9) : "rcx", "r11", "memory");
  return ret;
}
static inline void raw_futex_wait(volatile int *addr, int val) { raw_syscall6(SYS_futex, (long)addr, FUTEX_WAIT, val, 0, 0, 0); }
static inline void raw_futex_wake(volatile int *addr) { raw_syscall6(SYS_futex, (long)addr, FUTEX_WAKE, INT_MAX, 0, 0, 0); }
static double real_now_s()
{
  struct timespec ts;
  raw_syscall6(SYS_clock_gettime, CLOCK_MONOTONIC, (long)&ts, 0, 0, 0, 0);
  return ts.tv_sec + ts.tv_nsec * 1e-9;
}

// =====================================================================================
// real functions
// =====================================================================================
#define REAL(name) real_##name
#define DECL_REAL(ret, name, ...)        \
  typedef ret (*name##_fn)(__VA_ARGS__); \
  static name##_fn real_##name = nullptr;
#define LOAD_REAL(name)                                  \
  do                                                     \
  {                                                      \
    if (!real_##name)                                    \
      real_##name = (name##_fn)dlsym(RTLD_NEXT, #name);  \
  } while (0)

DECL_REAL(int, pthread_mutex_trylock, pthread_mutex_t *)
DECL_REAL(int, pthread_mutex_lock, pthread_mutex_t *)
DECL_REAL(int, pthread_mutex_unlock, pthread_mutex_t *)
static __thread int tl_resolving = 0;
DECL_REAL(int, pthread_create, pthread_t *, const pthread_attr_t *, void *(*)(void *), void *)
DECL_REAL(int, pthread_join, pthread_t, void **)
DECL_REAL(int, pthread_cond_wait, pthread_cond_t *, pthread_mutex_t *)
DECL_REAL(int, pthread_cond_timedwait, pthread_cond_t *, pthread_mutex_t *, const struct timespec *)
DECL_REAL(int, pthread_cond_clockwait, pthread_cond_t *, pthread_mutex_t *, clockid_t, const struct timespec *)
DECL_REAL(int, pthread_cond_signal, pthread_cond_t *)
DECL_REAL(int, pthread_cond_broadcast, pthread_cond_t *)
DECL_REAL(int, pthread_once, pthread_once_t *, void (*)(void))
DECL_REAL(int, pthread_rwlock_rdlock, pthread_rwlock_t *)
DECL_REAL(int, pthread_rwlock_wrlock, pthread_rwlock_t *)
DECL_REAL(int, pthread_rwlock_tryrdlock, pthread_rwlock_t *)
DECL_REAL(int, pthread_rwlock_trywrlock, pthread_rwlock_t *)
DECL_REAL(int, pthread_rwlock_unlock, pthread_rwlock_t *)
DECL_REAL(int, nanosleep, const struct timespec *, struct timespec *)
DECL_REAL(int, clock_nanosleep, clockid_t, int, const struct timespec *, struct timespec *)
DECL_REAL(int, usleep, useconds_t)
DECL_REAL(unsigned, sleep, unsigned)
DECL_REAL(int, sched_yield, void)
DECL_REAL(int, clock_gettime, clockid_t, struct timespec *)
DECL_REAL(int, gettimeofday, struct timeval *, void *)
DECL_REAL(time_t, time, time_t *)

// =====================================================================================
// shared-memory structures (coordinator / workers / execution children)
// =====================================================================================
extern "C" int __asan_address_is_poisoned(void const volatile *addr) __attribute__((weak));
namespace
{
constexpr int MAXT = 32;
constexpr int MAXOPT = 20;
constexpr int MAXPOINTS = 1 << 16;
constexpr int MAXDEV = 100;

struct TracePoint
{
  uint8_t n, chosen, kind, tid;
  uint8_t cost[MAXOPT];
};

struct Prefix
{
  uint16_t n;
  uint8_t cost[5]; // used per class
  uint64_t hashAtLast;
  struct
  {
    uint32_t idx;
    uint8_t alt;
  } dev[MAXDEV];
  int total() const { return cost[1] + cost[2] + cost[3] + cost[4]; }
};

enum ExecStatus
{
  ES_RUNNING = 0,
  ES_OK = 1,
  ES_VIOLATION = 2,
  ES_NONDET = 4,
  ES_INTERNAL = 5,
};

struct ExecShared
{
  volatile int status;
  char clause[64], sig[512], detail[4096];
  uint64_t obsHash;
  uint32_t npoints;
  uint64_t steps;
  uint64_t endNs;
  uint32_t truncatedOptions;
  uint32_t pointOverflow;
  uint32_t unmanagedOps;
  uint32_t obsLen;
  char obs[1 << 17];
  TracePoint pts[MAXPOINTS];
  uint64_t roll[MAXPOINTS];
};

struct HashSet
{ // lock-free insert-only set of non-zero 64-bit hashes in shared memory
  uint64_t *tab = nullptr;
  size_t cap = 0;
  volatile uint64_t *count = nullptr;
  void init(size_t capPow2)
  {
    cap = capPow2;
    tab = (uint64_t *)mmap(nullptr, cap * 8 + 64, PROT_READ | PROT_WRITE, MAP_SHARED | MAP_ANONYMOUS | MAP_NORESERVE, -1, 0);
    count = (volatile uint64_t *)(tab + cap);
  }
  void insert(uint64_t h)
  {
    if (!tab)
      return;
    if (h == 0)
      h = 1;
    if (*count > cap / 2)
      return; // saturated: counts become a lower bound (reported)
    size_t i = (h * 0x9E3779B97F4A7C15ull) & (cap - 1);
    for (;;)
    {
      uint64_t cur = __atomic_load_n(&tab[i], __ATOMIC_RELAXED);
      if (cur == h)
        return;
      if (cur == 0)
      {
        uint64_t exp = 0;
        if (__atomic_compare_exchange_n(&tab[i], &exp, h, false, __ATOMIC_RELAXED, __ATOMIC_RELAXED))
        {
          __atomic_fetch_add(count, 1, __ATOMIC_RELAXED);
          return;
        }
        if (exp == h)
          return;
      }
      i = (i + 1) & (cap - 1);
    }
  }
};

struct WorkStack
{
  volatile int lock;
  volatile long size;
  volatile long inflight;
  volatile long maxSize;
  volatile int stop;
  long cap;
  Prefix *slots;
};

struct Global
{
  WorkStack ws;
  HashSet states, outcomes;
  volatile uint64_t executions, transitions, points, violations, deadlineHit, capHit, truncated, nondet, internal;
  volatile uint64_t maxPoints, maxSteps;
};

Global *G = nullptr;

inline uint64_t mix64(uint64_t h, uint64_t v)
{
  h ^= v + 0x9E3779B97F4A7C15ull + (h << 6) + (h >> 2);
  h *= 0xff51afd7ed558ccdull;
  h ^= h >> 33;
  return h;
}
inline uint64_t hashBytes(const void *p, size_t n, uint64_t h = 1469598103934665603ull)
{
  const unsigned char *b = (const unsigned char *)p;
  for (size_t i = 0; i < n; ++i)
  {
    h ^= b[i];
    h *= 1099511628211ull;
  }
  return h;
}

void spin_lock(volatile int *l)
{
  while (__atomic_exchange_n(l, 1, __ATOMIC_ACQUIRE))
    while (*l)
      __builtin_ia32_pause();
}
void spin_unlock(volatile int *l) { __atomic_store_n(l, 0, __ATOMIC_RELEASE); }

// =====================================================================================
// child-side scheduler
// =====================================================================================
enum OpKind
{
  OP_NONE = 0,
  OP_START,
  OP_LOCK,
  OP_TRYLOCK,
  OP_UNLOCK,
  OP_COND_ENTER,
  OP_COND_BLOCKED,
  OP_NOTIFY,
  OP_JOIN,
  OP_FUTEX_ENTER,
  OP_FUTEX_BLOCKED,
  OP_FUTEX_WAKE,
  OP_SLEEP,
  OP_YIELD,
  OP_ONCE,
  OP_RDLOCK,
  OP_WRLOCK,
  OP_QUIESCE,
  OP_USER,
  OP_EXT_BLOCKED, // blocked on an external (simk) condition: enabled via callback
  OP_ATOMIC,
  OP_CHOOSE,
  OP_TIME, // pseudo: time-advance option
};
const char *opName(int k)
{
  static const char *n[] = {"none", "start", "lock", "trylock", "unlock", "cond_enter", "cond_wait", "notify", "join", "futex_enter",
                            "futex_wait", "futex_wake", "sleep", "yield", "once", "rdlock", "wrlock", "quiesce", "user", "ext_wait",
                            "atomic", "choose", "time"};
  return k >= 0 && k < int(sizeof n / sizeof *n) ? n[k] : "?";
}

struct SyncObj
{
  const void *addr;
  int owner = -1; // mutex / rwlock writer / once owner
  int count = 0;
  int readers = 0;
  int onceState = 0;
  int waiters[MAXT];
  int nw = 0;
  bool ignored = false;
  int index = 0;
};

struct Thr
{
  int id = 0;
  pthread_t pt{};
  volatile int go = 0;
  int op = OP_NONE;
  SyncObj *obj = nullptr, *obj2 = nullptr;
  const void *faddr = nullptr;
  uint64_t deadline = 0; // virtual mono ns; 0 = none
  bool signaled = false;
  bool done = false, daemon = false, started = false;
  char label[96] = {0};
  uint64_t nops = 0;
  uint64_t yieldEpoch = 0;
  void *(*fn)(void *) = nullptr;
  void *arg = nullptr;
  bool (*extEnabled)(void *) = nullptr;
  void *extArg = nullptr;
  const char *extWhat = nullptr;
};

struct Sched
{
  bool inChild = false;
  bool verbose = false;
  Thr *thr[MAXT];
  int nthr = 0;
  SyncObj objs[4096];
  int nobjs = 0;
  SyncObj *tab[8192];
  const void *ignored[64];
  int nignored = 0;
  uint64_t monoNs = 1000ull * 1000000000ull;
  int64_t wallOffsetNs = (1700000000ll - 1000ll) * 1000000000ll;
  uint64_t horizonNs = 0;
  uint64_t globalOps = 0;
  uint64_t stateMix = 0;
  uint64_t obsHash = 1469598103934665603ull;
  uint64_t roll = 0x1234567;
  uint32_t npoints = 0;
  const Prefix *prefix = nullptr;
  int prefixPos = 0;
  ExecShared *ex = nullptr;
  bool pointBeforeUnlock = false;
  bool spurious = false;
  bool chargeSwitch = false;
  uint64_t yieldSpin = 0;
  uint64_t sleepQuantumNs = 0; // sleeps are rounded up to a multiple (removes value nondeterminism such as random jitter)
  uint64_t deviationNs = 0; // virtual time advanced by *chosen* TIME options (runnable threads were slow)
};
Sched S;
__thread Thr *tl_self = nullptr;
__thread int tl_inrt = 0;

struct RtGuard
{
  RtGuard() { ++tl_inrt; }
  ~RtGuard() { --tl_inrt; }
};

inline Thr *cur() { return (S.inChild && tl_inrt == 0) ? tl_self : nullptr; }

// Synchronisation operations issued from inside libcrypto / libssl (hundreds of thousands of provider-cache
// rwlock operations per SSL_CTX_new) are leaf operations for every property here: they are executed without a
// scheduling point as long as they do not have to block.  Ranges are taken once with dl_iterate_phdr.
struct QuietRange
{
  uintptr_t lo, hi;
};
QuietRange g_quiet[8];
int g_nquiet = -1;
int quietPhdrCb(struct dl_phdr_info *info, size_t, void *)
{
  const char *n = info->dlpi_name ? info->dlpi_name : "";
  if (!strstr(n, "libcrypto") && !strstr(n, "libssl"))
    return 0;
  for (int i = 0; i < info->dlpi_phnum && g_nquiet < 8; ++i)
    if (info->dlpi_phdr[i].p_type == PT_LOAD && (info->dlpi_phdr[i].p_flags & PF_X))
    {
      g_quiet[g_nquiet].lo = info->dlpi_addr + info->dlpi_phdr[i].p_vaddr;
      g_quiet[g_nquiet].hi = g_quiet[g_nquiet].lo + info->dlpi_phdr[i].p_memsz;
      g_nquiet++;
    }
  return 0;
}
inline bool quietCaller(void *ra)
{
  if (g_nquiet < 0)
  {
    g_nquiet = 0;
    dl_iterate_phdr(quietPhdrCb, nullptr);
  }
  uintptr_t a = (uintptr_t)ra;
  for (int i = 0; i < g_nquiet; ++i)
    if (a >= g_quiet[i].lo && a < g_quiet[i].hi)
      return true;
  return false;
}

[[noreturn]] void finishExec(int status, const char *clause, const std::string &sig, const std::string &detail)
{
  ExecShared *ex = S.ex;
  if (ex)
  {
    if (clause)
      snprintf(ex->clause, sizeof ex->clause, "%s", clause);
    snprintf(ex->sig, sizeof ex->sig, "%s", sig.c_str());
    snprintf(ex->detail, sizeof ex->detail, "%s", detail.c_str());
    ex->obsHash = S.obsHash;
    ex->npoints = S.npoints;
    ex->steps = S.globalOps;
    ex->endNs = S.monoNs;
    __atomic_store_n(&ex->status, status, __ATOMIC_SEQ_CST);
  }
  if (S.verbose)
  {
    fprintf(stdout, "== execution finished: status=%d clause=%s sig=%s\n   %s\n", status, clause ? clause : "-", sig.c_str(), detail.c_str());
    fflush(stdout);
  }
  _exit(0);
}

[[noreturn]] void internalError(const std::string &what) { finishExec(ES_INTERNAL, "internal", "internal", what); }

SyncObj *findObj(const void *addr, bool create = true)
{
  size_t h = (size_t(addr) >> 3) * 0x9E3779B97F4A7C15ull >> 51; // 13 bits
  for (size_t i = 0; i < 8192; ++i)
  {
    SyncObj *&s = S.tab[(h + i) & 8191];
    if (!s)
    {
      if (!create)
        return nullptr;
      if (S.nobjs >= 4096)
        internalError("sync object table full");
      s = &S.objs[S.nobjs];
      *s = SyncObj();
      s->addr = addr;
      s->index = S.nobjs++;
      for (int k = 0; k < S.nignored; ++k)
        if (S.ignored[k] == addr)
          s->ignored = true;
      return s;
    }
    if (s->addr == addr)
      return s;
  }
  internalError("sync object hash table full");
}

void wakeThr(Thr *t)
{
  __atomic_store_n(&t->go, 1, __ATOMIC_SEQ_CST);
  raw_futex_wake(&t->go);
}
void waitSelf(Thr *t)
{
  while (__atomic_load_n(&t->go, __ATOMIC_SEQ_CST) == 0)
    raw_futex_wait(&t->go, 0);
  __atomic_store_n(&t->go, 0, __ATOMIC_SEQ_CST);
}

bool mutexFreeFor(SyncObj *m, Thr *t) { return m->owner == -1 || m->owner == t->id; }

bool othersEnabledExcept(Thr *self);

bool isEnabled(Thr *t)
{
  switch (t->op)
  {
  case OP_LOCK:
    return mutexFreeFor(t->obj, t);
  case OP_WRLOCK:
    return t->obj->owner == -1 && t->obj->readers == 0;
  case OP_RDLOCK:
    return t->obj->owner == -1;
  case OP_COND_BLOCKED:
    return (t->signaled || (t->deadline && S.monoNs >= t->deadline)) && mutexFreeFor(t->obj2, t);
  case OP_FUTEX_BLOCKED:
    return t->signaled || (t->deadline && S.monoNs >= t->deadline);
  case OP_JOIN:
    return ((Thr *)t->extArg)->done;
  case OP_SLEEP:
    return S.monoNs >= t->deadline;
  case OP_YIELD:
    return S.globalOps != t->yieldEpoch;
  case OP_ONCE:
    return t->obj->onceState != 1 || t->obj->owner == t->id;
  case OP_QUIESCE:
    return S.monoNs >= t->deadline && !othersEnabledExcept(t);
  case OP_EXT_BLOCKED:
    return (t->extEnabled && t->extEnabled(t->extArg)) || (t->deadline && S.monoNs >= t->deadline);
  default:
    return true;
  }
}

bool othersEnabledExcept(Thr *self)
{
  for (int i = 0; i < S.nthr; ++i)
  {
    Thr *t = S.thr[i];
    if (t == self || t->done || t->op == OP_QUIESCE)
      continue;
    if (isEnabled(t))
      return true;
  }
  return false;
}

std::string describeThreads()
{
  std::string s;
  char b[256];
  for (int i = 0; i < S.nthr; ++i)
  {
    Thr *t = S.thr[i];
    snprintf(b, sizeof b, "T%d[%s]:%s%s%s ", t->id, t->label, t->done ? "done" : opName(t->op), t->deadline ? "(timed)" : "",
             (t->op == OP_EXT_BLOCKED && t->extWhat) ? t->extWhat : "");
    s += b;
  }
  return s;
}

std::string blockedSig()
{
  std::vector<std::string> v;
  for (int i = 0; i < S.nthr; ++i)
  {
    Thr *t = S.thr[i];
    if (t->done)
      continue;
    std::string e = std::string(t->label[0] ? t->label : "?") + ":" + opName(t->op);
    v.push_back(e);
  }
  std::sort(v.begin(), v.end());
  std::string s;
  for (auto &e : v)
    s += (s.empty() ? "" : ",") + e;
  return s;
}

uint64_t stateHash()
{
  uint64_t h = mix64(S.stateMix, S.obsHash);
  for (int i = 0; i < S.nthr; ++i)
  {
    Thr *t = S.thr[i];
    h = mix64(h, (uint64_t(t->op) << 48) ^ (uint64_t(t->done) << 40) ^ (t->obj ? uint64_t(t->obj->index) << 20 : 0) ^ t->nops);
  }
  h = mix64(h, S.monoNs);
  return h;
}

// Record a choice point with n options; returns the option taken.
int recordPoint(int kind, int tid, int n, const uint8_t *costs)
{
  ExecShared *ex = S.ex;
  if (n > MAXOPT)
  {
    ex->truncatedOptions++;
    n = MAXOPT;
  }
  uint32_t idx = S.npoints;
  if (idx >= MAXPOINTS)
  {
    ex->pointOverflow++;
    return 0;
  }
  int choice = 0;
  const Prefix *p = S.prefix;
  if (p && S.prefixPos < p->n && p->dev[S.prefixPos].idx == idx)
  {
    choice = p->dev[S.prefixPos].alt;
    if (S.prefixPos == p->n - 1 && p->hashAtLast && p->hashAtLast != S.roll)
      finishExec(ES_NONDET, "internal", "nondeterminism", "trace hash differs at replayed deviation index " + std::to_string(idx));
    if (choice >= n)
      finishExec(ES_NONDET, "internal", "nondeterminism",
                 "replayed choice " + std::to_string(choice) + " out of range " + std::to_string(n) + " at index " + std::to_string(idx));
    S.prefixPos++;
  }
  TracePoint &tp = ex->pts[idx];
  tp.n = uint8_t(n);
  tp.chosen = uint8_t(choice);
  tp.kind = uint8_t(kind);
  tp.tid = uint8_t(tid);
  for (int i = 0; i < n; ++i)
    tp.cost[i] = costs[i];
  ex->roll[idx] = S.roll;
  S.roll = mix64(S.roll, (uint64_t(n) << 24) ^ (uint64_t(kind) << 16) ^ (uint64_t(tid) << 8) ^ uint64_t(choice));
  S.npoints = idx + 1;
  if (G)
    G->states.insert(stateHash());
  return choice;
}

void advanceTo(uint64_t ns)
{
  if (ns > S.monoNs)
    S.monoNs = ns;
}

// The heart: called by `self` (may be done) when it is at a scheduling point with its pending
// operation recorded.  Returns when `self` has been chosen to execute that operation.
void scheduleFrom(Thr *self)
{
  RtGuard g;
  for (;;)
  {
    int en[MAXT + 1], ne = 0;
    bool selfEnabled = self && !self->done && isEnabled(self);
    if (selfEnabled)
      en[ne++] = self->id;
    for (int i = 0; i < S.nthr; ++i)
    {
      Thr *t = S.thr[i];
      if (t == self || t->done)
        continue;
      if (isEnabled(t))
        en[ne++] = t->id;
    }
    // earliest pending deadline among timed waiters that are not enabled yet
    uint64_t minD = 0;
    for (int i = 0; i < S.nthr; ++i)
    {
      Thr *t = S.thr[i];
      if (t->done || !t->deadline || t->deadline <= S.monoNs)
        continue;
      if (t->op == OP_COND_BLOCKED || t->op == OP_FUTEX_BLOCKED || t->op == OP_SLEEP || t->op == OP_EXT_BLOCKED || t->op == OP_QUIESCE)
        if (!minD || t->deadline < minD)
          minD = t->deadline;
    }
    uint64_t extD = mcint_ext_next_deadline ? mcint_ext_next_deadline(S.monoNs) : 0; // simk timerfds
    if (extD && extD > S.monoNs && (!minD || extD < minD))
      minD = extD;
    if (ne == 0)
    {
      if (minD)
      {
        if (S.horizonNs && minD > S.horizonNs)
          finishExec(ES_VIOLATION, "bounded-time", "horizon:" + blockedSig(),
                     "virtual-time horizon reached with unfinished threads: " + describeThreads());
        advanceTo(minD);
        if (mcint_ext_on_time)
          mcint_ext_on_time(S.monoNs);
        continue;
      }
      // yielders only?
      bool yielders = false;
      for (int i = 0; i < S.nthr; ++i)
        if (!S.thr[i]->done && S.thr[i]->op == OP_YIELD)
          yielders = true;
      if (yielders)
      {
        if (++S.yieldSpin > 10000)
          finishExec(ES_VIOLATION, "no-livelock", "yield-spin:" + blockedSig(), "only yielding threads remain: " + describeThreads());
        S.globalOps++; // let them re-evaluate
        continue;
      }
      finishExec(ES_VIOLATION, "no-deadlock", "deadlock:" + blockedSig(), "no enabled thread: " + describeThreads());
    }
    // spurious wake-up candidates
    int spur[MAXT], ns = 0;
    if (S.spurious)
      for (int i = 0; i < S.nthr; ++i)
      {
        Thr *t = S.thr[i];
        if (!t->done && t->op == OP_COND_BLOCKED && !t->signaled && !isEnabled(t) && mutexFreeFor(t->obj2, t))
          spur[ns++] = t->id;
      }
    bool timeOpt = minD != 0 && !(S.horizonNs && minD > S.horizonNs);
    int nopt = ne + (timeOpt ? 1 : 0) + ns;
    int pick = 0;
    if (nopt > 1)
    {
      uint8_t costs[MAXT * 2 + 2];
      for (int i = 0; i < ne; ++i)
        costs[i] = i == 0 ? MC_FREE : (selfEnabled ? MC_PREEMPT : (S.chargeSwitch ? MC_SWITCH : MC_FREE));
      int k = ne;
      if (timeOpt)
        costs[k++] = MC_TIMER;
      for (int i = 0; i < ns; ++i)
        costs[k++] = MC_ENV;
      // keep the time option and spurious options visible even if truncated: they are last; truncation is reported
      pick = recordPoint(self && !self->done ? self->op : OP_NONE, self ? self->id : 255, nopt, costs);
      if (S.verbose)
      {
        fprintf(stdout, "  point#%u by T%d(%s%s%s) t=%.6f options:", S.npoints - 1, self ? self->id : -1, self ? opName(self->op) : "-",
                (self && (self->op == OP_USER || self->op == OP_EXT_BLOCKED) && self->extWhat) ? ":" : "",
                (self && (self->op == OP_USER || self->op == OP_EXT_BLOCKED) && self->extWhat) ? self->extWhat : "", S.monoNs / 1e9);
        for (int i = 0; i < ne; ++i)
          fprintf(stdout, " T%d:%s", en[i], opName(S.thr[en[i]]->op));
        if (timeOpt)
          fprintf(stdout, " TIME->%.6f", minD / 1e9);
        for (int i = 0; i < ns; ++i)
          fprintf(stdout, " SPUR:T%d", spur[i]);
        fprintf(stdout, "  => %d\n", pick);
        fflush(stdout);
      }
    }
    if (pick >= ne)
    {
      if (timeOpt && pick == ne)
      {
        if (minD > S.monoNs)
          S.deviationNs += minD - S.monoNs;
        advanceTo(minD);
        if (mcint_ext_on_time)
          mcint_ext_on_time(S.monoNs);
        continue;
      }
      Thr *t = S.thr[spur[pick - ne - (timeOpt ? 1 : 0)]];
      t->signaled = true; // spurious: returns 0 without a notify
      continue;
    }
    Thr *t = S.thr[en[pick]];
    S.globalOps++;
    t->nops++;
    S.yieldSpin = 0;
    if (t == self)
      return;
    wakeThr(t);
    if (self && !self->done)
      waitSelf(self);
    return;
  }
}

void point(Thr *self, int op, SyncObj *o = nullptr, SyncObj *o2 = nullptr)
{
  self->op = op;
  self->obj = o;
  self->obj2 = o2;
  scheduleFrom(self);
  self->op = OP_NONE;
}

void *trampoline(void *p)
{
  Thr *t = (Thr *)p;
  tl_self = t;
  waitSelf(t);
  t->started = true;
  t->op = OP_NONE;
  void *r = t->fn(t->arg);
  {
    RtGuard g;
    t->done = true;
    t->op = OP_NONE;
  }
  tl_self = nullptr; // later hooked calls from TLS destructors pass through
  scheduleFrom(t);
  return r;
}

Thr *newThr()
{
  if (S.nthr >= MAXT)
    internalError("too many threads");
  Thr *t = new Thr();
  t->id = S.nthr;
  S.thr[S.nthr++] = t;
  return t;
}

uint64_t tsToNs(const struct timespec *ts) { return uint64_t(ts->tv_sec) * 1000000000ull + uint64_t(ts->tv_nsec); }
uint64_t wallNow() { return uint64_t(int64_t(S.monoNs) + S.wallOffsetNs); }
bool isWallClock(clockid_t c) { return c == CLOCK_REALTIME || c == CLOCK_REALTIME_COARSE || c == CLOCK_TAI; }
bool isVirtualClock(clockid_t c)
{
  return c == CLOCK_REALTIME || c == CLOCK_REALTIME_COARSE || c == CLOCK_MONOTONIC || c == CLOCK_MONOTONIC_RAW || c == CLOCK_MONOTONIC_COARSE ||
         c == CLOCK_BOOTTIME || c == CLOCK_TAI;
}
uint64_t absToMonoDeadline(clockid_t c, const struct timespec *abs)
{
  int64_t a = int64_t(tsToNs(abs));
  if (isWallClock(c))
    a -= S.wallOffsetNs;
  if (a < 1)
    a = 1;
  return uint64_t(a);
}

// A synchronisation object that lives in freed (or otherwise poisoned) memory: the hooks below are not
// sanitizer-instrumented and keep their own state per address, so without this check "lock a mutex inside an
// object that was already destroyed" would go unnoticed in the ASan flavour.  Reported like an ASan finding.
static void poisonCheck(const void *obj, const char *op)
{
  if (!&__asan_address_is_poisoned || !S.inChild || !obj)
    return;
  if (__asan_address_is_poisoned(obj))
  {
    char d[200];
    snprintf(d, sizeof d, "%s on a synchronisation object at %p that lies in freed/poisoned memory (use after free of the object containing it)", op, obj);
    mc_violation("no-crash-no-ub", "asan:heap-use-after-free", d);
  }
}
int condWaitCommon(Thr *self, pthread_cond_t *c, pthread_mutex_t *m, uint64_t deadline)
{
  poisonCheck(c, "condition wait");
  poisonCheck(m, "condition wait (mutex)");
  SyncObj *oc = findObj(c), *om = findObj(m);
  point(self, OP_COND_ENTER, oc, om);
  HB_REL(m);
  RtGuard g;
  int saved = om->count;
  om->count = 0;
  om->owner = -1;
  if (oc->nw < MAXT)
    oc->waiters[oc->nw++] = self->id;
  self->signaled = false;
  self->deadline = deadline ? deadline : 0;
  self->op = OP_COND_BLOCKED;
  self->obj = oc;
  self->obj2 = om;
  scheduleFrom(self);
  // resumed: own the mutex again
  poisonCheck(c, "wake-up from a condition wait");
  poisonCheck(m, "mutex re-acquisition after a condition wait");
  for (int i = 0; i < oc->nw; ++i)
    if (oc->waiters[i] == self->id)
    {
      for (int j = i; j + 1 < oc->nw; ++j)
        oc->waiters[j] = oc->waiters[j + 1];
      oc->nw--;
      break;
    }
  int ret = self->signaled ? 0 : ETIMEDOUT;
  self->signaled = false;
  self->deadline = 0;
  self->op = OP_NONE;
  om->owner = self->id;
  om->count = saved ? saved : 1;
  --tl_inrt;
  HB_ACQ(m);
  ++tl_inrt;
  return ret;
}

void condNotify(Thr *self, pthread_cond_t *c, bool all)
{
  SyncObj *oc = findObj(c);
  point(self, OP_NOTIFY, oc);
  RtGuard g;
  // candidates: waiters not yet signaled
  int cand[MAXT], nc = 0;
  for (int i = 0; i < oc->nw; ++i)
    if (!S.thr[oc->waiters[i]]->signaled)
      cand[nc++] = oc->waiters[i];
  if (nc == 0)
    return;
  if (all)
  {
    for (int i = 0; i < nc; ++i)
      S.thr[cand[i]]->signaled = true;
    oc->nw = 0;
    return;
  }
  int pick = 0;
  if (nc > 1)
  {
    uint8_t costs[MAXT];
    for (int i = 0; i < nc; ++i)
      costs[i] = i ? MC_ENV : MC_FREE;
    pick = recordPoint(OP_CHOOSE, self->id, nc, costs);
  }
  int id = cand[pick];
  S.thr[id]->signaled = true;
  for (int i = 0; i < oc->nw; ++i)
    if (oc->waiters[i] == id)
    {
      for (int j = i; j + 1 < oc->nw; ++j)
        oc->waiters[j] = oc->waiters[j + 1];
      oc->nw--;
      break;
    }
}

int sleepUntil(Thr *self, uint64_t deadline)
{
  if (S.sleepQuantumNs && deadline > S.monoNs)
  {
    uint64_t d = deadline - S.monoNs;
    d = (d + S.sleepQuantumNs - 1) / S.sleepQuantumNs * S.sleepQuantumNs;
    deadline = S.monoNs + d;
  }
  self->deadline = deadline;
  point(self, OP_SLEEP);
  self->deadline = 0;
  return 0;
}

long futexModel(Thr *self, int *addr, int op, int val, const struct timespec *timeout, int val3)
{
  int cmd = op & 127;
  bool realtime = op & FUTEX_CLOCK_REALTIME;
  (void)val3;
  if (cmd == FUTEX_WAIT || cmd == FUTEX_WAIT_BITSET)
  {
    if (__atomic_load_n(addr, __ATOMIC_SEQ_CST) != val)
    {
      errno = EAGAIN;
      return -1;
    }
    self->faddr = addr;
    point(self, OP_FUTEX_ENTER);
    if (__atomic_load_n(addr, __ATOMIC_SEQ_CST) != val)
    {
      errno = EAGAIN;
      return -1;
    }
    uint64_t dl = 0;
    if (timeout)
    {
      if (cmd == FUTEX_WAIT)
        dl = S.monoNs + tsToNs(timeout);
      else
        dl = absToMonoDeadline(realtime ? CLOCK_REALTIME : CLOCK_MONOTONIC, timeout);
      if (dl == 0)
        dl = 1;
    }
    self->signaled = false;
    self->deadline = dl;
    self->faddr = addr;
    self->op = OP_FUTEX_BLOCKED;
    scheduleFrom(self);
    self->op = OP_NONE;
    self->deadline = 0;
    self->faddr = nullptr;
    HB_ACQ(addr);
    if (self->signaled)
    {
      self->signaled = false;
      return 0;
    }
    errno = ETIMEDOUT;
    return -1;
  }
  if (cmd == FUTEX_WAKE || cmd == FUTEX_WAKE_BITSET)
  {
    self->faddr = addr;
    point(self, OP_FUTEX_WAKE);
    HB_REL(addr);
    int n = 0;
    for (int i = 0; i < S.nthr && n < val; ++i)
    {
      Thr *t = S.thr[i];
      if (!t->done && t->op == OP_FUTEX_BLOCKED && t->faddr == addr && !t->signaled)
      {
        t->signaled = true;
        ++n;
      }
    }
    return n;
  }
  errno = ENOSYS;
  return -1;
}

} // namespace

// =====================================================================================
// internal API for simk / tsan shim
// =====================================================================================
uint64_t (*mcint_ext_next_deadline)(uint64_t now) = nullptr;
void (*mcint_ext_on_time)(uint64_t now) = nullptr;

bool mcint_managed() { return cur() != nullptr; }
uint64_t mcint_now() { return S.monoNs; }
uint64_t mcint_wall() { return wallNow(); }
void mcint_point(const char *what)
{
  Thr *self = cur();
  if (!self)
    return;
  self->extWhat = what;
  point(self, OP_USER);
}
void mcint_atomic_point()
{
  Thr *self = cur();
  if (!self)
    return;
  point(self, OP_ATOMIC);
}
// Block the calling thread until enabled(arg) is true or the virtual deadline (0 = none) passes.
// Returns true if enabled, false on timeout.
bool mcint_block(bool (*enabled)(void *), void *arg, uint64_t deadlineNs, const char *what)
{
  Thr *self = cur();
  if (!self)
    return enabled(arg);
  self->extEnabled = enabled;
  self->extArg = arg;
  self->extWhat = what;
  self->deadline = deadlineNs;
  self->op = OP_EXT_BLOCKED;
  scheduleFrom(self);
  self->op = OP_NONE;
  self->deadline = 0;
  self->extEnabled = nullptr;
  bool ok;
  {
    RtGuard g;
    ok = enabled(arg);
  }
  return ok;
}
int mcint_tid()
{
  Thr *s = cur();
  return s ? s->id : -1;
}
int mcint_nthreads() { return S.nthr; }
const char *mcint_thread_label(int t) { return (t >= 0 && t < S.nthr) ? S.thr[t]->label : "?"; }
bool mcint_in_child() { return S.inChild; }
[[noreturn]] void mcint_internal_error(const char *what) { internalError(what); }

// =====================================================================================
// public harness API
// =====================================================================================
int mc_choose(int n, McCost cost)
{
  Thr *self = cur();
  if (!self || n <= 1)
    return 0;
  RtGuard g;
  uint8_t costs[MAXOPT];
  if (n > MAXOPT)
  {
    S.ex->truncatedOptions++;
    n = MAXOPT;
  }
  for (int i = 0; i < n; ++i)
    costs[i] = i ? uint8_t(cost) : uint8_t(MC_FREE);
  int c = recordPoint(OP_CHOOSE, self->id, n, costs);
  if (S.verbose)
  {
    fprintf(stdout, "  choose#%u by T%d n=%d => %d\n", S.npoints - 1, self->id, n, c);
    fflush(stdout);
  }
  return c;
}

void mc_obs(const char *fmt, ...)
{
  if (!S.inChild)
    return;
  RtGuard g;
  char buf[1024];
  va_list ap;
  va_start(ap, fmt);
  int n = vsnprintf(buf, sizeof buf, fmt, ap);
  va_end(ap);
  if (n < 0)
    return;
  if (n >= int(sizeof buf))
    n = sizeof buf - 1;
  S.obsHash = hashBytes(buf, size_t(n), S.obsHash);
  S.obsHash = hashBytes("\n", 1, S.obsHash);
  ExecShared *ex = S.ex;
  if (ex && ex->obsLen + size_t(n) + 2 < sizeof ex->obs)
  {
    memcpy(ex->obs + ex->obsLen, buf, size_t(n));
    ex->obsLen += n;
    ex->obs[ex->obsLen++] = '\n';
    ex->obs[ex->obsLen] = 0;
  }
  if (S.verbose)
  {
    fprintf(stdout, "  obs: %s\n", buf);
    fflush(stdout);
  }
}

void mc_violation(const char *clause, const std::string &sig, const std::string &detail)
{
  if (!S.inChild)
  {
    fprintf(stderr, "mc_violation outside execution: %s %s %s\n", clause, sig.c_str(), detail.c_str());
    abort();
  }
  ++tl_inrt;
  finishExec(ES_VIOLATION, clause, sig, detail);
}

void mc_label(const char *label)
{
  Thr *self = cur();
  if (self)
    snprintf(self->label, sizeof self->label, "%s", label);
}
void mc_state_mix(uint64_t h) { S.stateMix = mix64(S.stateMix, h); }
void mc_ignore_sync(const void *obj)
{
  if (S.nignored < 64)
    S.ignored[S.nignored++] = obj;
  if (S.inChild)
  {
    RtGuard g;
    SyncObj *o = findObj(obj);
    o->ignored = true;
  }
}
void mc_daemon()
{
  Thr *self = cur();
  if (self)
    self->daemon = true;
}
uint64_t mc_now_ns() { return S.monoNs; }
uint64_t mc_wall_ns() { return wallNow(); }
void mc_advance_wall(int64_t d) { S.wallOffsetNs += d; }
uint64_t mc_step() { return S.globalOps; }
uint64_t mc_deviation_ns() { return S.deviationNs; }
void mc_set_sleep_quantum(uint64_t ns) { S.sleepQuantumNs = ns; }
bool mc_active() { return S.inChild; }
int mc_tid() { return mcint_tid(); }
void mc_yield_point(const char *what) { mcint_point(what); }
void mc_quiesce(uint64_t advance_ns)
{
  Thr *self = cur();
  if (!self)
    return;
  self->deadline = S.monoNs + advance_ns;
  if (self->deadline == 0)
    self->deadline = 1;
  point(self, OP_QUIESCE);
  self->deadline = 0;
}


// =====================================================================================
// hooks
// =====================================================================================
extern "C"
{
  int pthread_mutex_lock(pthread_mutex_t *m)
  {
    Thr *self = cur();
    if (!self)
    {
      if (!real_pthread_mutex_lock)
      {
        if (tl_resolving)
          return 0;
        ++tl_resolving;
        LOAD_REAL(pthread_mutex_lock);
        --tl_resolving;
      }
      return real_pthread_mutex_lock(m);
    }
    poisonCheck(m, "mutex lock");
    SyncObj *o;
    {
      RtGuard g;
      o = findObj(m);
    }
    if (o->ignored)
    {
      if (o->owner != -1 && o->owner != self->id)
        internalError("ignored (leaf) mutex found held at a lock attempt: leaf assumption broken");
      o->owner = self->id;
      o->count++;
      HB_ACQ(m);
      return 0;
    }
    if (quietCaller(__builtin_return_address(0)) && mutexFreeFor(o, self))
    {
      o->owner = self->id;
      o->count++;
      HB_ACQ(m);
      return 0;
    }
    point(self, OP_LOCK, o);
    o->owner = self->id;
    o->count++;
    HB_ACQ(m);
    return 0;
  }
  int pthread_mutex_trylock(pthread_mutex_t *m)
  {
    Thr *self = cur();
    if (!self)
    {
      LOAD_REAL(pthread_mutex_trylock);
      return real_pthread_mutex_trylock(m);
    }
    poisonCheck(m, "mutex trylock");
    SyncObj *o;
    {
      RtGuard g;
      o = findObj(m);
    }
    if (!o->ignored)
      point(self, OP_TRYLOCK, o);
    if (o->owner != -1 && !(o->owner == self->id && (m->__data.__kind & 3) == PTHREAD_MUTEX_RECURSIVE_NP))
      return EBUSY;
    o->owner = self->id;
    o->count++;
    HB_ACQ(m);
    return 0;
  }
  int pthread_mutex_unlock(pthread_mutex_t *m)
  {
    Thr *self = cur();
    if (!self)
    {
      if (!real_pthread_mutex_unlock)
      {
        if (tl_resolving)
          return 0;
        ++tl_resolving;
        LOAD_REAL(pthread_mutex_unlock);
        --tl_resolving;
      }
      return real_pthread_mutex_unlock(m);
    }
    poisonCheck(m, "mutex unlock");
    SyncObj *o;
    {
      RtGuard g;
      o = findObj(m);
    }
    if (S.pointBeforeUnlock && !o->ignored)
      point(self, OP_UNLOCK, o);
    if (o->owner != self->id)
      return EPERM;
    HB_REL(m);
    if (--o->count <= 0)
    {
      o->count = 0;
      o->owner = -1;
    }
    return 0;
  }

  int pthread_cond_wait(pthread_cond_t *c, pthread_mutex_t *m)
  {
    Thr *self = cur();
    if (!self)
    {
      LOAD_REAL(pthread_cond_wait);
      return real_pthread_cond_wait(c, m);
    }
    return condWaitCommon(self, c, m, 0);
  }
  int pthread_cond_timedwait(pthread_cond_t *c, pthread_mutex_t *m, const struct timespec *abs)
  {
    Thr *self = cur();
    if (!self)
    {
      LOAD_REAL(pthread_cond_timedwait);
      return real_pthread_cond_timedwait(c, m, abs);
    }
    return condWaitCommon(self, c, m, absToMonoDeadline(CLOCK_REALTIME, abs));
  }
  int pthread_cond_clockwait(pthread_cond_t *c, pthread_mutex_t *m, clockid_t clk, const struct timespec *abs)
  {
    Thr *self = cur();
    if (!self)
    {
      LOAD_REAL(pthread_cond_clockwait);
      return real_pthread_cond_clockwait(c, m, clk, abs);
    }
    return condWaitCommon(self, c, m, absToMonoDeadline(clk, abs));
  }
  int pthread_cond_signal(pthread_cond_t *c)
  {
    Thr *self = cur();
    if (!self)
    {
      LOAD_REAL(pthread_cond_signal);
      return real_pthread_cond_signal(c);
    }
    poisonCheck(c, "condition notify");
    condNotify(self, c, false);
    return 0;
  }
  int pthread_cond_broadcast(pthread_cond_t *c)
  {
    Thr *self = cur();
    if (!self)
    {
      LOAD_REAL(pthread_cond_broadcast);
      return real_pthread_cond_broadcast(c);
    }
    poisonCheck(c, "condition notify_all");
    condNotify(self, c, true);
    return 0;
  }

  int pthread_create(pthread_t *pt, const pthread_attr_t *attr, void *(*fn)(void *), void *arg)
  {
    LOAD_REAL(pthread_create);
    Thr *self = cur();
    if (!self)
      return real_pthread_create(pt, attr, fn, arg);
    Thr *t;
    {
      RtGuard g;
      t = newThr();
      t->fn = fn;
      t->arg = arg;
      t->op = OP_START;
      snprintf(t->label, sizeof t->label, "t%d", t->id);
    }
    int r;
    {
      RtGuard g;
      r = real_pthread_create(pt, attr, trampoline, t);
    }
    if (r != 0)
      internalError("real pthread_create failed");
    t->pt = *pt;
    if (tsanshim_thread_create)
      tsanshim_thread_create(self->id, t->id);
    // Spawning is a visible operation: give the scheduler a point right after it, so that "the new thread runs
    // before the creator's next (possibly non-instrumented, e.g. atomic) action" is an explorable preemption.
    mcint_point("spawned");
    return 0;
  }
  int pthread_join(pthread_t pt, void **ret)
  {
    LOAD_REAL(pthread_join);
    Thr *self = cur();
    if (!self)
      return real_pthread_join(pt, ret);
    Thr *target = nullptr;
    for (int i = 0; i < S.nthr; ++i)
      if (S.thr[i]->id != 0 && pthread_equal(S.thr[i]->pt, pt))
        target = S.thr[i];
    if (!target)
      return real_pthread_join(pt, ret);
    self->extArg = target;
    point(self, OP_JOIN);
    if (tsanshim_thread_join)
      tsanshim_thread_join(self->id, target->id);
    RtGuard g;
    return real_pthread_join(pt, ret);
  }

  int pthread_once(pthread_once_t *once, void (*fn)(void))
  {
    Thr *self = cur();
    if (!self)
    {
      LOAD_REAL(pthread_once);
      return real_pthread_once(once, fn);
    }
    if (*(volatile int *)once == 2) // glibc: __PTHREAD_ONCE_DONE
    {
      HB_ACQ(once);
      return 0;
    }
    SyncObj *o;
    {
      RtGuard g;
      o = findObj(once);
    }
    if (o->onceState == 2)
      return 0;
    if (!(quietCaller(__builtin_return_address(0)) && o->onceState == 0))
      point(self, OP_ONCE, o);
    if (o->onceState == 2)
      return 0;
    if (o->onceState == 1 && o->owner == self->id)
      return 0; // recursive call: undefined, do not hang
    o->onceState = 1;
    o->owner = self->id;
    fn();
    HB_REL(once);
    o->onceState = 2;
    o->owner = -1;
    *(volatile int *)once = 2;
    return 0;
  }

  int pthread_rwlock_rdlock(pthread_rwlock_t *l)
  {
    Thr *self = cur();
    if (!self)
    {
      LOAD_REAL(pthread_rwlock_rdlock);
      return real_pthread_rwlock_rdlock(l);
    }
    poisonCheck(l, "rwlock rdlock");
    SyncObj *o;
    {
      RtGuard g;
      o = findObj(l);
    }
    if (!(quietCaller(__builtin_return_address(0)) && o->owner == -1))
      point(self, OP_RDLOCK, o);
    o->readers++;
    HB_ACQ(l);
    return 0;
  }
  int pthread_rwlock_wrlock(pthread_rwlock_t *l)
  {
    Thr *self = cur();
    if (!self)
    {
      LOAD_REAL(pthread_rwlock_wrlock);
      return real_pthread_rwlock_wrlock(l);
    }
    poisonCheck(l, "rwlock wrlock");
    SyncObj *o;
    {
      RtGuard g;
      o = findObj(l);
    }
    if (!(quietCaller(__builtin_return_address(0)) && o->owner == -1 && o->readers == 0))
      point(self, OP_WRLOCK, o);
    o->owner = self->id;
    HB_ACQ(l);
    return 0;
  }
  int pthread_rwlock_tryrdlock(pthread_rwlock_t *l)
  {
    Thr *self = cur();
    if (!self)
    {
      LOAD_REAL(pthread_rwlock_tryrdlock);
      return real_pthread_rwlock_tryrdlock(l);
    }
    SyncObj *o;
    {
      RtGuard g;
      o = findObj(l);
    }
    point(self, OP_TRYLOCK, o);
    if (o->owner != -1)
      return EBUSY;
    o->readers++;
    HB_ACQ(l);
    return 0;
  }
  int pthread_rwlock_trywrlock(pthread_rwlock_t *l)
  {
    Thr *self = cur();
    if (!self)
    {
      LOAD_REAL(pthread_rwlock_trywrlock);
      return real_pthread_rwlock_trywrlock(l);
    }
    SyncObj *o;
    {
      RtGuard g;
      o = findObj(l);
    }
    point(self, OP_TRYLOCK, o);
    if (o->owner != -1 || o->readers)
      return EBUSY;
    o->owner = self->id;
    HB_ACQ(l);
    return 0;
  }
  int pthread_rwlock_unlock(pthread_rwlock_t *l)
  {
    Thr *self = cur();
    if (!self)
    {
      LOAD_REAL(pthread_rwlock_unlock);
      return real_pthread_rwlock_unlock(l);
    }
    poisonCheck(l, "rwlock unlock");
    SyncObj *o;
    {
      RtGuard g;
      o = findObj(l);
    }
    if (S.pointBeforeUnlock)
      point(self, OP_UNLOCK, o);
    HB_REL(l);
    if (o->owner == self->id)
      o->owner = -1;
    else if (o->readers > 0)
      o->readers--;
    return 0;
  }

  // ---- time ----
  int clock_gettime(clockid_t c, struct timespec *ts)
  {
    if (S.inChild && isVirtualClock(c))
    {
      uint64_t ns = isWallClock(c) ? wallNow() : S.monoNs;
      ts->tv_sec = time_t(ns / 1000000000ull);
      ts->tv_nsec = long(ns % 1000000000ull);
      return 0;
    }
    return int(raw_syscall6(SYS_clock_gettime, c, (long)ts, 0, 0, 0, 0));
  }
  int gettimeofday(struct timeval *tv, void *tz)
  {
    if (S.inChild)
    {
      uint64_t ns = wallNow();
      if (tv)
      {
        tv->tv_sec = time_t(ns / 1000000000ull);
        tv->tv_usec = suseconds_t((ns % 1000000000ull) / 1000);
      }
      return 0;
    }
    return int(raw_syscall6(SYS_gettimeofday, (long)tv, (long)tz, 0, 0, 0, 0));
  }
  time_t time(time_t *t)
  {
    time_t v;
    if (S.inChild)
      v = time_t(wallNow() / 1000000000ull);
    else
    {
      struct timespec ts;
      raw_syscall6(SYS_clock_gettime, CLOCK_REALTIME, (long)&ts, 0, 0, 0, 0);
      v = ts.tv_sec;
    }
    if (t)
      *t = v;
    return v;
  }
  int nanosleep(const struct timespec *req, struct timespec *rem)
  {
    Thr *self = cur();
    if (!self)
    {
      LOAD_REAL(nanosleep);
      return real_nanosleep(req, rem);
    }
    sleepUntil(self, S.monoNs + tsToNs(req));
    if (rem)
      rem->tv_sec = rem->tv_nsec = 0;
    return 0;
  }
  int clock_nanosleep(clockid_t c, int flags, const struct timespec *req, struct timespec *rem)
  {
    Thr *self = cur();
    if (!self)
    {
      LOAD_REAL(clock_nanosleep);
      return real_clock_nanosleep(c, flags, req, rem);
    }
    uint64_t dl = (flags & TIMER_ABSTIME) ? absToMonoDeadline(c, req) : S.monoNs + tsToNs(req);
    sleepUntil(self, dl);
    if (rem)
      rem->tv_sec = rem->tv_nsec = 0;
    return 0;
  }
  int usleep(useconds_t us)
  {
    Thr *self = cur();
    if (!self)
    {
      LOAD_REAL(usleep);
      return real_usleep(us);
    }
    sleepUntil(self, S.monoNs + uint64_t(us) * 1000ull);
    return 0;
  }
  unsigned sleep(unsigned s)
  {
    Thr *self = cur();
    if (!self)
    {
      LOAD_REAL(sleep);
      return real_sleep(s);
    }
    sleepUntil(self, S.monoNs + uint64_t(s) * 1000000000ull);
    return 0;
  }
  int sched_yield(void)
  {
    Thr *self = cur();
    if (!self)
    {
      LOAD_REAL(sched_yield);
      return real_sched_yield();
    }
    self->yieldEpoch = S.globalOps;
    point(self, OP_YIELD);
    return 0;
  }

  long syscall(long no, ...)
  {
    va_list ap;
    va_start(ap, no);
    long a = va_arg(ap, long), b = va_arg(ap, long), c = va_arg(ap, long), d = va_arg(ap, long), e = va_arg(ap, long), f = va_arg(ap, long);
    va_end(ap);
    if (no == SYS_futex)
    {
      Thr *self = cur();
      if (self)
        return futexModel(self, (int *)a, int(b), int(c), (const struct timespec *)d, int(f));
    }
    if (no == SYS_clock_gettime && S.inChild)
      return clock_gettime(clockid_t(a), (struct timespec *)b);
    long r = raw_syscall6(no, a, b, c, d, e, f);
    if (r < 0 && r > -4096)
    {
      errno = int(-r);
      return -1;
    }
    return r;
  }
} // extern "C"

extern "C" const char *__asan_default_options() { return "detect_leaks=0:abort_on_error=0:exitcode=77:allocator_may_return_null=1"; }

// =====================================================================================
// explorer (coordinator + workers)
// =====================================================================================
namespace
{
struct RunCfg
{
  const McScenario *sc = nullptr;
  McBounds b;
  bool verbose = false;
};

// Runs one execution in a forked child.  Returns false on watchdog kill / crash (status left RUNNING).
struct ChildOutcome
{
  bool exited = false;
  bool timedOut = false;
  int termSig = 0;
  int exitCode = 0;
};

void blockSigchld()
{
  sigset_t chld;
  sigemptyset(&chld);
  sigaddset(&chld, SIGCHLD);
  sigprocmask(SIG_BLOCK, &chld, nullptr);
}

ChildOutcome runChild(const RunCfg &cfg, const Prefix &p, ExecShared *ex, double timeoutS, const char *stderrPath)
{
  ex->status = ES_RUNNING;
  ex->clause[0] = ex->sig[0] = ex->detail[0] = 0;
  ex->npoints = 0;
  ex->steps = 0;
  ex->obsLen = 0;
  ex->obs[0] = 0;
  ex->truncatedOptions = ex->pointOverflow = ex->unmanagedOps = 0;
  fflush(nullptr);
  pid_t pid = fork();
  if (pid == 0)
  {
    prctl(PR_SET_PDEATHSIG, SIGKILL);
    {
      sigset_t chld;
      sigemptyset(&chld);
      sigaddset(&chld, SIGCHLD);
      sigprocmask(SIG_UNBLOCK, &chld, nullptr);
    }
    if (stderrPath)
    {
      int fd = open(stderrPath, O_WRONLY | O_CREAT | O_TRUNC, 0644);
      if (fd >= 0)
      {
        dup2(fd, 2);
        close(fd);
      }
    }
    // become the scheduler's thread 0
    // S is pristine here: workers never run scheduled code, so the forked image holds the initial Sched
    S.inChild = true;
    S.verbose = cfg.verbose;
    S.ex = ex;
    S.prefix = &p;
    S.prefixPos = 0;
    S.horizonNs = S.monoNs + uint64_t(cfg.sc->horizon_s * 1e9);
    S.pointBeforeUnlock = cfg.sc->point_before_unlock;
    S.spurious = cfg.sc->spurious_wakeups;
    S.chargeSwitch = cfg.b.S >= 0;
    Thr *t0 = newThr();
    snprintf(t0->label, sizeof t0->label, "main");
    t0->pt = pthread_self();
    t0->started = true;
    tl_self = t0;
    tl_inrt = 0;
    if (mcint_child_begin)
      mcint_child_begin();
    cfg.sc->body();
    ++tl_inrt;
    if (S.prefix && S.prefixPos < S.prefix->n)
      finishExec(ES_NONDET, "internal", "nondeterminism", "execution ended before all replayed deviations were consumed");
    finishExec(ES_OK, nullptr, "", "");
  }
  ChildOutcome out;
  double t0 = real_now_s();
  int st = 0;
  sigset_t chld;
  sigemptyset(&chld);
  sigaddset(&chld, SIGCHLD);
  for (;;)
  {
    pid_t r = waitpid(pid, &st, WNOHANG);
    if (r == pid)
      break;
    double left = timeoutS - (real_now_s() - t0);
    if (left <= 0)
    {
      kill(pid, SIGKILL);
      waitpid(pid, &st, 0);
      out.timedOut = true;
      return out;
    }
    if (left > 0.25)
      left = 0.25;
    struct timespec ts = {time_t(left), long((left - double(time_t(left))) * 1e9)};
    sigtimedwait(&chld, nullptr, &ts); // SIGCHLD is blocked in workers: wakes as soon as the child exits
  }
  if (WIFEXITED(st))
  {
    out.exited = true;
    out.exitCode = WEXITSTATUS(st);
  }
  else if (WIFSIGNALED(st))
    out.termSig = WTERMSIG(st);
  return out;
}

std::string prefixToString(const Prefix &p)
{
  std::string s;
  char b[32];
  for (int i = 0; i < p.n; ++i)
  {
    snprintf(b, sizeof b, "%s%u:%u", i ? "," : "", p.dev[i].idx, p.dev[i].alt);
    s += b;
  }
  return s;
}
bool prefixFromString(const std::string &s, Prefix &p)
{
  memset(&p, 0, sizeof p);
  size_t i = 0;
  while (i < s.size())
  {
    unsigned idx = 0, alt = 0;
    int used = 0;
    if (sscanf(s.c_str() + i, "%u:%u%n", &idx, &alt, &used) != 2)
      return false;
    if (p.n >= MAXDEV)
      return false;
    p.dev[p.n].idx = idx;
    p.dev[p.n].alt = uint8_t(alt);
    p.n++;
    i += size_t(used);
    if (i < s.size() && s[i] == ',')
      ++i;
  }
  return true;
}

bool pushWork(const Prefix &p)
{
  WorkStack &ws = G->ws;
  spin_lock(&ws.lock);
  if (ws.size >= ws.cap)
  {
    spin_unlock(&ws.lock);
    return false;
  }
  ws.slots[ws.size] = p;
  ws.size = ws.size + 1;
  if (ws.size > ws.maxSize)
    ws.maxSize = ws.size;
  spin_unlock(&ws.lock);
  return true;
}
// 1 = got one, 0 = finished
int popWork(Prefix &p)
{
  WorkStack &ws = G->ws;
  for (;;)
  {
    spin_lock(&ws.lock);
    if (ws.stop)
    {
      spin_unlock(&ws.lock);
      return 0;
    }
    if (ws.size > 0)
    {
      ws.size = ws.size - 1;
      p = ws.slots[ws.size];
      ws.inflight = ws.inflight + 1;
      spin_unlock(&ws.lock);
      return 1;
    }
    if (ws.inflight == 0)
    {
      spin_unlock(&ws.lock);
      return 0;
    }
    spin_unlock(&ws.lock);
    struct timespec ts = {0, 200000};
    raw_syscall6(SYS_nanosleep, (long)&ts, 0, 0, 0, 0, 0);
  }
}
void doneWork()
{
  WorkStack &ws = G->ws;
  spin_lock(&ws.lock);
  ws.inflight = ws.inflight - 1;
  spin_unlock(&ws.lock);
}

std::string readSmall(const char *path, size_t cap = 3000)
{
  std::string s = vr::readFile(path);
  if (s.size() > cap)
    s = s.substr(0, cap / 2) + "\n...\n" + s.substr(s.size() - cap / 2);
  return s;
}

struct WorkerCtx
{
  RunCfg cfg;
  int w = 0;
  ExecShared *ex = nullptr;
  std::string outPrefix;
  std::string scenarioName;
  std::string tier;
  FILE *nextLayer = nullptr;
  double deadlineAt = 0;
  vr::Report *rep = nullptr;
  uint64_t localExecs = 0;
};

std::string caseString(const WorkerCtx &c, const Prefix &p)
{
  return "scenario=" + c.scenarioName + ";tier=" + c.tier + ";choices=" + prefixToString(p);
}

void processPrefix(WorkerCtx &c, const Prefix &p)
{
  char errPath[512];
  snprintf(errPath, sizeof errPath, "%s.w%d.stderr", c.outPrefix.c_str(), c.w);
  ChildOutcome o = runChild(c.cfg, p, c.ex, c.cfg.sc->exec_timeout_s, errPath);
  ExecShared *ex = c.ex;
  __atomic_fetch_add(&G->executions, 1, __ATOMIC_RELAXED);
  c.localExecs++;
  vr::Report &r = *c.rep;
  r.evaluations++;
  r.traces++;
  if (o.timedOut)
  {
    // re-run alone with a longer limit before calling it a hang
    ChildOutcome o2 = runChild(c.cfg, p, c.ex, c.cfg.sc->exec_timeout_s * 4, errPath);
    if (o2.timedOut)
    {
      r.violation("terminates", "real-time-hang", caseString(c, p),
                  "execution exceeded the real-time watchdog twice (" + std::to_string(c.cfg.sc->exec_timeout_s * 4) +
                      " s): a loop without scheduling points");
      __atomic_fetch_add(&G->violations, 1, __ATOMIC_RELAXED);
      return;
    }
    o = o2;
  }
  if (ex->status == ES_RUNNING)
  {
    // child died without reporting: crash / sanitizer abort
    std::string err = readSmall(errPath);
    char d[128];
    snprintf(d, sizeof d, "child died: signal=%d exit=%d; ", o.termSig, o.exitCode);
    std::string sig = "crash";
    size_t k = err.find("ERROR: AddressSanitizer: ");
    if (k != std::string::npos)
    {
      size_t e = err.find_first_of(" \n", k + 25);
      sig = "asan:" + err.substr(k + 25, e - (k + 25));
    }
    else if (err.find("runtime error:") != std::string::npos)
      sig = "ubsan";
    else if (err.find("terminate called") != std::string::npos)
      sig = "terminate";
    // confirm determinism of the crash
    Prefix dp = p;
    ChildOutcome o3 = runChild(c.cfg, dp, c.ex, c.cfg.sc->exec_timeout_s * 2, errPath);
    if (c.ex->status != ES_RUNNING)
    {
      __atomic_fetch_add(&G->nondet, 1, __ATOMIC_RELAXED);
      r.violation("harness-internal", "nondeterministic-crash", caseString(c, p), std::string(d) + "crash did not reproduce on replay\n" + err);
      return;
    }
    (void)o3;
    r.violation("no-crash-no-ub", sig, caseString(c, p), std::string(d) + err);
    __atomic_fetch_add(&G->violations, 1, __ATOMIC_RELAXED);
    return;
  }
  uint32_t np = ex->npoints;
  __atomic_fetch_add(&G->transitions, ex->steps, __ATOMIC_RELAXED);
  __atomic_fetch_add(&G->points, np, __ATOMIC_RELAXED);
  r.transitions += ex->steps;
  if (ex->truncatedOptions || ex->pointOverflow)
    __atomic_fetch_add(&G->truncated, 1, __ATOMIC_RELAXED);
  if (np > G->maxPoints)
    G->maxPoints = np;
  if (ex->steps > G->maxSteps)
    G->maxSteps = ex->steps;
  G->outcomes.insert(mix64(ex->obsHash, uint64_t(ex->status)));
  if (ex->status == ES_NONDET || ex->status == ES_INTERNAL)
  {
    __atomic_fetch_add(ex->status == ES_NONDET ? &G->nondet : &G->internal, 1, __ATOMIC_RELAXED);
    r.violation("harness-internal", ex->sig, caseString(c, p), ex->detail);
    return;
  }
  r.sampleEvery(997, caseString(c, p) + " => " + (ex->status == ES_OK ? "ok" : ex->clause) + " points=" + std::to_string(np) +
                         " steps=" + std::to_string(ex->steps) + " obs=" + std::string(ex->obs).substr(0, 300));
  if (ex->status == ES_VIOLATION)
  {
    // replay-twice rule: the sparse prefix p plus default choices determines the execution
    std::string clause = ex->clause, sig = ex->sig, detail = ex->detail, obs = ex->obs;
    uint64_t oh = ex->obsHash;
    uint32_t np0 = ex->npoints;
    bool same = true;
    for (int k = 0; k < 2 && same; ++k)
    {
      runChild(c.cfg, p, c.ex, c.cfg.sc->exec_timeout_s * 2, errPath);
      same = c.ex->status == ES_VIOLATION && clause == c.ex->clause && sig == c.ex->sig && oh == c.ex->obsHash && np0 == c.ex->npoints;
    }
    if (!same)
    {
      __atomic_fetch_add(&G->nondet, 1, __ATOMIC_RELAXED);
      r.violation("harness-internal", "violation-not-reproducible", caseString(c, p),
                  "violation " + clause + "/" + sig + " did not replay identically: " + detail);
      return;
    }
    __atomic_fetch_add(&G->violations, 1, __ATOMIC_RELAXED);
    r.violation(clause.c_str(), sig, caseString(c, p),
                detail + "\n--- observations ---\n" + obs.substr(0, 1500) + "\ncost(P,T,E,S)=" + std::to_string(p.cost[1]) + "," +
                    std::to_string(p.cost[2]) + "," + std::to_string(p.cost[3]) + "," + std::to_string(p.cost[4]));
    np = c.ex->npoints;
  }
  // expand alternatives after the last deviation
  uint32_t from = p.n ? p.dev[p.n - 1].idx + 1 : 0;
  const McBounds &b = c.cfg.b;
  int totalCap = b.total >= 0 ? b.total : b.P + b.T + b.E + (b.S > 0 ? b.S : 0);
  for (uint32_t i = from; i < np; ++i)
  {
    const TracePoint &tp = ex->pts[i];
    for (int alt = 1; alt < tp.n; ++alt)
    {
      int cls = tp.cost[alt];
      Prefix q = p;
      if (cls)
      {
        q.cost[cls]++;
        if (q.cost[1] > b.P || q.cost[2] > b.T || q.cost[3] > b.E || (b.S >= 0 && q.cost[4] > b.S) || q.total() > totalCap)
          continue;
      }
      if (q.n >= MAXDEV)
      {
        __atomic_fetch_add(&G->truncated, 1, __ATOMIC_RELAXED);
        continue;
      }
      q.dev[q.n].idx = i;
      q.dev[q.n].alt = uint8_t(alt);
      q.n++;
      q.hashAtLast = ex->roll[i];
      if (cls == 0)
      {
        if (!pushWork(q))
          __atomic_fetch_add(&G->capHit, 1, __ATOMIC_RELAXED);
      }
      else
        fwrite(&q, sizeof q, 1, c.nextLayer);
    }
  }
}

} // namespace

void (*mcint_child_begin)() = nullptr;

static int replayOne(const std::vector<McScenario> &scenarios, const std::string &kase)
{
  // case: scenario=<name>;tier=<t>;choices=<list>
  std::map<std::string, std::string> kv;
  size_t i = 0;
  while (i < kase.size())
  {
    size_t e = kase.find(';', i);
    if (e == std::string::npos)
      e = kase.size();
    std::string item = kase.substr(i, e - i);
    size_t q = item.find('=');
    if (q != std::string::npos)
      kv[item.substr(0, q)] = item.substr(q + 1);
    i = e + 1;
  }
  while (!kv["choices"].empty() && (kv["choices"].back() == '\n' || kv["choices"].back() == ' '))
    kv["choices"].pop_back();
  const McScenario *sc = nullptr;
  for (auto &s : scenarios)
    if (s.name == kv["scenario"])
      sc = &s;
  if (!sc)
  {
    fprintf(stderr, "replay: unknown scenario '%s'\n", kv["scenario"].c_str());
    return 2;
  }
  Prefix p;
  if (!prefixFromString(kv["choices"], p))
  {
    fprintf(stderr, "replay: bad choice list\n");
    return 2;
  }
  ExecShared *ex = (ExecShared *)mmap(nullptr, sizeof(ExecShared), PROT_READ | PROT_WRITE, MAP_SHARED | MAP_ANONYMOUS, -1, 0);
  RunCfg cfg;
  cfg.sc = sc;
  cfg.b = kv["tier"] == "thorough" ? sc->thorough : sc->quick;
  cfg.verbose = true;
  blockSigchld();
  printf("== replay scenario=%s choices=%s\n", sc->name.c_str(), kv["choices"].c_str());
  ChildOutcome o = runChild(cfg, p, ex, sc->exec_timeout_s * 4, nullptr);
  if (o.timedOut)
  {
    printf("== replay: real-time hang reproduced\n");
    return 1;
  }
  if (ex->status == ES_RUNNING)
  {
    printf("== replay: child crashed (signal %d, exit %d)\n", o.termSig, o.exitCode);
    return 1;
  }
  printf("== replay result: status=%d clause=%s sig=%s\n%s\n", ex->status, ex->clause, ex->sig, ex->detail);
  return ex->status == ES_VIOLATION ? 1 : (ex->status == ES_OK ? 0 : 2);
}

int mc_main(int argc, char **argv, const char *part, const std::vector<McScenario> &scenarios)
{
  vr::Args args(argc, argv);
  if (!args.replay.empty())
    return replayOne(scenarios, vr::readFile(args.replay));
  double deadlineS = double(args.getInt("deadline", 600));
  double tStart = real_now_s();
  std::string only = args.get("only");
  int W = args.jobs;

  G = (Global *)mmap(nullptr, sizeof(Global), PROT_READ | PROT_WRITE, MAP_SHARED | MAP_ANONYMOUS, -1, 0);
  memset(G, 0, sizeof *G);
  G->ws.cap = 1 << 21;
  G->ws.slots = (Prefix *)mmap(nullptr, sizeof(Prefix) * size_t(G->ws.cap), PROT_READ | PROT_WRITE, MAP_SHARED | MAP_ANONYMOUS | MAP_NORESERVE, -1, 0);
  ExecShared *exs = (ExecShared *)mmap(nullptr, sizeof(ExecShared) * size_t(W), PROT_READ | PROT_WRITE, MAP_SHARED | MAP_ANONYMOUS | MAP_NORESERVE, -1, 0);
  if (G->ws.slots == MAP_FAILED || exs == MAP_FAILED)
  {
    fprintf(stderr, "mmap failed\n");
    return 2;
  }

  vr::Report total(part, "model_checking");
  total.rule = "stateless model checking of the real code under a cooperative scheduler: every choice sequence (thread switch at each "
               "hooked synchronisation operation, timer expiry, environment answer) within the deviation bounds is executed once in a "
               "forked child; distinct_nontrivial = distinct terminal observation logs; states = distinct scheduler-state hashes at choice "
               "points; transitions = operations executed";
  bool allExhaustive = true;
  int si = 0;
  for (const McScenario &sc : scenarios)
  {
    ++si;
    if (!only.empty() && sc.name != only)
      continue;
    RunCfg cfg;
    cfg.sc = &sc;
    cfg.b = args.thorough() ? sc.thorough : sc.quick;
    int totalCap = cfg.b.total >= 0 ? cfg.b.total : cfg.b.P + cfg.b.T + cfg.b.E + (cfg.b.S > 0 ? cfg.b.S : 0);
    // fresh global counters per scenario
    G->states.init(1 << 22);
    G->outcomes.init(1 << 18);
    G->executions = G->transitions = G->points = G->violations = G->deadlineHit = G->capHit = G->truncated = G->nondet = G->internal = 0;
    G->maxPoints = G->maxSteps = 0;
    double scStart = real_now_s();
    // share remaining time evenly among remaining scenarios
    double remainingW = 0;
    {
      int k = 0;
      for (auto &s2 : scenarios)
      {
        ++k;
        if (k >= si && (only.empty() || s2.name == only))
          remainingW += s2.weight;
      }
    }
    double remainingT = deadlineS - (scStart - tStart);
    double budget = remainingT * sc.weight / (remainingW > 0 ? remainingW : 1);
    if (budget < 5)
      budget = 5;
    // most scenarios need far less than their share, a few need more: let one scenario overdraw up to three shares
    // (never more than a fifth of what is left), the unused time of the cheap ones pays for it
    double over = budget * 3 < remainingT * 0.2 ? budget * 3 : remainingT * 0.2;
    if (over > budget)
      budget = over;
    double deadlineAt = scStart + budget;

    std::vector<Prefix> layer;
    Prefix root;
    memset(&root, 0, sizeof root);
    layer.push_back(root);
    int completedBound = -1;
    bool scExhaustive = true;
    for (int level = 0; level <= totalCap && !layer.empty(); ++level)
    {
      // load the layer into the shared stack
      G->ws.size = 0;
      G->ws.inflight = 0;
      G->ws.stop = 0;
      for (auto &p : layer)
        if (!pushWork(p))
          G->capHit++;
      layer.clear();
      layer.shrink_to_fit();
      std::vector<pid_t> pids;
      for (int w = 0; w < W; ++w)
      {
        fflush(nullptr);
        pid_t pid = fork();
        if (pid == 0)
        {
          prctl(PR_SET_PDEATHSIG, SIGKILL);
          blockSigchld();
          {
            // Pin the worker (and thereby every thread of its execution children) to one CPU: exactly one
            // scheduler thread runs at a time, so a hand-off becomes a same-core context switch instead of a
            // cross-core wake-up that has to queue behind unrelated load.
            long ncpu = sysconf(_SC_NPROCESSORS_ONLN);
            if (ncpu > 0 && !getenv("MC_NO_PIN"))
            {
              cpu_set_t set;
              CPU_ZERO(&set);
              CPU_SET(int(w % ncpu), &set);
              sched_setaffinity(0, sizeof set, &set);
            }
          }
          WorkerCtx c;
          c.cfg = cfg;
          c.w = w;
          c.ex = &exs[w];
          c.outPrefix = args.out + "." + sc.name;
          c.scenarioName = sc.name;
          c.tier = args.tier;
          c.deadlineAt = deadlineAt;
          vr::Report rep(part, "model_checking");
          c.rep = &rep;
          char nl[600];
          snprintf(nl, sizeof nl, "%s.w%d.L%d.next", c.outPrefix.c_str(), w, level + 1);
          c.nextLayer = fopen(nl, "wb");
          if (!c.nextLayer)
            _exit(3);
          Prefix p;
          while (popWork(p))
          {
            if (real_now_s() > c.deadlineAt || (sc.max_executions && G->executions >= sc.max_executions))
            {
              G->deadlineHit = 1;
              G->ws.stop = 1;
              doneWork();
              break;
            }
            processPrefix(c, p);
            doneWork();
          }
          fclose(c.nextLayer);
          char suf[128];
          snprintf(suf, sizeof suf, ".w%d.L%d.json", w, level);
          rep.write(c.outPrefix + suf);
          _exit(0);
        }
        pids.push_back(pid);
      }
      bool workerFailed = false;
      for (pid_t pid : pids)
      {
        int st = 0;
        waitpid(pid, &st, 0);
        if (!(WIFEXITED(st) && WEXITSTATUS(st) == 0))
          workerFailed = true;
      }
      if (workerFailed)
      {
        fprintf(stderr, "mc: a worker process failed in scenario %s level %d\n", sc.name.c_str(), level);
        return 2;
      }
      // collect next layer
      for (int w = 0; w < W; ++w)
      {
        char nl[600];
        snprintf(nl, sizeof nl, "%s.%s.w%d.L%d.next", args.out.c_str(), sc.name.c_str(), w, level + 1);
        FILE *f = fopen(nl, "rb");
        if (f)
        {
          Prefix p;
          while (fread(&p, sizeof p, 1, f) == 1)
            layer.push_back(p);
          fclose(f);
          unlink(nl);
        }
        char ep[600];
        snprintf(ep, sizeof ep, "%s.%s.w%d.stderr", args.out.c_str(), sc.name.c_str(), w);
        unlink(ep);
      }
      if (G->deadlineHit || G->capHit)
      {
        scExhaustive = false;
        break;
      }
      completedBound = level;
      if (level == totalCap)
        layer.clear();
    }
    if (!layer.empty() && completedBound < totalCap && !G->deadlineHit)
      scExhaustive = false;
    if (G->truncated)
      scExhaustive = false;
    allExhaustive = allExhaustive && scExhaustive;
    // scenario summary part (counters only; worker parts carry evaluations/violations)
    std::string k = sc.name + ".";
    total.counters[k + "executions"] = G->executions;
    total.counters[k + "distinct_outcomes"] = *G->outcomes.count;
    total.counters[k + "states"] = *G->states.count;
    total.counters[k + "transitions"] = G->transitions;
    total.counters[k + "choice_points"] = G->points;
    total.counters[k + "max_points_per_execution"] = G->maxPoints;
    total.counters[k + "completed_deviation_bound"] = uint64_t(completedBound < 0 ? 0 : completedBound);
    total.counters[k + "violations"] = G->violations;
    total.counters[k + "exhaustive_within_bounds"] = scExhaustive ? 1 : 0;
    total.counters[k + "nondeterminism_errors"] = G->nondet;
    total.counters[k + "internal_errors"] = G->internal;
    total.states += *G->states.count;
    total.distinct_nontrivial += *G->outcomes.count;
    char bb[128];
    snprintf(bb, sizeof bb, "P<=%d T<=%d E<=%d S%s%d total<=%d", cfg.b.P, cfg.b.T, cfg.b.E, cfg.b.S < 0 ? " unbounded " : "<=", cfg.b.S, totalCap);
    total.bounds[sc.name] = bb;
    if (!scExhaustive)
      total.notes.push_back("scenario " + sc.name + ": not exhaustive within bounds (deadline/cap/truncation); completed deviation bound " +
                            std::to_string(completedBound));
    fprintf(stderr, "[mc] %s/%s: executions=%llu outcomes=%llu states=%llu transitions=%llu bound_completed=%d exhaustive=%d violations=%llu (%.1fs)\n",
            part, sc.name.c_str(), (unsigned long long)G->executions, (unsigned long long)*G->outcomes.count,
            (unsigned long long)*G->states.count, (unsigned long long)G->transitions, completedBound, int(scExhaustive),
            (unsigned long long)G->violations, real_now_s() - scStart);
    munmap(G->states.tab, G->states.cap * 8 + 64);
    munmap(G->outcomes.tab, G->outcomes.cap * 8 + 64);
    if (G->nondet || G->internal)
    {
      fprintf(stderr, "mc: nondeterminism/internal errors in scenario %s\n", sc.name.c_str());
    }
  }
  total.exhaustive = allExhaustive;
  total.write(args.out + ".summary.json");
  return 0;
}

// crashfs: file-operation recorder for crash-consistency enumeration (DESIGN.md §2.6).
//
// Link-time interposition, from the harness executable, of the libc entry points through which the
// code under test (libstdc++ fstream / std::filesystem, plus direct POSIX calls) mutates files:
//   fopen64/fopen/open/open64/openat/openat64/creat  (creation / truncation decoded from mode / flags)
//   write/writev/pwrite/pwrite64, ftruncate/truncate, rename/renameat/renameat2,
//   unlink/unlinkat/remove, fsync/fdatasync, fclose/close
// Everything is forwarded to the real function (dlsym(RTLD_NEXT)).  While recording is on, every
// *mutation* of a file below the recording root is appended to an in-memory log together with its
// payload; the harness brackets each store API call with begin/end markers.  Calls that could change
// files below the root in a way the log cannot express (dup of a tracked fd, stdio writes to a tracked
// FILE*, link/symlink/mkdir/sendfile, *at() calls relative to a directory fd) only set an
// "unmodelled" flag that the harness must report as a harness-internal error.
//
// Process-crash model: what reached the operating system survives, in order.  The image after a log
// prefix (with the last write cut at any byte) is rebuilt by cfs::Image::apply / applyPartial.
#pragma once
#include <cstdint>
#include <map>
#include <string>
#include <vector>

namespace cfs
{
enum Kind : uint8_t
{
  BEGIN = 0, // marker: API call `op` starts
  END = 1,   // marker: API call `op` returned
  OPEN = 2,  // open that created the file and/or truncated it (flags say which)
  WRITE = 3, // data written at offset off (append: off = size of the file at that moment)
  TRUNC = 4, // (f)truncate to len
  RENAME = 5,
  UNLINK = 6,
  SYNC = 7, // fsync / fdatasync (no effect on the image in the process-crash model)
};

struct Event
{
  Kind kind = BEGIN;
  int op = 0;              // marker: op index; otherwise index of the enclosing op (or -2 outside any)
  std::string path, path2; // relative to the recording root
  bool created = false, truncated = false;
  uint64_t off = 0, len = 0;
  std::string data;
  bool mutation() const { return kind == OPEN || kind == WRITE || kind == TRUNC || kind == RENAME || kind == UNLINK; }
};

// Start recording mutations of files below `root` (absolute path, no trailing slash); clears the log.
void start(const std::string &root);
// Stop recording (tracked descriptors are forgotten).
void stop();
bool recording();
void mark(Kind beginOrEnd, int op);
// The log recorded since start().
const std::vector<Event> &log();
// Non-zero if something happened below the root that the log cannot express; what() names it.
uint64_t unmodelled();
std::string unmodelledWhat();
// Number of interposed calls seen while recording (sanity: proves the interposition is live).
uint64_t hookCalls();
// Process-crash model: fsync/fdatasync do not change what survives.  When on, they return 0 without
// reaching the disk (whether recording or not), which keeps millions of recoveries off the journal.
void elideSync(bool on);

std::string describe(const Event &e);

// In-memory directory image: relative path -> contents.
struct Image
{
  std::map<std::string, std::string> files;
  void apply(const Event &e);                     // whole event
  void applyPartial(const Event &e, uint64_t cut); // WRITE only: first `cut` bytes
  uint64_t hash() const;
  // Materialise under `dir` (absolute, must exist): afterwards the directory holds exactly the image.
  // Uses the real (non-recorded) system calls.  Returns false on I/O error.
  bool materialise(const std::string &dir) const;
  // Read a directory (flat) into an image.
  static Image readDir(const std::string &dir);
};

// rm -rf for a flat scratch directory (files only) + the directory itself.
void removeTree(const std::string &dir);
bool makeDirs(const std::string &dir);
} // namespace cfs

// Common result ("part") writer for all harnesses.  Header-only, no dependencies on iora.
//
// A harness run produces one or more part files <out>*.json; bin/check merges them (sums the
// counters, concatenates samples and violations), matches violations against
// /verif/known_findings.jsonl and writes /verif/evidence/<id>.json.
#pragma once
#include <cstdint>
#include <cstdio>
#include <cstring>
#include <map>
#include <set>
#include <string>
#include <vector>

namespace vr
{

inline std::string hex(const std::string &s)
{
  static const char *d = "0123456789abcdef";
  std::string o;
  o.reserve(s.size() * 2);
  for (unsigned char c : s)
  {
    o.push_back(d[c >> 4]);
    o.push_back(d[c & 15]);
  }
  return o;
}

inline std::string unhex(const std::string &h)
{
  auto v = [](char c) -> int
  { return c >= '0' && c <= '9' ? c - '0' : c >= 'a' && c <= 'f' ? c - 'a' + 10 : c >= 'A' && c <= 'F' ? c - 'A' + 10 : 0; };
  std::string o;
  for (size_t i = 0; i + 1 < h.size(); i += 2)
    o.push_back(char(v(h[i]) * 16 + v(h[i + 1])));
  return o;
}

// JSON string literal; bytes outside printable ASCII are written as \u00XX (display only:
// exact bytes of a case always travel in the separate hex field).
inline std::string jstr(const std::string &s)
{
  std::string o = "\"";
  char b[8];
  for (unsigned char c : s)
  {
    if (c == '"')
      o += "\\\"";
    else if (c == '\\')
      o += "\\\\";
    else if (c == '\n')
      o += "\\n";
    else if (c == '\r')
      o += "\\r";
    else if (c == '\t')
      o += "\\t";
    else if (c < 0x20 || c >= 0x7f)
    {
      snprintf(b, sizeof b, "\\u%04x", c);
      o += b;
    }
    else
      o.push_back(char(c));
  }
  o += "\"";
  return o;
}

struct Violation
{
  std::string clause; // id of the oracle clause that failed
  std::string sig;    // structural signature of the (minimal) failing case, used for known-finding matching
  std::string kase;   // exact replayable case (bytes); written as hex + display text
  std::string detail; // human-readable explanation (expected / got)
};

class Report
{
public:
  std::string part;
  std::string level = "exploration";
  uint64_t evaluations = 0;         // cases generated / executions run
  uint64_t distinct_nontrivial = 0; // measured; rule below says what counts
  uint64_t states = 0, transitions = 0, traces = 0;
  std::string rule;
  bool exhaustive = true; // false if any cap / deadline was hit
  std::map<std::string, std::string> bounds;   // free-form "name" -> value (strings)
  std::map<std::string, uint64_t> counters;    // any extra measured counts
  std::vector<std::string> samples;
  std::vector<std::string> notes;
  size_t max_samples = 8;
  size_t keep_per_sig = 3;

  explicit Report(std::string p = "", std::string lvl = "exploration") : part(std::move(p)), level(std::move(lvl)) {}

  void sample(const std::string &s)
  {
    if (samples.size() < max_samples)
      samples.push_back(s);
  }
  // Sample every k-th call so the samples are spread over the enumeration.
  void sampleEvery(uint64_t k, const std::string &s)
  {
    if (k == 0 || (_sampleTick++ % k) == 0)
      sample(s);
  }

  void violation(const std::string &clause, const std::string &sig, const std::string &kase, const std::string &detail)
  {
    ++violation_total;
    std::string key = clause + "/" + sig;
    uint64_t &n = sig_counts[key];
    ++n;
    if (n <= keep_per_sig)
      violations.push_back(Violation{clause, sig, kase, detail});
  }

  uint64_t violation_total = 0;
  std::map<std::string, uint64_t> sig_counts;
  std::vector<Violation> violations;

  bool write(const std::string &path) const
  {
    FILE *f = fopen((path + ".tmp").c_str(), "w");
    if (!f)
      return false;
    fprintf(f, "{\n \"part\": %s,\n \"level\": %s,\n", jstr(part).c_str(), jstr(level).c_str());
    fprintf(f, " \"evaluations\": %llu,\n \"distinct_nontrivial\": %llu,\n", (unsigned long long)evaluations,
            (unsigned long long)distinct_nontrivial);
    fprintf(f, " \"states\": %llu,\n \"transitions\": %llu,\n \"traces_validated_against_impl\": %llu,\n",
            (unsigned long long)states, (unsigned long long)transitions, (unsigned long long)traces);
    fprintf(f, " \"rule\": %s,\n \"exhaustive\": %s,\n", jstr(rule).c_str(), exhaustive ? "true" : "false");
    fprintf(f, " \"bounds\": {");
    bool first = true;
    for (auto &kv : bounds)
    {
      fprintf(f, "%s%s: %s", first ? "" : ", ", jstr(kv.first).c_str(), jstr(kv.second).c_str());
      first = false;
    }
    fprintf(f, "},\n \"counters\": {");
    first = true;
    for (auto &kv : counters)
    {
      fprintf(f, "%s%s: %llu", first ? "" : ", ", jstr(kv.first).c_str(), (unsigned long long)kv.second);
      first = false;
    }
    fprintf(f, "},\n \"samples\": [");
    for (size_t i = 0; i < samples.size(); ++i)
      fprintf(f, "%s%s", i ? ", " : "", jstr(samples[i]).c_str());
    fprintf(f, "],\n \"notes\": [");
    for (size_t i = 0; i < notes.size(); ++i)
      fprintf(f, "%s%s", i ? ", " : "", jstr(notes[i]).c_str());
    fprintf(f, "],\n \"violation_total\": %llu,\n \"violation_sigs\": {", (unsigned long long)violation_total);
    first = true;
    for (auto &kv : sig_counts)
    {
      fprintf(f, "%s%s: %llu", first ? "" : ", ", jstr(kv.first).c_str(), (unsigned long long)kv.second);
      first = false;
    }
    fprintf(f, "},\n \"violations\": [");
    for (size_t i = 0; i < violations.size(); ++i)
    {
      const Violation &v = violations[i];
      fprintf(f, "%s\n  {\"clause\": %s, \"sig\": %s, \"case\": %s, \"case_hex\": \"%s\", \"detail\": %s}", i ? "," : "",
              jstr(v.clause).c_str(), jstr(v.sig).c_str(), jstr(v.kase.substr(0, 400)).c_str(), hex(v.kase).c_str(),
              jstr(v.detail.substr(0, 1000)).c_str());
    }
    fprintf(f, "]\n}\n");
    fclose(f);
    return rename((path + ".tmp").c_str(), path.c_str()) == 0;
  }

private:
  uint64_t _sampleTick = 0;
};

// Minimal argv helper shared by harnesses:  --tier quick|thorough  --out <prefix>  --jobs N
// --replay <file>  plus free "--key value" pairs.
struct Args
{
  std::string tier = "quick";
  std::string out = "/verif/build/out/part";
  std::string replay;
  int jobs = 16;
  std::map<std::string, std::string> kv;
  Args(int argc, char **argv)
  {
    for (int i = 1; i < argc; ++i)
    {
      std::string a = argv[i];
      auto next = [&]() -> std::string { return i + 1 < argc ? argv[++i] : ""; };
      if (a == "--tier")
        tier = next();
      else if (a == "--out")
        out = next();
      else if (a == "--replay")
        replay = next();
      else if (a == "--jobs")
        jobs = atoi(next().c_str());
      else if (a.rfind("--", 0) == 0)
        kv[a.substr(2)] = next();
    }
    if (jobs < 1)
      jobs = 1;
  }
  bool thorough() const { return tier == "thorough"; }
  std::string get(const std::string &k, const std::string &d = "") const
  {
    auto it = kv.find(k);
    return it == kv.end() ? d : it->second;
  }
  long getInt(const std::string &k, long d) const
  {
    auto it = kv.find(k);
    return it == kv.end() ? d : atol(it->second.c_str());
  }
};

inline std::string readFile(const std::string &p)
{
  std::string s;
  FILE *f = fopen(p.c_str(), "rb");
  if (!f)
    return s;
  char buf[65536];
  size_t n;
  while ((n = fread(buf, 1, sizeof buf, f)) > 0)
    s.append(buf, n);
  fclose(f);
  return s;
}

} // namespace vr

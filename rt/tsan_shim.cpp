// TSan-ABI shim: our own implementation of the functions gcc emits under -fsanitize=thread
// (used ONLY as an instrumentation mechanism; libtsan is not linked).  It gives the scheduler
//   (1) scheduling points at atomic operations on *watched* memory, and
//   (2) an in-family data-race detector: happens-before as the C++ memory model defines it
//       (vector clocks: release/acquire on atomics incl. release sequences and fences, mutexes,
//       thread create/join), checked FastTrack-style for plain accesses to watched memory on
//       every interleaving the explorer enumerates (executions are SC under the scheduler).
// Approximations only ever ADD happens-before edges (can hide a race, never invent one).
// Compiled without sanitizer instrumentation.
#include "mc.h"
#include "mc_internal.h"
#include "tsan_shim.h"

#include <cstdio>
#include <cstring>
#include <string>

namespace
{
constexpr int NT = 16; // threads tracked by the race detector
typedef uint32_t VC[NT];

struct Range
{
  uintptr_t lo, hi;
  char name[40];
  bool points; // atomics inside are scheduling points
  struct Cell *shadow;
};
struct Cell
{
  uint32_t wclk;
  int8_t wtid;
  uint8_t wlabel; // index into label table of the writer's label at the time
  uint8_t rlabel[NT];
  uint32_t rclk[NT];
};

struct SyncVar
{
  uintptr_t addr;
  VC L;
  int relOwner;
  bool used;
};

constexpr int NSV = 1 << 14;
SyncVar sv[NSV];
Range ranges[32];
int nranges = 0;
VC C[NT];          // thread clocks
VC acqPending[NT]; // join of L_x of relaxed loads (for acquire fences)
VC relFence[NT];   // snapshot at last release fence
bool hasRelFence[NT];
VC fenceSC;
bool inited[NT];
char labels[256][96];
int nlabels = 0;
bool enabled = true;

inline void vcJoin(VC a, const VC b)
{
  for (int i = 0; i < NT; ++i)
    if (b[i] > a[i])
      a[i] = b[i];
}
inline void vcCopy(VC a, const VC b) { memcpy(a, b, sizeof(VC)); }

SyncVar *getSV(const void *p)
{
  uintptr_t a = (uintptr_t)p;
  size_t h = (a >> 2) * 0x9E3779B97F4A7C15ull >> 50;
  for (int i = 0; i < NSV; ++i)
  {
    SyncVar &s = sv[(h + i) & (NSV - 1)];
    if (!s.used)
    {
      s.used = true;
      s.addr = a;
      s.relOwner = -1;
      return &s;
    }
    if (s.addr == a)
      return &s;
  }
  mcint_internal_error("tsan shim: sync var table full");
}

inline int tid()
{
  int t = mcint_tid();
  if (t < 0)
    return -1;
  if (t >= NT)
    mcint_internal_error("tsan shim: too many threads for the race detector");
  if (!inited[t])
  {
    inited[t] = true;
    if (C[t][t] == 0)
      C[t][t] = 1;
  }
  return t;
}

Range *findRange(uintptr_t a)
{
  for (int i = 0; i < nranges; ++i)
    if (a >= ranges[i].lo && a < ranges[i].hi)
      return &ranges[i];
  return nullptr;
}

int curLabel(int t)
{
  const char *l = mcint_thread_label(t);
  for (int i = 0; i < nlabels; ++i)
    if (!strcmp(labels[i], l))
      return i;
  if (nlabels < 255)
  {
    snprintf(labels[nlabels], sizeof labels[0], "%s", l);
    return nlabels++;
  }
  return 0;
}

[[noreturn]] void reportRace(Range *r, uintptr_t a, const char *kind, int t, int other, int otherLabel, bool otherWrite, void *pc)
{
  char sig[400], det[600];
  // signature: watched range + access kinds (thread labels go into the detail text only, so that one defect
  // does not fan out into one signature per scenario)
  snprintf(sig, sizeof sig, "race:%s:%s~%s", r->name, kind, otherWrite ? "write" : "read");
  snprintf(det, sizeof det,
           "data race on %s+%zu: %s by T%d (%s, pc=%p) is not ordered by happens-before after the earlier %s by T%d (%s)", r->name,
           size_t(a - r->lo), kind, t, mcint_thread_label(t), pc, otherWrite ? "write" : "read", other, labels[otherLabel]);
  mc_violation("no-data-race", sig, det);
}

inline void access(const void *p, size_t n, bool write, void *pc)
{
  if (!enabled || nranges == 0)
    return;
  uintptr_t a = (uintptr_t)p;
  Range *r = findRange(a);
  if (!r)
    return;
  int t = tid();
  if (t < 0)
    return;
  int lab = -1;
  for (size_t i = 0; i < n && a + i < r->hi; ++i)
  {
    Cell &c = r->shadow[a + i - r->lo];
    if (c.wtid >= 0 && c.wtid != t && c.wclk > C[t][c.wtid])
      reportRace(r, a + i, write ? "write" : "read", t, c.wtid, c.wlabel, true, pc);
    if (write)
    {
      for (int u = 0; u < NT; ++u)
        if (u != t && c.rclk[u] > C[t][u])
          reportRace(r, a + i, "write", t, u, c.rlabel[u], false, pc);
      if (lab < 0)
        lab = curLabel(t);
      c.wclk = C[t][t];
      c.wtid = int8_t(t);
      c.wlabel = uint8_t(lab);
    }
    else
    {
      if (c.rclk[t] != C[t][t])
      {
        if (lab < 0)
          lab = curLabel(t);
        c.rclk[t] = C[t][t];
        c.rlabel[t] = uint8_t(lab);
      }
    }
  }
}

enum
{
  MO_RELAXED = 0,
  MO_CONSUME = 1,
  MO_ACQUIRE = 2,
  MO_RELEASE = 3,
  MO_ACQ_REL = 4,
  MO_SEQ_CST = 5
};
inline bool isAcq(int mo) { return mo == MO_CONSUME || mo == MO_ACQUIRE || mo == MO_ACQ_REL || mo == MO_SEQ_CST; }
inline bool isRel(int mo) { return mo == MO_RELEASE || mo == MO_ACQ_REL || mo == MO_SEQ_CST; }

inline void prePoint(const void *p)
{
  if (!mcint_managed())
    return;
  Range *r = findRange((uintptr_t)p);
  if (r && r->points)
    mcint_atomic_point();
}

void hbLoad(const void *p, int mo)
{
  int t = tid();
  if (t < 0)
    return;
  SyncVar *s = getSV(p);
  if (isAcq(mo))
    vcJoin(C[t], s->L);
  else
    vcJoin(acqPending[t], s->L);
}
void hbStore(const void *p, int mo)
{
  int t = tid();
  if (t < 0)
    return;
  SyncVar *s = getSV(p);
  if (isRel(mo))
  {
    vcCopy(s->L, C[t]);
    s->relOwner = t;
    C[t][t]++;
  }
  else
  {
    // relaxed store: continues a release sequence only if headed by the same thread (C++17)
    if (s->relOwner != t)
    {
      memset(s->L, 0, sizeof(VC));
      s->relOwner = -1;
    }
    if (hasRelFence[t])
    {
      vcJoin(s->L, relFence[t]);
      if (s->relOwner < 0)
        s->relOwner = t;
    }
  }
}
void hbRmw(const void *p, int mo)
{
  int t = tid();
  if (t < 0)
    return;
  SyncVar *s = getSV(p);
  if (isAcq(mo))
    vcJoin(C[t], s->L);
  else
    vcJoin(acqPending[t], s->L);
  if (isRel(mo))
  {
    vcJoin(s->L, C[t]); // an RMW continues existing release sequences and heads its own
    C[t][t]++;
  }
  else if (hasRelFence[t])
    vcJoin(s->L, relFence[t]);
}
void hbFence(int mo)
{
  int t = tid();
  if (t < 0)
    return;
  if (isAcq(mo))
    vcJoin(C[t], acqPending[t]);
  if (isRel(mo))
  {
    vcCopy(relFence[t], C[t]);
    hasRelFence[t] = true;
    C[t][t]++;
  }
  if (mo == MO_SEQ_CST)
  {
    vcJoin(C[t], fenceSC);
    vcJoin(fenceSC, C[t]);
  }
}
} // namespace

// ---- interface used by mc.cpp hooks -------------------------------------------------------
void tsanshim_acquire(const void *obj)
{
  int t = tid();
  if (t < 0)
    return;
  vcJoin(C[t], getSV(obj)->L);
}
void tsanshim_release(const void *obj)
{
  int t = tid();
  if (t < 0)
    return;
  SyncVar *s = getSV(obj);
  vcJoin(s->L, C[t]);
  C[t][t]++;
}
void tsanshim_thread_create(int parent, int child)
{
  if (parent < 0 || parent >= NT || child < 0 || child >= NT)
    return;
  if (!inited[parent])
  {
    inited[parent] = true;
    if (C[parent][parent] == 0)
      C[parent][parent] = 1;
  }
  vcCopy(C[child], C[parent]);
  C[child][child] = C[child][child] + 1;
  inited[child] = true;
  C[parent][parent]++;
}
void tsanshim_thread_join(int joiner, int child)
{
  if (joiner < 0 || joiner >= NT || child < 0 || child >= NT)
    return;
  vcJoin(C[joiner], C[child]);
}

void mc_watch(const void *p, size_t len, const char *name, bool atomicsArePoints)
{
  if (nranges >= 32)
    mcint_internal_error("too many watched ranges");
  Range &r = ranges[nranges++];
  r.lo = (uintptr_t)p;
  r.hi = r.lo + len;
  snprintf(r.name, sizeof r.name, "%s", name);
  r.points = atomicsArePoints;
  r.shadow = new Cell[len];
  for (size_t i = 0; i < len; ++i)
  {
    memset(&r.shadow[i], 0, sizeof(Cell));
    r.shadow[i].wtid = -1;
  }
}
void mc_unwatch(const void *p)
{
  for (int i = 0; i < nranges; ++i)
    if (ranges[i].lo == (uintptr_t)p)
    {
      delete[] ranges[i].shadow;
      ranges[i] = ranges[nranges - 1];
      nranges--;
      return;
    }
}
void mc_race_detection(bool on) { enabled = on; }

// ---- TSan ABI ------------------------------------------------------------------------------
#define RA __builtin_return_address(0)
extern "C"
{
  void __tsan_init() {}
  void __tsan_func_entry(void *) {}
  void __tsan_func_exit() {}
  void __tsan_read1(void *p) { access(p, 1, false, RA); }
  void __tsan_read2(void *p) { access(p, 2, false, RA); }
  void __tsan_read4(void *p) { access(p, 4, false, RA); }
  void __tsan_read8(void *p) { access(p, 8, false, RA); }
  void __tsan_read16(void *p) { access(p, 16, false, RA); }
  void __tsan_write1(void *p) { access(p, 1, true, RA); }
  void __tsan_write2(void *p) { access(p, 2, true, RA); }
  void __tsan_write4(void *p) { access(p, 4, true, RA); }
  void __tsan_write8(void *p) { access(p, 8, true, RA); }
  void __tsan_write16(void *p) { access(p, 16, true, RA); }
  void __tsan_unaligned_read2(void *p) { access(p, 2, false, RA); }
  void __tsan_unaligned_read4(void *p) { access(p, 4, false, RA); }
  void __tsan_unaligned_read8(void *p) { access(p, 8, false, RA); }
  void __tsan_unaligned_read16(void *p) { access(p, 16, false, RA); }
  void __tsan_unaligned_write2(void *p) { access(p, 2, true, RA); }
  void __tsan_unaligned_write4(void *p) { access(p, 4, true, RA); }
  void __tsan_unaligned_write8(void *p) { access(p, 8, true, RA); }
  void __tsan_unaligned_write16(void *p) { access(p, 16, true, RA); }
  void __tsan_read_range(void *p, unsigned long n) { access(p, n, false, RA); }
  void __tsan_write_range(void *p, unsigned long n) { access(p, n, true, RA); }
  void __tsan_vptr_update(void **p, void *) { access(p, 8, true, RA); }
  void __tsan_vptr_read(void **p) { access(p, 8, false, RA); }

  void __tsan_atomic_thread_fence(int mo) { hbFence(mo); }
  void __tsan_atomic_signal_fence(int) {}

#define ATOMIC_FUNCS(N, T)                                                                                              \
  T __tsan_atomic##N##_load(const volatile T *a, int mo)                                                                \
  {                                                                                                                     \
    prePoint((const void *)a);                                                                                          \
    T v = __atomic_load_n(a, __ATOMIC_SEQ_CST);                                                                         \
    hbLoad((const void *)a, mo);                                                                                        \
    return v;                                                                                                           \
  }                                                                                                                     \
  void __tsan_atomic##N##_store(volatile T *a, T v, int mo)                                                             \
  {                                                                                                                     \
    prePoint((const void *)a);                                                                                          \
    hbStore((const void *)a, mo);                                                                                       \
    __atomic_store_n(a, v, __ATOMIC_SEQ_CST);                                                                           \
  }                                                                                                                     \
  T __tsan_atomic##N##_exchange(volatile T *a, T v, int mo)                                                             \
  {                                                                                                                     \
    prePoint((const void *)a);                                                                                          \
    T r = __atomic_exchange_n(a, v, __ATOMIC_SEQ_CST);                                                                  \
    hbRmw((const void *)a, mo);                                                                                         \
    return r;                                                                                                           \
  }                                                                                                                     \
  T __tsan_atomic##N##_fetch_add(volatile T *a, T v, int mo)                                                            \
  {                                                                                                                     \
    prePoint((const void *)a);                                                                                          \
    T r = __atomic_fetch_add(a, v, __ATOMIC_SEQ_CST);                                                                   \
    hbRmw((const void *)a, mo);                                                                                         \
    return r;                                                                                                           \
  }                                                                                                                     \
  T __tsan_atomic##N##_fetch_sub(volatile T *a, T v, int mo)                                                            \
  {                                                                                                                     \
    prePoint((const void *)a);                                                                                          \
    T r = __atomic_fetch_sub(a, v, __ATOMIC_SEQ_CST);                                                                   \
    hbRmw((const void *)a, mo);                                                                                         \
    return r;                                                                                                           \
  }                                                                                                                     \
  T __tsan_atomic##N##_fetch_and(volatile T *a, T v, int mo)                                                            \
  {                                                                                                                     \
    prePoint((const void *)a);                                                                                          \
    T r = __atomic_fetch_and(a, v, __ATOMIC_SEQ_CST);                                                                   \
    hbRmw((const void *)a, mo);                                                                                         \
    return r;                                                                                                           \
  }                                                                                                                     \
  T __tsan_atomic##N##_fetch_or(volatile T *a, T v, int mo)                                                             \
  {                                                                                                                     \
    prePoint((const void *)a);                                                                                          \
    T r = __atomic_fetch_or(a, v, __ATOMIC_SEQ_CST);                                                                    \
    hbRmw((const void *)a, mo);                                                                                         \
    return r;                                                                                                           \
  }                                                                                                                     \
  T __tsan_atomic##N##_fetch_xor(volatile T *a, T v, int mo)                                                            \
  {                                                                                                                     \
    prePoint((const void *)a);                                                                                          \
    T r = __atomic_fetch_xor(a, v, __ATOMIC_SEQ_CST);                                                                   \
    hbRmw((const void *)a, mo);                                                                                         \
    return r;                                                                                                           \
  }                                                                                                                     \
  T __tsan_atomic##N##_fetch_nand(volatile T *a, T v, int mo)                                                           \
  {                                                                                                                     \
    prePoint((const void *)a);                                                                                          \
    T r = __atomic_fetch_nand(a, v, __ATOMIC_SEQ_CST);                                                                  \
    hbRmw((const void *)a, mo);                                                                                         \
    return r;                                                                                                           \
  }                                                                                                                     \
  int __tsan_atomic##N##_compare_exchange_strong(volatile T *a, T *c, T v, int mo, int fmo)                             \
  {                                                                                                                     \
    prePoint((const void *)a);                                                                                          \
    bool ok = __atomic_compare_exchange_n(a, c, v, false, __ATOMIC_SEQ_CST, __ATOMIC_SEQ_CST);                          \
    if (ok)                                                                                                             \
      hbRmw((const void *)a, mo);                                                                                       \
    else                                                                                                                \
      hbLoad((const void *)a, fmo);                                                                                     \
    return ok;                                                                                                          \
  }                                                                                                                     \
  int __tsan_atomic##N##_compare_exchange_weak(volatile T *a, T *c, T v, int mo, int fmo)                               \
  {                                                                                                                     \
    prePoint((const void *)a);                                                                                          \
    bool ok = __atomic_compare_exchange_n(a, c, v, false, __ATOMIC_SEQ_CST, __ATOMIC_SEQ_CST);                          \
    if (ok)                                                                                                             \
      hbRmw((const void *)a, mo);                                                                                       \
    else                                                                                                                \
      hbLoad((const void *)a, fmo);                                                                                     \
    return ok;                                                                                                          \
  }                                                                                                                     \
  T __tsan_atomic##N##_compare_exchange_val(volatile T *a, T c, T v, int mo, int fmo)                                   \
  {                                                                                                                     \
    prePoint((const void *)a);                                                                                          \
    T e = c;                                                                                                            \
    bool ok = __atomic_compare_exchange_n(a, &e, v, false, __ATOMIC_SEQ_CST, __ATOMIC_SEQ_CST);                         \
    if (ok)                                                                                                             \
      hbRmw((const void *)a, mo);                                                                                       \
    else                                                                                                                \
      hbLoad((const void *)a, fmo);                                                                                     \
    return e;                                                                                                           \
  }

  ATOMIC_FUNCS(8, uint8_t)
  ATOMIC_FUNCS(16, uint16_t)
  ATOMIC_FUNCS(32, uint32_t)
  ATOMIC_FUNCS(64, uint64_t)
}

// simk: simulated kernel objects.  See simk.h / DESIGN.md §2.5.  Compiled without sanitizers.
#ifndef _GNU_SOURCE
#define _GNU_SOURCE
#endif
#include "simk.h"
#include "mc.h"
#include "mc_internal.h"

#include <arpa/inet.h>
#include <cerrno>
#include <cstdarg>
#include <cstdio>
#include <cstring>
#include <deque>
#include <fcntl.h>
#include <netinet/in.h>
#include <sched.h>
#include <string>
#include <sys/epoll.h>
#include <sys/eventfd.h>
#include <sys/ioctl.h>
#include <sys/socket.h>
#include <sys/syscall.h>
#include <sys/timerfd.h>
#include <sys/uio.h>
#include <unistd.h>
#include <vector>

SimkConfig simk_cfg;

namespace
{
constexpr int BASE = 1000;
constexpr int NFD = 256;

inline long rawsys(long n, long a = 0, long b = 0, long c = 0, long d = 0, long e = 0, long f = 0)
{
  long ret;
  register long r10 __asm__("r10") = d;
  register long r8 __asm__("r8") = e;
  register long r9 __asm__("r9") = f;
  __asm__ volatile("syscall" : "=a"(ret) : "a"(n), "D"(a), "S"(b), "d"(c), "r"(r10), "r"(r8), "r"(r9) : "rcx", "r11", "memory");
  return ret;
}
inline long ret_errno(long r)
{
  if (r < 0 && r > -4096)
  {
    errno = int(-r);
    return -1;
  }
  return r;
}

struct Addr
{
  int family = 0;
  uint8_t a[16] = {0};
  uint16_t port = 0; // host order
  bool operator==(const Addr &o) const { return family == o.family && port == o.port && memcmp(a, o.a, 16) == 0; }
  bool any() const
  {
    for (int i = 0; i < 16; ++i)
      if (a[i])
        return false;
    return true;
  }
};

bool fromSockaddr(const sockaddr *sa, socklen_t len, Addr &out)
{
  out = Addr();
  if (!sa)
    return false;
  if (sa->sa_family == AF_INET && len >= sizeof(sockaddr_in))
  {
    auto *s4 = (const sockaddr_in *)sa;
    out.family = AF_INET;
    memcpy(out.a, &s4->sin_addr, 4);
    out.port = ntohs(s4->sin_port);
    return true;
  }
  if (sa->sa_family == AF_INET6 && len >= sizeof(sockaddr_in6))
  {
    auto *s6 = (const sockaddr_in6 *)sa;
    out.family = AF_INET6;
    memcpy(out.a, &s6->sin6_addr, 16);
    out.port = ntohs(s6->sin6_port);
    return true;
  }
  return false;
}
void toSockaddr(const Addr &a, sockaddr *sa, socklen_t *len)
{
  if (!sa || !len)
    return;
  if (a.family == AF_INET6)
  {
    sockaddr_in6 s6{};
    s6.sin6_family = AF_INET6;
    memcpy(&s6.sin6_addr, a.a, 16);
    s6.sin6_port = htons(a.port);
    socklen_t n = *len < sizeof s6 ? *len : socklen_t(sizeof s6);
    memcpy(sa, &s6, n);
    *len = sizeof s6;
  }
  else
  {
    sockaddr_in s4{};
    s4.sin_family = AF_INET;
    memcpy(&s4.sin_addr, a.a, 4);
    s4.sin_port = htons(a.port);
    socklen_t n = *len < sizeof s4 ? *len : socklen_t(sizeof s4);
    memcpy(sa, &s4, n);
    *len = sizeof s4;
  }
}

enum Kind
{
  K_FREE = 0,
  K_EPOLL,
  K_EVENTFD,
  K_TIMERFD,
  K_TCP,
  K_UDP
};
enum TcpState
{
  T_NEW = 0,
  T_LISTEN,
  T_CONNECTING, // black hole
  T_FAILED,     // async refused: error pending
  T_ESTAB,
  T_RESET,
};

struct Dgram
{
  Addr from;
  std::string data;
};

struct Reg
{
  int fd;
  uint32_t mask;
  uint64_t data;
  uint32_t pend;
  bool disabled; // oneshot fired
  uint64_t lastTimerCount;
};

struct Fd
{
  Kind kind = K_FREE;
  bool nonblock = false;
  uint64_t gen = 0;
  // epoll
  std::vector<Reg> regs;
  int spin = 0; // epoll: consecutive epoll_wait calls that returned events without blocking
  // eventfd
  uint64_t counter = 0;
  bool semaphore = false;
  // timerfd
  uint64_t nextNs = 0, intervalNs = 0;
  bool wallClock = false;
  // sockets
  Addr local, peerAddr;
  bool bound = false;
  // tcp
  TcpState st = T_NEW;
  int peer = -1; // index of peer endpoint (established)
  std::deque<uint8_t> rbuf;
  int rcap = 4;
  bool finReceived = false;
  bool writeShut = false;
  bool readShut = false;
  int soError = 0;
  bool lingerAbort = false; // SO_LINGER {1,0}: close() sends RST
  std::deque<int> acceptq; // listener: indices of server-side endpoints not yet accepted
  bool accepted = true;    // server-side endpoint waiting in an accept queue has accepted=false
  std::string txlog;
  std::string peerTxSaved; // copy of the peer endpoint's tap taken when the peer endpoint goes away
  uint64_t connId = 0;
  // udp
  std::deque<Dgram> dq;
  bool connected = false;
  int failSends = 0;
};

struct RouteEnt
{
  Addr a;
  SimkRoute r;
};
struct ConnectFault
{
  uint16_t port;
  std::vector<int> script; // outcome of the k-th connect() to this port (0 = normal), consumed in order
  size_t next = 0;
};

struct State
{
  Fd fds[NFD];
  uint64_t genCounter = 0;
  uint16_t nextEphemeral = 40000;
  uint64_t nextConnId = 1;
  std::vector<RouteEnt> routes;
  std::vector<ConnectFault> connectFaults;
  int udpDropped = 0;
  bool inited = false;
};
State *ST = nullptr;

inline bool active() { return mcint_in_child(); }
inline bool isSim(int fd) { return fd >= BASE && fd < BASE + NFD && ST && ST->fds[fd - BASE].kind != K_FREE; }
inline Fd *get(int fd) { return isSim(fd) ? &ST->fds[fd - BASE] : nullptr; }

uint64_t nextDeadline(uint64_t now);

void ensure()
{
  if (!ST)
  {
    ST = new State();
    mcint_ext_next_deadline = nextDeadline;
  }
}

int allocFd(Kind k)
{
  ensure();
  for (int i = 0; i < NFD; ++i)
    if (ST->fds[i].kind == K_FREE)
    {
      ST->fds[i] = Fd();
      ST->fds[i].kind = k;
      ST->fds[i].gen = ++ST->genCounter;
      ST->fds[i].rcap = simk_cfg.tcpRcvBuf;
      return BASE + i;
    }
  errno = EMFILE;
  return -1;
}

void sysPoint(const char *what)
{
  if (simk_cfg.syscallPoints && mcint_managed())
    mcint_point(what);
}

// ---- readiness --------------------------------------------------------------------------
uint64_t timerCount(const Fd &f, uint64_t nowMono)
{
  if (!f.nextNs)
    return 0;
  uint64_t now = f.wallClock ? mcint_wall() : nowMono;
  if (now < f.nextNs)
    return 0;
  return 1 + (f.intervalNs ? (now - f.nextNs) / f.intervalNs : 0);
}

uint32_t pollMask(int idx)
{
  Fd &f = ST->fds[idx];
  switch (f.kind)
  {
  case K_EVENTFD:
    return (f.counter > 0 ? EPOLLIN : 0) | EPOLLOUT;
  case K_TIMERFD:
    return timerCount(f, mcint_now()) > 0 ? EPOLLIN : 0;
  case K_UDP:
    return (f.dq.empty() ? 0 : EPOLLIN) | (f.failSends > 0 ? 0 : EPOLLOUT);
  case K_TCP:
  {
    uint32_t m = 0;
    switch (f.st)
    {
    case T_LISTEN:
      return f.acceptq.empty() ? 0 : EPOLLIN;
    case T_NEW:
      return EPOLLOUT | EPOLLHUP; // unconnected stream socket
    case T_CONNECTING:
      return 0;
    case T_FAILED:
    case T_RESET:
      return EPOLLIN | EPOLLOUT | EPOLLERR | EPOLLHUP | EPOLLRDHUP;
    case T_ESTAB:
      if (!f.rbuf.empty() || f.finReceived)
        m |= EPOLLIN;
      if (f.finReceived)
        m |= EPOLLRDHUP;
      if (f.finReceived && f.writeShut)
        m |= EPOLLHUP;
      if (!f.writeShut)
      {
        if (f.peer < 0)
          m |= EPOLLOUT; // peer gone: a write "succeeds" (and provokes a reset)
        else
        {
          Fd &p = ST->fds[f.peer];
          if (int(p.rbuf.size()) < p.rcap)
            m |= EPOLLOUT;
        }
      }
      return m;
    }
    return m;
  }
  default:
    return 0;
  }
}

void notify(int idx, uint32_t bits)
{
  int fd = BASE + idx;
  for (int e = 0; e < NFD; ++e)
  {
    Fd &ep = ST->fds[e];
    if (ep.kind != K_EPOLL)
      continue;
    for (Reg &r : ep.regs)
      if (r.fd == fd)
        r.pend |= bits;
  }
}

// Compute (and optionally consume) the ready events of an epoll instance.
int collect(Fd &ep, epoll_event *out, int maxev, bool consume)
{
  int n = 0;
  uint64_t now = mcint_now();
  for (Reg &r : ep.regs)
  {
    if (n >= maxev)
      break;
    if (r.disabled)
      continue;
    int idx = r.fd - BASE;
    Fd &f = ST->fds[idx];
    uint32_t pm = pollMask(idx);
    uint32_t want = (r.mask & (EPOLLIN | EPOLLOUT | EPOLLRDHUP | EPOLLPRI)) | EPOLLERR | EPOLLHUP;
    uint32_t ev;
    if (r.mask & EPOLLET)
    {
      uint32_t pend = r.pend;
      if (f.kind == K_TIMERFD)
      {
        uint64_t c = timerCount(f, now);
        if (c > r.lastTimerCount)
          pend |= EPOLLIN;
      }
      ev = pend ? (pm & want) : 0; // an edge occurred: report what is ready now (Linux re-polls at delivery)
      if (consume)
      {
        r.pend = 0;
        if (f.kind == K_TIMERFD)
          r.lastTimerCount = timerCount(f, now);
      }
    }
    else
      ev = pm & want;
    if (ev)
    {
      if (out)
      {
        out[n].events = ev;
        out[n].data.u64 = r.data;
      }
      ++n;
      if (consume && (r.mask & EPOLLONESHOT))
        r.disabled = true;
    }
  }
  return n;
}

bool epollReady(void *arg)
{
  Fd *ep = (Fd *)arg;
  return collect(*ep, nullptr, 1, false) > 0;
}

// earliest armed timerfd expiry (> now) among timerfds registered in an epoll (someone may wait on it)
uint64_t nextDeadline(uint64_t now)
{
  if (!ST)
    return 0;
  uint64_t best = 0;
  for (int e = 0; e < NFD; ++e)
  {
    Fd &ep = ST->fds[e];
    if (ep.kind != K_EPOLL)
      continue;
    for (Reg &r : ep.regs)
    {
      Fd &f = ST->fds[r.fd - BASE];
      if (f.kind != K_TIMERFD || !f.nextNs)
        continue;
      uint64_t due = f.nextNs;
      if (f.wallClock)
      {
        // convert wall deadline to mono
        int64_t off = int64_t(mcint_wall()) - int64_t(mcint_now());
        int64_t d = int64_t(due) - off;
        due = d < 1 ? 1 : uint64_t(d);
      }
      if (due <= now)
      {
        // already expired (possibly unread): next periodic tick
        if (!f.intervalNs)
          continue;
        uint64_t k = (now - due) / f.intervalNs + 1;
        due += k * f.intervalNs;
      }
      if (!best || due < best)
        best = due;
    }
  }
  return best;
}

// ---- TCP helpers ---------------------------------------------------------------------------
SimkRoute routeFor(const Addr &a)
{
  for (auto &r : ST->routes)
    if (r.a.family == a.family && r.a.port == a.port && (memcmp(r.a.a, a.a, 16) == 0))
      return r.r;
  return SIMK_REFUSE_ASYNC;
}

int findListener(const Addr &dst)
{
  for (int i = 0; i < NFD; ++i)
  {
    Fd &f = ST->fds[i];
    if (f.kind == K_TCP && f.st == T_LISTEN && f.local.port == dst.port && (f.local.any() || (f.local.family == dst.family && memcmp(f.local.a, dst.a, 16) == 0)))
      return i;
  }
  return -1;
}

int findUdp(const Addr &dst)
{
  int wildcard = -1;
  for (int i = 0; i < NFD; ++i)
  {
    Fd &f = ST->fds[i];
    if (f.kind != K_UDP || !f.bound || f.local.port != dst.port)
      continue;
    if (f.local.family == dst.family && memcmp(f.local.a, dst.a, 16) == 0)
      return i;
    if (f.local.any())
      wildcard = i;
  }
  return wildcard;
}

void assignLocal(Fd &f, int family, const Addr *like)
{
  if (f.bound)
    return;
  f.local = Addr();
  f.local.family = family;
  if (like && !like->any())
    memcpy(f.local.a, like->a, 16);
  else if (family == AF_INET)
  {
    f.local.a[0] = 127;
    f.local.a[3] = 1;
  }
  else
    f.local.a[15] = 1;
  f.local.port = ST->nextEphemeral++;
  f.bound = true;
}

// our endpoint idx goes away (close): tell the peer
void tcpDetach(int idx)
{
  Fd &f = ST->fds[idx];
  if (f.st == T_LISTEN)
  {
    // pending, never-accepted connections are reset
    for (int s : f.acceptq)
    {
      Fd &srv = ST->fds[s];
      if (srv.peer >= 0)
      {
        Fd &cli = ST->fds[srv.peer];
        cli.peer = -1;
        cli.st = T_RESET;
        cli.soError = ECONNRESET;
        cli.rbuf.clear();
        notify(srv.peer, EPOLLIN | EPOLLOUT | EPOLLERR | EPOLLHUP);
      }
      srv = Fd(); // free the never-exposed endpoint slot
    }
    f.acceptq.clear();
    return;
  }
  if (f.peer >= 0)
  {
    int p = f.peer;
    Fd &pf = ST->fds[p];
    pf.peer = -1;
    pf.peerTxSaved = f.txlog;
    if (!f.rbuf.empty() || f.lingerAbort)
    {
      // closing with unread data (or SO_LINGER 0): RST (Linux tcp_close)
      pf.st = T_RESET;
      pf.soError = ECONNRESET;
      pf.rbuf.clear();
      notify(p, EPOLLIN | EPOLLOUT | EPOLLERR | EPOLLHUP);
    }
    else
    {
      if (!pf.finReceived)
      {
        pf.finReceived = true;
        notify(p, EPOLLIN | EPOLLRDHUP | (pf.writeShut ? EPOLLHUP : 0));
      }
    }
    f.peer = -1;
  }
}

long tcpSend(int idx, const void *buf, size_t n, int flags)
{
  Fd &f = ST->fds[idx];
  (void)flags;
  if (f.st == T_CONNECTING)
  {
    errno = EAGAIN;
    return -1;
  }
  if (f.st == T_FAILED || f.st == T_RESET)
  {
    int e = f.soError ? f.soError : EPIPE;
    f.soError = 0;
    errno = (e == ECONNREFUSED || e == ECONNRESET) ? e : EPIPE;
    if (f.st == T_RESET && e == 0)
      errno = EPIPE;
    return -1;
  }
  if (f.st != T_ESTAB)
  {
    errno = ENOTCONN;
    return -1;
  }
  if (f.writeShut)
  {
    errno = EPIPE;
    return -1;
  }
  if (n == 0)
    return 0;
  if (f.peer < 0)
  {
    // peer endpoint already closed: the bytes leave, a reset comes back
    if (simk_cfg.tap)
      f.txlog.append((const char *)buf, n);
    f.st = T_RESET;
    f.soError = EPIPE;
    notify(idx, EPOLLIN | EPOLLOUT | EPOLLERR | EPOLLHUP);
    return long(n);
  }
  Fd &p = ST->fds[f.peer];
  int freeB = p.rcap - int(p.rbuf.size());
  if (p.readShut)
    freeB = int(n); // peer discards
  if (freeB <= 0)
  {
    errno = EAGAIN;
    return -1;
  }
  size_t m = n < size_t(freeB) ? n : size_t(freeB);
  size_t k = m;
  if (simk_cfg.shortIo && m > 1 && mcint_managed())
  {
    if (int(m) <= simk_cfg.maxShortOptions)
    {
      int c = mc_choose(int(m), MC_ENV); // 0: m bytes, 1: m-1, ...
      k = m - size_t(c);
    }
    else
    {
      int c = mc_choose(3, MC_ENV);
      k = c == 0 ? m : c == 1 ? 1 : m / 2;
    }
  }
  if (!p.readShut)
  {
    const uint8_t *b = (const uint8_t *)buf;
    bool wasEmpty = p.rbuf.empty();
    (void)wasEmpty;
    for (size_t i = 0; i < k; ++i)
      p.rbuf.push_back(b[i]);
    notify(f.peer, EPOLLIN);
  }
  if (simk_cfg.tap)
    f.txlog.append((const char *)buf, k);
  return long(k);
}

long tcpRecv(int idx, void *buf, size_t len, int flags)
{
  Fd &f = ST->fds[idx];
  if (f.st == T_FAILED || f.st == T_RESET)
  {
    if (f.soError)
    {
      errno = f.soError == EPIPE ? ECONNRESET : f.soError;
      f.soError = 0;
      return -1;
    }
    return 0;
  }
  if (f.st == T_CONNECTING)
  {
    errno = EAGAIN;
    return -1;
  }
  if (f.st != T_ESTAB)
  {
    errno = ENOTCONN;
    return -1;
  }
  if (f.rbuf.empty())
  {
    if (f.finReceived || f.readShut)
      return 0;
    errno = EAGAIN;
    return -1;
  }
  if (len == 0)
    return 0;
  size_t m = len < f.rbuf.size() ? len : f.rbuf.size();
  size_t k = m;
  if (simk_cfg.shortIo && m > 1 && mcint_managed())
  {
    if (int(m) <= simk_cfg.maxShortOptions)
    {
      int c = mc_choose(int(m), MC_ENV);
      k = m - size_t(c);
    }
    else
    {
      int c = mc_choose(3, MC_ENV);
      k = c == 0 ? m : c == 1 ? 1 : m / 2;
    }
  }
  uint8_t *b = (uint8_t *)buf;
  for (size_t i = 0; i < k; ++i)
    b[i] = f.rbuf[i];
  if (!(flags & MSG_PEEK))
  {
    f.rbuf.erase(f.rbuf.begin(), f.rbuf.begin() + long(k));
    if (f.peer >= 0)
      notify(f.peer, EPOLLOUT); // space became available for the sender
  }
  return long(k);
}

long udpSend(int idx, const void *buf, size_t n, const Addr *to)
{
  Fd &f = ST->fds[idx];
  Addr dst;
  if (to)
    dst = *to;
  else if (f.connected)
    dst = f.peerAddr;
  else
  {
    errno = EDESTADDRREQ;
    return -1;
  }
  if (n > 65507)
  {
    errno = EMSGSIZE;
    return -1;
  }
  if (f.failSends > 0)
  {
    f.failSends--;
    if (f.failSends == 0)
      notify(idx, EPOLLOUT);
    errno = EAGAIN;
    return -1;
  }
  assignLocal(f, dst.family ? dst.family : AF_INET, nullptr);
  if (simk_cfg.tap)
  {
    // datagram boundaries kept in the tap: 4-byte length prefix + destination port + payload
    char h[8];
    uint32_t L = uint32_t(n);
    memcpy(h, &L, 4);
    uint16_t P = dst.port;
    memcpy(h + 4, &P, 2);
    h[6] = char(dst.a[3]);
    h[7] = 0;
    f.txlog.append(h, 8);
    f.txlog.append((const char *)buf, n);
  }
  int d = findUdp(dst);
  if (d < 0)
  {
    ST->udpDropped++;
    return long(n);
  }
  Fd &df = ST->fds[d];
  if (df.connected && !(df.peerAddr == f.local))
  {
    ST->udpDropped++;
    return long(n);
  }
  if (int(df.dq.size()) >= simk_cfg.udpQueue)
  {
    ST->udpDropped++; // receiver queue overflow: the network drops
    return long(n);
  }
  Dgram g;
  g.from = f.local;
  g.data.assign((const char *)buf, n);
  df.dq.push_back(std::move(g));
  notify(d, EPOLLIN);
  return long(n);
}

long udpRecv(int idx, void *buf, size_t len, int flags, sockaddr *from, socklen_t *fromLen)
{
  Fd &f = ST->fds[idx];
  if (f.dq.empty())
  {
    errno = EAGAIN;
    return -1;
  }
  Dgram &g = f.dq.front();
  size_t k = g.data.size() < len ? g.data.size() : len;
  memcpy(buf, g.data.data(), k);
  if (from && fromLen)
    toSockaddr(g.from, from, fromLen);
  long r = (flags & MSG_TRUNC) ? long(g.data.size()) : long(k);
  if (!(flags & MSG_PEEK))
    f.dq.pop_front();
  return r;
}

void closeSim(int fd)
{
  int idx = fd - BASE;
  Fd &f = ST->fds[idx];
  // remove from every epoll set
  for (int e = 0; e < NFD; ++e)
  {
    Fd &ep = ST->fds[e];
    if (ep.kind != K_EPOLL)
      continue;
    for (size_t i = 0; i < ep.regs.size();)
      if (ep.regs[i].fd == fd)
        ep.regs.erase(ep.regs.begin() + long(i));
      else
        ++i;
  }
  if (f.kind == K_TCP)
    tcpDetach(idx);
  f = Fd();
}
} // namespace

// =====================================================================================
// harness API
// =====================================================================================
void simk_route(const char *ip, uint16_t port, SimkRoute r)
{
  ensure();
  RouteEnt e;
  e.a.family = AF_INET;
  in_addr a4;
  if (inet_pton(AF_INET, ip, &a4) == 1)
    memcpy(e.a.a, &a4, 4);
  else
  {
    in6_addr a6;
    if (inet_pton(AF_INET6, ip, &a6) == 1)
    {
      e.a.family = AF_INET6;
      memcpy(e.a.a, &a6, 16);
    }
  }
  e.a.port = port;
  e.r = r;
  ST->routes.push_back(e);
}
void simk_connect_script(uint16_t port, const int *outcomes, int n)
{
  ensure();
  ConnectFault cf;
  cf.port = port;
  cf.script.assign(outcomes, outcomes + n);
  ST->connectFaults.push_back(cf);
}
void simk_set_rcvbuf(int fd, int bytes)
{
  if (Fd *f = get(fd))
    f->rcap = bytes;
}
std::string simk_txlog(int fd)
{
  Fd *f = get(fd);
  return f ? f->txlog : std::string();
}
std::string simk_peer_txlog(int fd)
{
  Fd *f = get(fd);
  if (!f || f->peer < 0)
    return f ? f->peerTxSaved : std::string();
  return ST->fds[f->peer].txlog;
}
uint64_t simk_conn_id(int fd)
{
  Fd *f = get(fd);
  return f ? f->connId : 0;
}
int simk_open_fds()
{
  if (!ST)
    return 0;
  int n = 0;
  for (int i = 0; i < NFD; ++i)
    if (ST->fds[i].kind != K_FREE && !(ST->fds[i].kind == K_TCP && !ST->fds[i].accepted))
      ++n;
  return n;
}
int simk_open_sockets()
{
  if (!ST)
    return 0;
  int n = 0;
  for (int i = 0; i < NFD; ++i)
    if ((ST->fds[i].kind == K_TCP && ST->fds[i].accepted) || ST->fds[i].kind == K_UDP)
      ++n;
  return n;
}
bool simk_is_sim(int fd) { return isSim(fd); }
void simk_udp_fail_sends(int fd, int n)
{
  if (Fd *f = get(fd))
    f->failSends = n;
}
int simk_udp_dropped() { return ST ? ST->udpDropped : 0; }

// =====================================================================================
// interposed system calls
// =====================================================================================
extern "C"
{
  int epoll_create1(int flags)
  {
    if (!active())
      return int(ret_errno(rawsys(SYS_epoll_create1, flags)));
    return allocFd(K_EPOLL);
  }
  int epoll_create(int size)
  {
    if (!active())
      return int(ret_errno(rawsys(SYS_epoll_create1, 0)));
    (void)size;
    return allocFd(K_EPOLL);
  }
  int epoll_ctl(int epfd, int op, int fd, struct epoll_event *ev)
  {
    Fd *ep = active() ? get(epfd) : nullptr;
    if (!ep)
      return int(ret_errno(rawsys(SYS_epoll_ctl, epfd, op, fd, (long)ev)));
    if (ep->kind != K_EPOLL)
    {
      errno = EINVAL;
      return -1;
    }
    if (!isSim(fd) || get(fd)->kind == K_EPOLL)
    {
      errno = isSim(fd) ? EINVAL : EBADF;
      if (!isSim(fd) && fd >= 0 && fd < BASE)
        mcint_internal_error("simk: a real descriptor was added to a simulated epoll instance");
      return -1;
    }
    sysPoint("epoll_ctl");
    ep = get(epfd);
    if (!ep || !isSim(fd))
    {
      errno = EBADF;
      return -1;
    }
    size_t pos = ep->regs.size();
    for (size_t i = 0; i < ep->regs.size(); ++i)
      if (ep->regs[i].fd == fd)
        pos = i;
    if (op == EPOLL_CTL_ADD)
    {
      if (pos != ep->regs.size())
      {
        errno = EEXIST;
        return -1;
      }
      Reg r{};
      r.fd = fd;
      r.mask = ev->events;
      r.data = ev->data.u64;
      r.pend = pollMask(fd - BASE); // ready at registration time => reported (ep_insert polls)
      r.disabled = false;
      r.lastTimerCount = 0;
      // keep registrations ordered by fd: deterministic ready order
      size_t ins = 0;
      while (ins < ep->regs.size() && ep->regs[ins].fd < fd)
        ++ins;
      ep->regs.insert(ep->regs.begin() + long(ins), r);
      return 0;
    }
    if (pos == ep->regs.size())
    {
      errno = ENOENT;
      return -1;
    }
    if (op == EPOLL_CTL_DEL)
    {
      ep->regs.erase(ep->regs.begin() + long(pos));
      return 0;
    }
    if (op == EPOLL_CTL_MOD)
    {
      Reg &r = ep->regs[pos];
      r.mask = ev->events;
      r.data = ev->data.u64;
      r.disabled = false;
      r.pend |= pollMask(fd - BASE); // ep_modify re-polls: ready now => queued again
      return 0;
    }
    errno = EINVAL;
    return -1;
  }
  int epoll_wait(int epfd, struct epoll_event *events, int maxevents, int timeout)
  {
    Fd *ep = active() ? get(epfd) : nullptr;
    if (!ep)
      return int(ret_errno(rawsys(SYS_epoll_wait, epfd, (long)events, maxevents, timeout)));
    if (ep->kind != K_EPOLL || maxevents <= 0)
    {
      errno = EINVAL;
      return -1;
    }
    if (!mcint_managed())
      return collect(*ep, events, maxevents, true);
    uint64_t gen = ep->gen;
    uint64_t deadline = 0;
    if (timeout == 0)
    {
      mcint_point("epoll_wait(0)");
      ep = get(epfd);
      if (!ep || ep->gen != gen)
      {
        errno = EBADF;
        return -1;
      }
      return collect(*ep, events, maxevents, true);
    }
    if (timeout > 0)
      deadline = mcint_now() + uint64_t(timeout) * 1000000ull;
    // Fairness: a loop whose epoll_wait keeps returning at once (e.g. EPOLLOUT re-armed by EPOLL_CTL_MOD on a
    // writable socket while a TLS handshake waits for the peer) is a busy-wait.  On a real machine the other
    // threads run meanwhile; under the cooperative scheduler the spinner must give way, exactly like a yield.
    if (epollReady(ep))
    {
      if (++ep->spin > 3)
      {
        sched_yield();
        ep = get(epfd);
        if (!ep || ep->gen != gen)
        {
          errno = EBADF;
          return -1;
        }
      }
    }
    else
      ep->spin = 0;
    mcint_block(epollReady, ep, deadline, "epoll_wait");
    ep = get(epfd);
    if (!ep || ep->gen != gen || ep->kind != K_EPOLL)
    {
      errno = EBADF;
      return -1;
    }
    return collect(*ep, events, maxevents, true);
  }
  int epoll_pwait(int epfd, struct epoll_event *events, int maxevents, int timeout, const sigset_t *ss)
  {
    if (active() && get(epfd))
      return epoll_wait(epfd, events, maxevents, timeout);
    return int(ret_errno(rawsys(SYS_epoll_pwait, epfd, (long)events, maxevents, timeout, (long)ss, 8)));
  }

  int eventfd(unsigned int initval, int flags)
  {
    if (!active())
      return int(ret_errno(rawsys(SYS_eventfd2, initval, flags)));
    int fd = allocFd(K_EVENTFD);
    if (fd < 0)
      return -1;
    Fd *f = get(fd);
    f->counter = initval;
    f->semaphore = flags & EFD_SEMAPHORE;
    f->nonblock = flags & EFD_NONBLOCK;
    return fd;
  }

  int timerfd_create(int clockid, int flags)
  {
    if (!active())
      return int(ret_errno(rawsys(SYS_timerfd_create, clockid, flags)));
    int fd = allocFd(K_TIMERFD);
    if (fd < 0)
      return -1;
    Fd *f = get(fd);
    f->wallClock = clockid == CLOCK_REALTIME;
    f->nonblock = flags & TFD_NONBLOCK;
    return fd;
  }
  int timerfd_settime(int fd, int flags, const struct itimerspec *nv, struct itimerspec *ov)
  {
    Fd *f = active() ? get(fd) : nullptr;
    if (!f)
      return int(ret_errno(rawsys(SYS_timerfd_settime, fd, flags, (long)nv, (long)ov)));
    if (f->kind != K_TIMERFD)
    {
      errno = EINVAL;
      return -1;
    }
    sysPoint("timerfd_settime");
    f = get(fd);
    if (!f)
    {
      errno = EBADF;
      return -1;
    }
    uint64_t now = f->wallClock ? mcint_wall() : mcint_now();
    if (ov)
    {
      memset(ov, 0, sizeof *ov);
      if (f->nextNs > now)
      {
        uint64_t rem = f->nextNs - now;
        ov->it_value.tv_sec = time_t(rem / 1000000000ull);
        ov->it_value.tv_nsec = long(rem % 1000000000ull);
      }
      ov->it_interval.tv_sec = time_t(f->intervalNs / 1000000000ull);
      ov->it_interval.tv_nsec = long(f->intervalNs % 1000000000ull);
    }
    uint64_t v = uint64_t(nv->it_value.tv_sec) * 1000000000ull + uint64_t(nv->it_value.tv_nsec);
    uint64_t iv = uint64_t(nv->it_interval.tv_sec) * 1000000000ull + uint64_t(nv->it_interval.tv_nsec);
    if (v == 0)
    {
      f->nextNs = 0;
      f->intervalNs = 0;
    }
    else
    {
      f->nextNs = (flags & TFD_TIMER_ABSTIME) ? v : now + v;
      if (f->nextNs == 0)
        f->nextNs = 1;
      f->intervalNs = iv;
    }
    // re-arming resets the unread expiration count
    for (int e = 0; e < NFD; ++e)
      if (ST->fds[e].kind == K_EPOLL)
        for (Reg &r : ST->fds[e].regs)
          if (r.fd == fd)
            r.lastTimerCount = 0;
    return 0;
  }
  int timerfd_gettime(int fd, struct itimerspec *cur)
  {
    Fd *f = active() ? get(fd) : nullptr;
    if (!f)
      return int(ret_errno(rawsys(SYS_timerfd_gettime, fd, (long)cur)));
    uint64_t now = f->wallClock ? mcint_wall() : mcint_now();
    memset(cur, 0, sizeof *cur);
    if (f->nextNs)
    {
      uint64_t due = f->nextNs;
      if (due <= now && f->intervalNs)
        due += ((now - due) / f->intervalNs + 1) * f->intervalNs;
      uint64_t rem = due > now ? due - now : 0;
      cur->it_value.tv_sec = time_t(rem / 1000000000ull);
      cur->it_value.tv_nsec = long(rem % 1000000000ull);
      cur->it_interval.tv_sec = time_t(f->intervalNs / 1000000000ull);
      cur->it_interval.tv_nsec = long(f->intervalNs % 1000000000ull);
    }
    return 0;
  }

  ssize_t read(int fd, void *buf, size_t n)
  {
    Fd *f = (fd >= BASE && active()) ? get(fd) : nullptr;
    if (!f)
      return ret_errno(rawsys(SYS_read, fd, (long)buf, long(n)));
    sysPoint("read");
    f = get(fd);
    if (!f)
    {
      errno = EBADF;
      return -1;
    }
    switch (f->kind)
    {
    case K_EVENTFD:
    {
      if (n < 8)
      {
        errno = EINVAL;
        return -1;
      }
      if (f->counter == 0)
      {
        errno = EAGAIN;
        return -1;
      }
      uint64_t v = f->semaphore ? 1 : f->counter;
      f->counter -= v;
      memcpy(buf, &v, 8);
      return 8;
    }
    case K_TIMERFD:
    {
      if (n < 8)
      {
        errno = EINVAL;
        return -1;
      }
      uint64_t c = timerCount(*f, mcint_now());
      if (c == 0)
      {
        errno = EAGAIN;
        return -1;
      }
      memcpy(buf, &c, 8);
      if (f->intervalNs)
        f->nextNs += c * f->intervalNs;
      else
        f->nextNs = 0;
      for (int e = 0; e < NFD; ++e)
        if (ST->fds[e].kind == K_EPOLL)
          for (Reg &r : ST->fds[e].regs)
            if (r.fd == fd)
              r.lastTimerCount = 0;
      return 8;
    }
    case K_TCP:
      return tcpRecv(fd - BASE, buf, n, 0);
    case K_UDP:
      return udpRecv(fd - BASE, buf, n, 0, nullptr, nullptr);
    default:
      errno = EINVAL;
      return -1;
    }
  }
  ssize_t write(int fd, const void *buf, size_t n)
  {
    Fd *f = (fd >= BASE && active()) ? get(fd) : nullptr;
    if (!f)
      return ret_errno(rawsys(SYS_write, fd, (long)buf, long(n)));
    sysPoint("write");
    f = get(fd);
    if (!f)
    {
      errno = EBADF;
      return -1;
    }
    switch (f->kind)
    {
    case K_EVENTFD:
    {
      if (n < 8)
      {
        errno = EINVAL;
        return -1;
      }
      uint64_t v;
      memcpy(&v, buf, 8);
      if (v == UINT64_MAX)
      {
        errno = EINVAL;
        return -1;
      }
      if (f->counter > UINT64_MAX - 1 - v)
      {
        errno = EAGAIN;
        return -1;
      }
      f->counter += v;
      if (v)
        notify(fd - BASE, EPOLLIN);
      return 8;
    }
    case K_TCP:
      return tcpSend(fd - BASE, buf, n, 0);
    case K_UDP:
      return udpSend(fd - BASE, buf, n, nullptr);
    default:
      errno = EINVAL;
      return -1;
    }
  }
  int close(int fd)
  {
    Fd *f = (fd >= BASE && active()) ? get(fd) : nullptr;
    if (!f)
    {
      if (fd >= BASE && fd < BASE + NFD && active())
      {
        errno = EBADF; // double close of a simulated descriptor
        return -1;
      }
      return int(ret_errno(rawsys(SYS_close, fd)));
    }
    sysPoint("close");
    if (!get(fd))
    {
      errno = EBADF;
      return -1;
    }
    closeSim(fd);
    return 0;
  }

  int socket(int domain, int type, int protocol)
  {
    if (!active() || (domain != AF_INET && domain != AF_INET6))
      return int(ret_errno(rawsys(SYS_socket, domain, type, protocol)));
    int base = type & 0xf;
    if (base != SOCK_STREAM && base != SOCK_DGRAM)
      return int(ret_errno(rawsys(SYS_socket, domain, type, protocol)));
    int fd = allocFd(base == SOCK_STREAM ? K_TCP : K_UDP);
    if (fd < 0)
      return -1;
    Fd *f = get(fd);
    f->nonblock = type & SOCK_NONBLOCK;
    f->local.family = domain;
    return fd;
  }
  int bind(int fd, const struct sockaddr *sa, socklen_t len)
  {
    Fd *f = active() ? get(fd) : nullptr;
    if (!f)
      return int(ret_errno(rawsys(SYS_bind, fd, (long)sa, len)));
    Addr a;
    if (!fromSockaddr(sa, len, a))
    {
      errno = EINVAL;
      return -1;
    }
    if (a.port == 0)
      a.port = ST->nextEphemeral++;
    else
    {
      for (int i = 0; i < NFD; ++i)
      {
        Fd &o = ST->fds[i];
        if (&o != f && o.kind == f->kind && o.bound && o.local.port == a.port && (o.kind == K_UDP || o.st == T_LISTEN) &&
            (o.local.any() || a.any() || memcmp(o.local.a, a.a, 16) == 0))
        {
          errno = EADDRINUSE;
          return -1;
        }
      }
    }
    f->local = a;
    f->bound = true;
    return 0;
  }
  int listen(int fd, int backlog)
  {
    Fd *f = active() ? get(fd) : nullptr;
    if (!f)
      return int(ret_errno(rawsys(SYS_listen, fd, backlog)));
    if (f->kind != K_TCP)
    {
      errno = EOPNOTSUPP;
      return -1;
    }
    if (!f->bound)
      assignLocal(*f, f->local.family ? f->local.family : AF_INET, nullptr);
    f->st = T_LISTEN;
    return 0;
  }
  int accept4(int fd, struct sockaddr *sa, socklen_t *len, int flags)
  {
    Fd *f = active() ? get(fd) : nullptr;
    if (!f)
      return int(ret_errno(rawsys(SYS_accept4, fd, (long)sa, (long)len, flags)));
    sysPoint("accept");
    f = get(fd);
    if (!f || f->kind != K_TCP || f->st != T_LISTEN)
    {
      errno = f ? EINVAL : EBADF;
      return -1;
    }
    if (f->acceptq.empty())
    {
      errno = EAGAIN;
      return -1;
    }
    int s = f->acceptq.front();
    f->acceptq.pop_front();
    Fd &srv = ST->fds[s];
    srv.accepted = true;
    srv.nonblock = flags & SOCK_NONBLOCK;
    if (sa && len)
      toSockaddr(srv.peerAddr, sa, len);
    return BASE + s;
  }
  int accept(int fd, struct sockaddr *sa, socklen_t *len) { return accept4(fd, sa, len, 0); }

  int connect(int fd, const struct sockaddr *sa, socklen_t len)
  {
    Fd *f = active() ? get(fd) : nullptr;
    if (!f)
      return int(ret_errno(rawsys(SYS_connect, fd, (long)sa, len)));
    Addr dst;
    if (!fromSockaddr(sa, len, dst))
    {
      errno = EINVAL;
      return -1;
    }
    sysPoint("connect");
    f = get(fd);
    if (!f)
    {
      errno = EBADF;
      return -1;
    }
    if (f->kind == K_UDP)
    {
      assignLocal(*f, dst.family, nullptr);
      f->peerAddr = dst;
      f->connected = true;
      return 0;
    }
    if (f->st == T_ESTAB)
    {
      errno = EISCONN;
      return -1;
    }
    if (f->st == T_CONNECTING)
    {
      errno = EALREADY;
      return -1;
    }
    assignLocal(*f, dst.family, nullptr);
    f->peerAddr = dst;
    int l = findListener(dst);
    SimkRoute injected = SimkRoute(0);
    for (auto &cf : ST->connectFaults)
      if (cf.port == dst.port)
      {
        if (cf.next < cf.script.size())
          injected = SimkRoute(cf.script[cf.next]);
        cf.next++;
        break;
      }
    if (l < 0 || injected)
    {
      SimkRoute r = injected ? injected : routeFor(dst);
      if (r == SIMK_REFUSE_NOW)
      {
        errno = ECONNREFUSED;
        return -1;
      }
      if (r == SIMK_UNREACH_NOW)
      {
        errno = ENETUNREACH;
        return -1;
      }
      if (r == SIMK_BLACKHOLE)
      {
        f->st = T_CONNECTING;
        errno = EINPROGRESS;
        return -1;
      }
      f->st = T_FAILED;
      f->soError = ECONNREFUSED;
      notify(fd - BASE, EPOLLIN | EPOLLOUT | EPOLLERR | EPOLLHUP);
      errno = EINPROGRESS;
      return -1;
    }
    // loopback to a simulated listener: the handshake completes at once (the caller still sees
    // EINPROGRESS, exactly like a non-blocking connect on Linux loopback)
    int sfd = allocFd(K_TCP);
    if (sfd < 0)
    {
      errno = ECONNREFUSED;
      return -1;
    }
    f = get(fd); // allocFd does not move storage, but keep the pattern
    Fd &srv = ST->fds[sfd - BASE];
    Fd &lst = ST->fds[l];
    srv.st = T_ESTAB;
    srv.accepted = false;
    srv.local = lst.local;
    if (srv.local.any())
      memcpy(srv.local.a, dst.a, 16);
    srv.bound = true;
    srv.peerAddr = f->local;
    srv.peer = fd - BASE;
    srv.connId = f->connId = ST->nextConnId++;
    f->peer = sfd - BASE;
    f->st = T_ESTAB;
    lst.acceptq.push_back(sfd - BASE);
    notify(l, EPOLLIN);
    notify(fd - BASE, EPOLLOUT);
    if (f->nonblock)
    {
      errno = EINPROGRESS;
      return -1;
    }
    return 0;
  }

  int getsockopt(int fd, int level, int name, void *val, socklen_t *len)
  {
    Fd *f = active() ? get(fd) : nullptr;
    if (!f)
      return int(ret_errno(rawsys(SYS_getsockopt, fd, level, name, (long)val, (long)len)));
    int v = 0;
    if (level == SOL_SOCKET && name == SO_ERROR)
    {
      v = f->soError;
      if (f->st == T_FAILED || f->st == T_RESET)
        f->soError = 0;
    }
    else if (level == SOL_SOCKET && name == SO_RCVBUF)
      v = f->rcap;
    else if (level == SOL_SOCKET && name == SO_TYPE)
      v = f->kind == K_UDP ? SOCK_DGRAM : SOCK_STREAM;
    if (val && len && *len >= sizeof(int))
    {
      memcpy(val, &v, sizeof(int));
      *len = sizeof(int);
    }
    return 0;
  }
  int setsockopt(int fd, int level, int name, const void *val, socklen_t len)
  {
    Fd *f = active() ? get(fd) : nullptr;
    if (!f)
      return int(ret_errno(rawsys(SYS_setsockopt, fd, level, name, (long)val, len)));
    if (level == SOL_SOCKET && name == SO_LINGER && val && len >= sizeof(struct linger))
    {
      const struct linger *l = (const struct linger *)val;
      f->lingerAbort = l->l_onoff && l->l_linger == 0;
    }
    return 0; // buffer sizes are owned by the harness (simk_cfg / simk_set_rcvbuf)
  }
  int getsockname(int fd, struct sockaddr *sa, socklen_t *len)
  {
    Fd *f = active() ? get(fd) : nullptr;
    if (!f)
      return int(ret_errno(rawsys(SYS_getsockname, fd, (long)sa, (long)len)));
    Addr a = f->local;
    if (!a.family)
      a.family = AF_INET;
    toSockaddr(a, sa, len);
    return 0;
  }
  int getpeername(int fd, struct sockaddr *sa, socklen_t *len)
  {
    Fd *f = active() ? get(fd) : nullptr;
    if (!f)
      return int(ret_errno(rawsys(SYS_getpeername, fd, (long)sa, (long)len)));
    bool conn = (f->kind == K_TCP && f->st == T_ESTAB) || (f->kind == K_UDP && f->connected);
    if (!conn)
    {
      errno = ENOTCONN;
      return -1;
    }
    toSockaddr(f->peerAddr, sa, len);
    return 0;
  }
  int shutdown(int fd, int how)
  {
    Fd *f = active() ? get(fd) : nullptr;
    if (!f)
      return int(ret_errno(rawsys(SYS_shutdown, fd, how)));
    sysPoint("shutdown");
    f = get(fd);
    if (!f)
    {
      errno = EBADF;
      return -1;
    }
    if (f->kind != K_TCP || f->st != T_ESTAB)
    {
      errno = ENOTCONN;
      return -1;
    }
    if (how == SHUT_WR || how == SHUT_RDWR)
    {
      if (!f->writeShut)
      {
        f->writeShut = true;
        if (f->peer >= 0)
        {
          Fd &p = ST->fds[f->peer];
          if (!p.finReceived)
          {
            p.finReceived = true;
            notify(f->peer, EPOLLIN | EPOLLRDHUP | (p.writeShut ? EPOLLHUP : 0));
          }
        }
        if (f->finReceived)
          notify(fd - BASE, EPOLLHUP);
      }
    }
    if (how == SHUT_RD || how == SHUT_RDWR)
      f->readShut = true;
    return 0;
  }

  ssize_t send(int fd, const void *buf, size_t n, int flags)
  {
    Fd *f = active() ? get(fd) : nullptr;
    if (!f)
      return ret_errno(rawsys(SYS_sendto, fd, (long)buf, long(n), flags, 0, 0));
    sysPoint("send");
    f = get(fd);
    if (!f)
    {
      errno = EBADF;
      return -1;
    }
    if (f->kind == K_TCP)
      return tcpSend(fd - BASE, buf, n, flags);
    if (f->kind == K_UDP)
      return udpSend(fd - BASE, buf, n, nullptr);
    errno = ENOTSOCK;
    return -1;
  }
  ssize_t sendto(int fd, const void *buf, size_t n, int flags, const struct sockaddr *to, socklen_t tolen)
  {
    Fd *f = active() ? get(fd) : nullptr;
    if (!f)
      return ret_errno(rawsys(SYS_sendto, fd, (long)buf, long(n), flags, (long)to, tolen));
    sysPoint("sendto");
    f = get(fd);
    if (!f)
    {
      errno = EBADF;
      return -1;
    }
    if (f->kind == K_TCP)
      return tcpSend(fd - BASE, buf, n, flags);
    Addr a;
    bool have = to && fromSockaddr(to, tolen, a);
    return udpSend(fd - BASE, buf, n, have ? &a : nullptr);
  }
  ssize_t recv(int fd, void *buf, size_t n, int flags)
  {
    Fd *f = active() ? get(fd) : nullptr;
    if (!f)
      return ret_errno(rawsys(SYS_recvfrom, fd, (long)buf, long(n), flags, 0, 0));
    sysPoint("recv");
    f = get(fd);
    if (!f)
    {
      errno = EBADF;
      return -1;
    }
    if (f->kind == K_TCP)
      return tcpRecv(fd - BASE, buf, n, flags);
    if (f->kind == K_UDP)
      return udpRecv(fd - BASE, buf, n, flags, nullptr, nullptr);
    errno = ENOTSOCK;
    return -1;
  }
  ssize_t recvfrom(int fd, void *buf, size_t n, int flags, struct sockaddr *from, socklen_t *fromlen)
  {
    Fd *f = active() ? get(fd) : nullptr;
    if (!f)
      return ret_errno(rawsys(SYS_recvfrom, fd, (long)buf, long(n), flags, (long)from, (long)fromlen));
    sysPoint("recvfrom");
    f = get(fd);
    if (!f)
    {
      errno = EBADF;
      return -1;
    }
    if (f->kind == K_TCP)
    {
      long r = tcpRecv(fd - BASE, buf, n, flags);
      if (r >= 0 && from && fromlen)
        toSockaddr(f->peerAddr, from, fromlen);
      return r;
    }
    return udpRecv(fd - BASE, buf, n, flags, from, fromlen);
  }
  ssize_t sendmsg(int fd, const struct msghdr *msg, int flags)
  {
    Fd *f = active() ? get(fd) : nullptr;
    if (!f)
      return ret_errno(rawsys(SYS_sendmsg, fd, (long)msg, flags));
    std::string all;
    for (size_t i = 0; i < msg->msg_iovlen; ++i)
      all.append((const char *)msg->msg_iov[i].iov_base, msg->msg_iov[i].iov_len);
    if (msg->msg_name)
      return sendto(fd, all.data(), all.size(), flags, (const sockaddr *)msg->msg_name, msg->msg_namelen);
    return send(fd, all.data(), all.size(), flags);
  }
  ssize_t recvmsg(int fd, struct msghdr *msg, int flags)
  {
    Fd *f = active() ? get(fd) : nullptr;
    if (!f)
      return ret_errno(rawsys(SYS_recvmsg, fd, (long)msg, flags));
    if (msg->msg_iovlen < 1)
    {
      errno = EINVAL;
      return -1;
    }
    socklen_t nl = msg->msg_namelen;
    ssize_t r = recvfrom(fd, msg->msg_iov[0].iov_base, msg->msg_iov[0].iov_len, flags, (sockaddr *)msg->msg_name, msg->msg_name ? &nl : nullptr);
    if (r >= 0)
    {
      msg->msg_namelen = nl;
      msg->msg_controllen = 0;
      msg->msg_flags = 0;
    }
    return r;
  }
  ssize_t writev(int fd, const struct iovec *iov, int cnt)
  {
    Fd *f = (fd >= BASE && active()) ? get(fd) : nullptr;
    if (!f)
      return ret_errno(rawsys(SYS_writev, fd, (long)iov, cnt));
    std::string all;
    for (int i = 0; i < cnt; ++i)
      all.append((const char *)iov[i].iov_base, iov[i].iov_len);
    return write(fd, all.data(), all.size());
  }
  ssize_t readv(int fd, const struct iovec *iov, int cnt)
  {
    Fd *f = (fd >= BASE && active()) ? get(fd) : nullptr;
    if (!f)
      return ret_errno(rawsys(SYS_readv, fd, (long)iov, cnt));
    if (cnt < 1)
      return 0;
    return read(fd, iov[0].iov_base, iov[0].iov_len);
  }
  int ioctl(int fd, unsigned long req, ...)
  {
    va_list ap;
    va_start(ap, req);
    void *arg = va_arg(ap, void *);
    va_end(ap);
    Fd *f = (fd >= BASE && active()) ? get(fd) : nullptr;
    if (!f)
      return int(ret_errno(rawsys(SYS_ioctl, fd, long(req), (long)arg)));
    if (req == FIONBIO)
    {
      f->nonblock = arg && *(int *)arg;
      return 0;
    }
    if (req == FIONREAD)
    {
      *(int *)arg = f->kind == K_TCP ? int(f->rbuf.size()) : (f->dq.empty() ? 0 : int(f->dq.front().data.size()));
      return 0;
    }
    errno = ENOTTY;
    return -1;
  }
  int fcntl(int fd, int cmd, ...)
  {
    va_list ap;
    va_start(ap, cmd);
    long arg = va_arg(ap, long);
    va_end(ap);
    Fd *f = (fd >= BASE && active()) ? get(fd) : nullptr;
    if (!f)
      return int(ret_errno(rawsys(SYS_fcntl, fd, cmd, arg)));
    if (cmd == F_GETFL)
      return O_RDWR | (f->nonblock ? O_NONBLOCK : 0);
    if (cmd == F_SETFL)
    {
      f->nonblock = arg & O_NONBLOCK;
      return 0;
    }
    if (cmd == F_GETFD || cmd == F_SETFD)
      return 0;
    errno = EINVAL;
    return -1;
  }
  int fcntl64(int fd, int cmd, ...)
  {
    va_list ap;
    va_start(ap, cmd);
    long arg = va_arg(ap, long);
    va_end(ap);
    return fcntl(fd, cmd, arg);
  }
}

// Race-detector / atomic-scheduling-point interface (T flavour harnesses; see tsan_shim.cpp).
#pragma once
#include <cstddef>
// Watch [p, p+len): plain accesses are race-checked against C++ happens-before; if
// atomicsArePoints, atomic operations on addresses inside become scheduling points.
void mc_watch(const void *p, size_t len, const char *name, bool atomicsArePoints = true);
void mc_unwatch(const void *p);
void mc_race_detection(bool on);
// called by mc.cpp hooks (weak references there)
void tsanshim_acquire(const void *obj);
void tsanshim_release(const void *obj);
void tsanshim_thread_create(int parent, int child);
void tsanshim_thread_join(int joiner, int child);

// Internal interface between mc.cpp, simk.cpp and the TSan-ABI shim.
#pragma once
#include <cstdint>

extern uint64_t (*mcint_ext_next_deadline)(uint64_t now); // earliest external (timerfd) deadline > now, 0 = none
extern void (*mcint_ext_on_time)(uint64_t now);           // called after virtual time advanced
extern void (*mcint_child_begin)();                       // called in a fresh execution child before the body

bool mcint_managed();      // calling thread is a scheduler thread inside an execution and not inside the runtime
bool mcint_in_child();
uint64_t mcint_now();
uint64_t mcint_wall();
void mcint_point(const char *what);
void mcint_atomic_point();
bool mcint_block(bool (*enabled)(void *), void *arg, uint64_t deadlineNs, const char *what);
int mcint_tid();
int mcint_nthreads();
const char *mcint_thread_label(int t);
[[noreturn]] void mcint_internal_error(const char *what);

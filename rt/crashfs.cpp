// crashfs: see crashfs.h.  Compiled WITHOUT sanitizer instrumentation and linked into the harness
// executable, so that its definitions of the libc entry points take precedence over libc's (and over
// libasan's interceptors, which are reached next through RTLD_NEXT).
#ifndef _GNU_SOURCE
#define _GNU_SOURCE
#endif
#include "crashfs.h"

#include <cerrno>
#include <cstdarg>
#include <cstdio>
#include <cstring>
#include <dirent.h>
#include <dlfcn.h>
#include <fcntl.h>
#include <sys/stat.h>
#include <sys/syscall.h>
#include <sys/types.h>
#include <sys/uio.h>
#include <unistd.h>

namespace
{
// ---- real functions ------------------------------------------------------------------------
typedef int (*open_t)(const char *, int, ...);
typedef int (*openat_t)(int, const char *, int, ...);
typedef int (*creat_t)(const char *, mode_t);
typedef FILE *(*fopen_t)(const char *, const char *);
typedef ssize_t (*write_t)(int, const void *, size_t);
typedef ssize_t (*writev_t)(int, const struct iovec *, int);
typedef ssize_t (*pwrite_t)(int, const void *, size_t, off_t);
typedef int (*ftruncate_t)(int, off_t);
typedef int (*truncate_t)(const char *, off_t);
typedef int (*rename_t)(const char *, const char *);
typedef int (*renameat_t)(int, const char *, int, const char *);
typedef int (*renameat2_t)(int, const char *, int, const char *, unsigned);
typedef int (*unlink_t)(const char *);
typedef int (*unlinkat_t)(int, const char *, int);
typedef int (*fdop_t)(int);
typedef int (*fclose_t)(FILE *);
typedef int (*dup2_t)(int, int);
typedef int (*dup3_t)(int, int, int);
typedef size_t (*fwrite_t)(const void *, size_t, size_t, FILE *);
typedef int (*fputs_t)(const char *, FILE *);
typedef int (*link_t)(const char *, const char *);
typedef int (*mkdir_t)(const char *, mode_t);
typedef ssize_t (*sendfile_t)(int, int, off_t *, size_t);

template <typename T> T resolve(T &slot, const char *name)
{
  if (!slot)
    slot = (T)dlsym(RTLD_NEXT, name);
  return slot;
}
#define REAL(type, name)                                                                                                               \
  static type real_##name = nullptr;                                                                                                   \
  static inline type get_##name() { return real_##name ? real_##name : resolve(real_##name, #name); }
REAL(open_t, open)
REAL(open_t, open64)
REAL(openat_t, openat)
REAL(openat_t, openat64)
REAL(creat_t, creat)
REAL(fopen_t, fopen)
REAL(fopen_t, fopen64)
REAL(write_t, write)
REAL(writev_t, writev)
REAL(pwrite_t, pwrite)
REAL(pwrite_t, pwrite64)
REAL(ftruncate_t, ftruncate)
REAL(ftruncate_t, ftruncate64)
REAL(truncate_t, truncate)
REAL(truncate_t, truncate64)
REAL(rename_t, rename)
REAL(renameat_t, renameat)
REAL(renameat2_t, renameat2)
REAL(unlink_t, unlink)
REAL(unlinkat_t, unlinkat)
REAL(unlink_t, remove)
REAL(fdop_t, fsync)
REAL(fdop_t, fdatasync)
REAL(fdop_t, close)
REAL(fdop_t, dup)
REAL(dup2_t, dup2)
REAL(dup3_t, dup3)
REAL(fclose_t, fclose)
REAL(fwrite_t, fwrite)
REAL(fputs_t, fputs)
REAL(link_t, link)
REAL(link_t, symlink)
REAL(mkdir_t, mkdir)
REAL(sendfile_t, sendfile)

// ---- recorder state ----------------------------------------------------------------------------
volatile int g_on = 0; // recording?
volatile int g_lock = 0;
std::string *g_root = nullptr; // "<root>/"
std::vector<cfs::Event> *g_log = nullptr;
int g_curOp = -2;
uint64_t g_unmodelled = 0;
std::string *g_unmodelledWhat = nullptr;
uint64_t g_hookCalls = 0;
volatile int g_elideSync = 0; // fsync/fdatasync return 0 without reaching the disk

struct Tracked
{
  bool used = false;
  bool append = false;
  std::string rel;
};
constexpr int MAXFD = 4096;
Tracked *g_fd = nullptr; // [MAXFD]

__thread int tl_in = 0; // re-entrancy guard (our own bookkeeping may allocate, which never calls back here, but be safe)

struct Lock
{
  Lock()
  {
    while (__atomic_exchange_n(&g_lock, 1, __ATOMIC_ACQUIRE))
    {
      // another thread of the same process is inside the recorder; it never blocks while holding the lock
    }
  }
  ~Lock() { __atomic_store_n(&g_lock, 0, __ATOMIC_RELEASE); }
};
struct In
{
  In() { ++tl_in; }
  ~In() { --tl_in; }
};
inline bool active() { return g_on && tl_in == 0; }

void ensureState()
{
  if (!g_root)
    g_root = new std::string();
  if (!g_log)
    g_log = new std::vector<cfs::Event>();
  if (!g_unmodelledWhat)
    g_unmodelledWhat = new std::string();
  if (!g_fd)
    g_fd = new Tracked[MAXFD];
}

// Path relative to the root, or empty if the path is not below the root.
std::string relOf(const char *path)
{
  if (!path || !g_root || g_root->empty())
    return "";
  std::string p;
  if (path[0] != '/')
  {
    char cwd[4096];
    if (!getcwd(cwd, sizeof cwd))
      return "";
    p = std::string(cwd) + "/" + path;
  }
  else
    p = path;
  if (p.size() > g_root->size() && p.compare(0, g_root->size(), *g_root) == 0)
    return p.substr(g_root->size());
  return "";
}

void unmodelled(const std::string &what)
{
  ++g_unmodelled;
  if (g_unmodelledWhat && g_unmodelledWhat->size() < 600)
    *g_unmodelledWhat += what + "; ";
}

cfs::Event &push(cfs::Kind k)
{
  g_log->emplace_back();
  cfs::Event &e = g_log->back();
  e.kind = k;
  e.op = g_curOp;
  return e;
}

bool existsReal(const char *path, uint64_t *size)
{
  struct stat st;
  if (::stat(path, &st) != 0)
    return false;
  if (size)
    *size = uint64_t(st.st_size);
  return true;
}

// Called before the real open: what will it do to the file?
struct OpenPlan
{
  std::string rel;
  bool willCreate = false, willTrunc = false, append = false, writable = false;
};
OpenPlan planOpen(const char *path, int flags)
{
  OpenPlan pl;
  pl.rel = relOf(path);
  if (pl.rel.empty())
    return pl;
  uint64_t sz = 0;
  bool ex = existsReal(path, &sz);
  int acc = flags & O_ACCMODE;
  pl.writable = acc == O_WRONLY || acc == O_RDWR;
  pl.append = (flags & O_APPEND) != 0;
  pl.willCreate = (flags & O_CREAT) && !ex;
  pl.willTrunc = (flags & O_TRUNC) && ex && pl.writable;
  return pl;
}
void afterOpen(const OpenPlan &pl, int fd)
{
  if (pl.rel.empty() || fd < 0)
    return;
  Lock l;
  if (pl.willCreate || pl.willTrunc)
  {
    cfs::Event &e = push(cfs::OPEN);
    e.path = pl.rel;
    e.created = pl.willCreate;
    e.truncated = pl.willTrunc;
  }
  if (pl.writable)
  {
    if (fd < MAXFD)
    {
      g_fd[fd].used = true;
      g_fd[fd].append = pl.append;
      g_fd[fd].rel = pl.rel;
    }
    else
      unmodelled("fd beyond table");
  }
}

int flagsOfMode(const char *mode)
{
  int flags = 0;
  bool plus = strchr(mode, '+') != nullptr;
  switch (mode[0])
  {
  case 'r':
    flags = plus ? O_RDWR : O_RDONLY;
    break;
  case 'w':
    flags = (plus ? O_RDWR : O_WRONLY) | O_CREAT | O_TRUNC;
    break;
  case 'a':
    flags = (plus ? O_RDWR : O_WRONLY) | O_CREAT | O_APPEND;
    break;
  default:
    break;
  }
  return flags;
}

Tracked *tracked(int fd)
{
  if (fd < 0 || fd >= MAXFD || !g_fd || !g_fd[fd].used)
    return nullptr;
  return &g_fd[fd];
}

uint64_t offsetBeforeWrite(int fd, const Tracked *t)
{
  if (t->append)
  {
    struct stat st;
    if (fstat(fd, &st) == 0)
      return uint64_t(st.st_size);
    return 0;
  }
  off_t o = lseek(fd, 0, SEEK_CUR);
  return o < 0 ? 0 : uint64_t(o);
}

void logWrite(const Tracked *t, uint64_t off, const void *buf, size_t n)
{
  if (n == 0)
    return;
  Lock l;
  cfs::Event &e = push(cfs::WRITE);
  e.path = t->rel;
  e.off = off;
  e.len = n;
  e.data.assign((const char *)buf, n);
}

void forget(int fd)
{
  if (fd >= 0 && fd < MAXFD && g_fd && g_fd[fd].used)
  {
    Lock l;
    g_fd[fd].used = false;
    g_fd[fd].rel.clear();
  }
}
} // namespace

// =====================================================================================================
// public API
// =====================================================================================================
namespace cfs
{
void start(const std::string &root)
{
  In in;
  ensureState();
  Lock l;
  *g_root = root + "/";
  g_log->clear();
  g_curOp = -2;
  g_unmodelled = 0;
  g_unmodelledWhat->clear();
  for (int i = 0; i < MAXFD; ++i)
    g_fd[i].used = false;
  g_on = 1;
}
void stop()
{
  In in;
  Lock l;
  g_on = 0;
  if (g_fd)
    for (int i = 0; i < MAXFD; ++i)
      g_fd[i].used = false;
}
bool recording() { return g_on != 0; }
void mark(Kind k, int op)
{
  if (!g_on)
    return;
  In in;
  Lock l;
  if (k == BEGIN)
    g_curOp = op;
  Event &e = push(k);
  e.op = op;
  if (k == END)
    g_curOp = -2;
}
const std::vector<Event> &log()
{
  ensureState();
  return *g_log;
}
uint64_t unmodelled() { return g_unmodelled; }
std::string unmodelledWhat() { return g_unmodelledWhat ? *g_unmodelledWhat : std::string(); }
uint64_t hookCalls() { return g_hookCalls; }
void elideSync(bool on) { g_elideSync = on ? 1 : 0; }

std::string describe(const Event &e)
{
  char b[256];
  switch (e.kind)
  {
  case BEGIN:
    snprintf(b, sizeof b, "begin(%d)", e.op);
    break;
  case END:
    snprintf(b, sizeof b, "end(%d)", e.op);
    break;
  case OPEN:
    snprintf(b, sizeof b, "open(%s%s%s)", e.path.c_str(), e.created ? ",create" : "", e.truncated ? ",trunc" : "");
    break;
  case WRITE:
    snprintf(b, sizeof b, "write(%s,off=%llu,len=%llu)", e.path.c_str(), (unsigned long long)e.off, (unsigned long long)e.len);
    break;
  case TRUNC:
    snprintf(b, sizeof b, "truncate(%s,%llu)", e.path.c_str(), (unsigned long long)e.len);
    break;
  case RENAME:
    snprintf(b, sizeof b, "rename(%s>%s)", e.path.c_str(), e.path2.c_str());
    break;
  case UNLINK:
    snprintf(b, sizeof b, "unlink(%s)", e.path.c_str());
    break;
  case SYNC:
    snprintf(b, sizeof b, "sync(%s)", e.path.c_str());
    break;
  default:
    snprintf(b, sizeof b, "?");
  }
  return b;
}

void Image::apply(const Event &e)
{
  switch (e.kind)
  {
  case OPEN:
    if (e.created)
      files.emplace(e.path, std::string());
    if (e.truncated)
      files[e.path].clear();
    break;
  case WRITE:
    applyPartial(e, e.len);
    break;
  case TRUNC:
  {
    std::string &f = files[e.path];
    f.resize(size_t(e.len), '\0');
    break;
  }
  case RENAME:
  {
    auto it = files.find(e.path);
    if (it != files.end())
    {
      std::string c = std::move(it->second);
      files.erase(it);
      files[e.path2] = std::move(c);
    }
    break;
  }
  case UNLINK:
    files.erase(e.path);
    break;
  default:
    break;
  }
}
void Image::applyPartial(const Event &e, uint64_t cut)
{
  if (e.kind != WRITE || cut == 0)
    return;
  std::string &f = files[e.path];
  if (f.size() < e.off)
    f.resize(size_t(e.off), '\0'); // hole
  if (f.size() < e.off + cut)
    f.resize(size_t(e.off + cut));
  memcpy(&f[size_t(e.off)], e.data.data(), size_t(cut));
}
uint64_t Image::hash() const
{
  uint64_t h = 1469598103934665603ull;
  auto mix = [&](const std::string &s)
  {
    for (unsigned char c : s)
    {
      h ^= c;
      h *= 1099511628211ull;
    }
    h ^= 0xff;
    h *= 1099511628211ull;
    h ^= s.size();
    h *= 1099511628211ull;
  };
  for (auto &kv : files)
  {
    mix(kv.first);
    mix(kv.second);
  }
  return h;
}
bool Image::materialise(const std::string &dir) const
{
  In in;
  // remove whatever is there and not part of the image
  DIR *d = opendir(dir.c_str());
  if (!d)
    return false;
  std::vector<std::string> present;
  while (struct dirent *de = readdir(d))
  {
    if (!strcmp(de->d_name, ".") || !strcmp(de->d_name, ".."))
      continue;
    present.push_back(de->d_name);
  }
  closedir(d);
  // unlink + create rather than truncate in place: ext4 (auto_da_alloc) answers "replace via truncate"
  // with a synchronous flush of the new data on close, which would put every recovery on the disk
  for (auto &n : present)
    get_unlink()((dir + "/" + n).c_str());
  for (auto &kv : files)
  {
    std::string p = dir + "/" + kv.first;
    int fd = get_open()(p.c_str(), O_WRONLY | O_CREAT | O_EXCL, 0644);
    if (fd < 0)
      return false;
    size_t off = 0;
    while (off < kv.second.size())
    {
      ssize_t r = get_write()(fd, kv.second.data() + off, kv.second.size() - off);
      if (r <= 0)
      {
        get_close()(fd);
        return false;
      }
      off += size_t(r);
    }
    get_close()(fd);
  }
  return true;
}
Image Image::readDir(const std::string &dir)
{
  In in;
  Image im;
  DIR *d = opendir(dir.c_str());
  if (!d)
    return im;
  while (struct dirent *de = readdir(d))
  {
    if (!strcmp(de->d_name, ".") || !strcmp(de->d_name, ".."))
      continue;
    std::string p = dir + "/" + de->d_name;
    std::string c;
    int fd = get_open()(p.c_str(), O_RDONLY, 0);
    if (fd >= 0)
    {
      char buf[65536];
      ssize_t r;
      while ((r = read(fd, buf, sizeof buf)) > 0)
        c.append(buf, size_t(r));
      get_close()(fd);
    }
    im.files[de->d_name] = c;
  }
  closedir(d);
  return im;
}
void removeTree(const std::string &dir)
{
  In in;
  DIR *d = opendir(dir.c_str());
  if (d)
  {
    std::vector<std::string> present;
    while (struct dirent *de = readdir(d))
    {
      if (!strcmp(de->d_name, ".") || !strcmp(de->d_name, ".."))
        continue;
      present.push_back(de->d_name);
    }
    closedir(d);
    for (auto &n : present)
    {
      std::string p = dir + "/" + n;
      struct stat st;
      if (lstat(p.c_str(), &st) == 0 && S_ISDIR(st.st_mode))
        removeTree(p);
      else
        get_unlink()(p.c_str());
    }
  }
  rmdir(dir.c_str());
}
bool makeDirs(const std::string &dir)
{
  In in;
  for (size_t i = 1; i <= dir.size(); ++i)
    if (i == dir.size() || dir[i] == '/')
    {
      std::string p = dir.substr(0, i);
      if (get_mkdir()(p.c_str(), 0755) != 0 && errno != EEXIST)
        return false;
    }
  return true;
}
} // namespace cfs

// =====================================================================================================
// interposed libc entry points
// =====================================================================================================
extern "C"
{
  static int do_open(open_t real, const char *path, int flags, mode_t mode)
  {
    if (!active())
      return real(path, flags, mode);
    In in;
    ++g_hookCalls;
    OpenPlan pl = planOpen(path, flags);
    int fd = real(path, flags, mode);
    afterOpen(pl, fd);
    return fd;
  }
  int open(const char *path, int flags, ...)
  {
    mode_t mode = 0;
    if (flags & (O_CREAT | O_TMPFILE))
    {
      va_list ap;
      va_start(ap, flags);
      mode = (mode_t)va_arg(ap, int);
      va_end(ap);
    }
    return do_open(get_open(), path, flags, mode);
  }
  int open64(const char *path, int flags, ...)
  {
    mode_t mode = 0;
    if (flags & (O_CREAT | O_TMPFILE))
    {
      va_list ap;
      va_start(ap, flags);
      mode = (mode_t)va_arg(ap, int);
      va_end(ap);
    }
    return do_open(get_open64(), path, flags, mode);
  }
  static int do_openat(openat_t real, int dirfd, const char *path, int flags, mode_t mode)
  {
    if (!active())
      return real(dirfd, path, flags, mode);
    In in;
    ++g_hookCalls;
    if (dirfd != AT_FDCWD && path && path[0] != '/')
    {
      int acc = flags & O_ACCMODE;
      if (acc != O_RDONLY || (flags & (O_CREAT | O_TRUNC)))
      {
        Lock l;
        unmodelled(std::string("openat relative to a directory fd for writing: ") + path);
      }
      return real(dirfd, path, flags, mode);
    }
    OpenPlan pl = planOpen(path, flags);
    int fd = real(dirfd, path, flags, mode);
    afterOpen(pl, fd);
    return fd;
  }
  int openat(int dirfd, const char *path, int flags, ...)
  {
    mode_t mode = 0;
    if (flags & (O_CREAT | O_TMPFILE))
    {
      va_list ap;
      va_start(ap, flags);
      mode = (mode_t)va_arg(ap, int);
      va_end(ap);
    }
    return do_openat(get_openat(), dirfd, path, flags, mode);
  }
  int openat64(int dirfd, const char *path, int flags, ...)
  {
    mode_t mode = 0;
    if (flags & (O_CREAT | O_TMPFILE))
    {
      va_list ap;
      va_start(ap, flags);
      mode = (mode_t)va_arg(ap, int);
      va_end(ap);
    }
    return do_openat(get_openat64(), dirfd, path, flags, mode);
  }
  int creat(const char *path, mode_t mode)
  {
    if (!active())
      return get_creat()(path, mode);
    In in;
    ++g_hookCalls;
    OpenPlan pl = planOpen(path, O_WRONLY | O_CREAT | O_TRUNC);
    int fd = get_creat()(path, mode);
    afterOpen(pl, fd);
    return fd;
  }
  static FILE *do_fopen(fopen_t real, const char *path, const char *mode)
  {
    if (!active())
      return real(path, mode);
    In in;
    ++g_hookCalls;
    OpenPlan pl = planOpen(path, flagsOfMode(mode));
    FILE *f = real(path, mode);
    if (f)
      afterOpen(pl, fileno(f));
    return f;
  }
  FILE *fopen(const char *path, const char *mode) { return do_fopen(get_fopen(), path, mode); }
  FILE *fopen64(const char *path, const char *mode) { return do_fopen(get_fopen64(), path, mode); }

  ssize_t write(int fd, const void *buf, size_t n)
  {
    if (!active())
      return get_write()(fd, buf, n);
    Tracked *t = tracked(fd);
    if (!t)
      return get_write()(fd, buf, n);
    In in;
    ++g_hookCalls;
    uint64_t off = offsetBeforeWrite(fd, t);
    ssize_t r = get_write()(fd, buf, n);
    if (r > 0)
      logWrite(t, off, buf, size_t(r));
    return r;
  }
  ssize_t writev(int fd, const struct iovec *iov, int cnt)
  {
    if (!active())
      return get_writev()(fd, iov, cnt);
    Tracked *t = tracked(fd);
    if (!t)
      return get_writev()(fd, iov, cnt);
    In in;
    ++g_hookCalls;
    uint64_t off = offsetBeforeWrite(fd, t);
    ssize_t r = get_writev()(fd, iov, cnt);
    if (r > 0)
    {
      std::string all;
      size_t left = size_t(r);
      for (int i = 0; i < cnt && left > 0; ++i)
      {
        size_t k = iov[i].iov_len < left ? iov[i].iov_len : left;
        all.append((const char *)iov[i].iov_base, k);
        left -= k;
      }
      logWrite(t, off, all.data(), all.size());
    }
    return r;
  }
  static ssize_t do_pwrite(pwrite_t real, int fd, const void *buf, size_t n, off_t off)
  {
    if (!active())
      return real(fd, buf, n, off);
    Tracked *t = tracked(fd);
    if (!t)
      return real(fd, buf, n, off);
    In in;
    ++g_hookCalls;
    uint64_t o = t->append ? offsetBeforeWrite(fd, t) : uint64_t(off); // Linux: O_APPEND makes pwrite append
    ssize_t r = real(fd, buf, n, off);
    if (r > 0)
      logWrite(t, o, buf, size_t(r));
    return r;
  }
  ssize_t pwrite(int fd, const void *buf, size_t n, off_t off) { return do_pwrite(get_pwrite(), fd, buf, n, off); }
  ssize_t pwrite64(int fd, const void *buf, size_t n, off_t off) { return do_pwrite(get_pwrite64(), fd, buf, n, off); }

  static int do_ftruncate(ftruncate_t real, int fd, off_t len)
  {
    if (!active())
      return real(fd, len);
    Tracked *t = tracked(fd);
    if (!t)
      return real(fd, len);
    In in;
    ++g_hookCalls;
    int r = real(fd, len);
    if (r == 0)
    {
      Lock l;
      cfs::Event &e = push(cfs::TRUNC);
      e.path = t->rel;
      e.len = uint64_t(len);
    }
    return r;
  }
  int ftruncate(int fd, off_t len) { return do_ftruncate(get_ftruncate(), fd, len); }
  int ftruncate64(int fd, off_t len) { return do_ftruncate(get_ftruncate64(), fd, len); }
  static int do_truncate(truncate_t real, const char *path, off_t len)
  {
    if (!active())
      return real(path, len);
    In in;
    ++g_hookCalls;
    std::string rel = relOf(path);
    int r = real(path, len);
    if (r == 0 && !rel.empty())
    {
      Lock l;
      cfs::Event &e = push(cfs::TRUNC);
      e.path = rel;
      e.len = uint64_t(len);
    }
    return r;
  }
  int truncate(const char *path, off_t len) { return do_truncate(get_truncate(), path, len); }
  int truncate64(const char *path, off_t len) { return do_truncate(get_truncate64(), path, len); }

  static void logRename(const char *from, const char *to, int r)
  {
    std::string a = relOf(from), b = relOf(to);
    if (a.empty() && b.empty())
      return;
    Lock l;
    if (a.empty() || b.empty())
    {
      unmodelled(std::string("rename across the recording root: ") + from + " -> " + to);
      return;
    }
    if (r == 0)
    {
      cfs::Event &e = push(cfs::RENAME);
      e.path = a;
      e.path2 = b;
    }
  }
  int rename(const char *from, const char *to)
  {
    if (!active())
      return get_rename()(from, to);
    In in;
    ++g_hookCalls;
    int r = get_rename()(from, to);
    logRename(from, to, r);
    return r;
  }
  int renameat(int fd1, const char *from, int fd2, const char *to)
  {
    if (!active())
      return get_renameat()(fd1, from, fd2, to);
    In in;
    ++g_hookCalls;
    int r = get_renameat()(fd1, from, fd2, to);
    if ((fd1 != AT_FDCWD && from[0] != '/') || (fd2 != AT_FDCWD && to[0] != '/'))
    {
      Lock l;
      unmodelled("renameat relative to a directory fd");
    }
    else
      logRename(from, to, r);
    return r;
  }
  int renameat2(int fd1, const char *from, int fd2, const char *to, unsigned flags)
  {
    if (!active())
      return get_renameat2()(fd1, from, fd2, to, flags);
    In in;
    ++g_hookCalls;
    int r = get_renameat2()(fd1, from, fd2, to, flags);
    if ((fd1 != AT_FDCWD && from[0] != '/') || (fd2 != AT_FDCWD && to[0] != '/') || flags)
    {
      Lock l;
      unmodelled("renameat2 relative to a directory fd or with flags");
    }
    else
      logRename(from, to, r);
    return r;
  }
  static void logUnlink(const char *path, int r)
  {
    std::string rel = relOf(path);
    if (rel.empty() || r != 0)
      return;
    Lock l;
    cfs::Event &e = push(cfs::UNLINK);
    e.path = rel;
  }
  int unlink(const char *path)
  {
    if (!active())
      return get_unlink()(path);
    In in;
    ++g_hookCalls;
    int r = get_unlink()(path);
    logUnlink(path, r);
    return r;
  }
  int unlinkat(int dirfd, const char *path, int flags)
  {
    if (!active())
      return get_unlinkat()(dirfd, path, flags);
    In in;
    ++g_hookCalls;
    int r = get_unlinkat()(dirfd, path, flags);
    if (dirfd != AT_FDCWD && path && path[0] != '/')
    {
      if (r == 0)
      {
        Lock l;
        unmodelled(std::string("unlinkat relative to a directory fd: ") + path);
      }
    }
    else if (!(flags & AT_REMOVEDIR))
      logUnlink(path, r);
    return r;
  }
  int remove(const char *path)
  {
    if (!active())
      return get_remove()(path);
    In in;
    ++g_hookCalls;
    struct stat st;
    bool isFile = lstat(path, &st) == 0 && !S_ISDIR(st.st_mode);
    int r = get_remove()(path);
    if (isFile)
      logUnlink(path, r);
    return r;
  }
  static int do_sync(fdop_t real, int fd)
  {
    if (!active())
      return g_elideSync ? 0 : real(fd);
    In in;
    ++g_hookCalls;
    int r = g_elideSync ? 0 : real(fd);
    // the descriptor may have been opened read-only / without create: look the path up only if tracked
    Tracked *t = tracked(fd);
    if (t)
    {
      Lock l;
      cfs::Event &e = push(cfs::SYNC);
      e.path = t->rel;
    }
    return r;
  }
  int fsync(int fd) { return do_sync(get_fsync(), fd); }
  int fdatasync(int fd) { return do_sync(get_fdatasync(), fd); }
  int close(int fd)
  {
    if (g_on && tl_in == 0)
      forget(fd);
    return get_close()(fd);
  }
  int fclose(FILE *f)
  {
    if (g_on && tl_in == 0 && f)
      forget(fileno(f));
    return get_fclose()(f);
  }
  int dup(int fd)
  {
    if (active() && tracked(fd))
    {
      In in;
      Lock l;
      unmodelled("dup of a tracked descriptor");
    }
    return get_dup()(fd);
  }
  int dup2(int fd, int fd2)
  {
    if (active() && (tracked(fd) || tracked(fd2)))
    {
      In in;
      Lock l;
      unmodelled("dup2 of a tracked descriptor");
    }
    return get_dup2()(fd, fd2);
  }
  int dup3(int fd, int fd2, int flags)
  {
    if (active() && (tracked(fd) || tracked(fd2)))
    {
      In in;
      Lock l;
      unmodelled("dup3 of a tracked descriptor");
    }
    return get_dup3()(fd, fd2, flags);
  }
  size_t fwrite(const void *p, size_t sz, size_t n, FILE *f)
  {
    if (active() && f && tracked(fileno(f)))
    {
      In in;
      Lock l;
      unmodelled("stdio fwrite to a tracked file (buffered inside libc)");
    }
    return get_fwrite()(p, sz, n, f);
  }
  int fputs(const char *s, FILE *f)
  {
    if (active() && f && tracked(fileno(f)))
    {
      In in;
      Lock l;
      unmodelled("stdio fputs to a tracked file (buffered inside libc)");
    }
    return get_fputs()(s, f);
  }
  int link(const char *a, const char *b)
  {
    if (active())
    {
      In in;
      if (!relOf(a).empty() || !relOf(b).empty())
      {
        Lock l;
        unmodelled("link below the recording root");
      }
    }
    return get_link()(a, b);
  }
  int symlink(const char *a, const char *b)
  {
    if (active())
    {
      In in;
      if (!relOf(b).empty())
      {
        Lock l;
        unmodelled("symlink below the recording root");
      }
    }
    return get_symlink()(a, b);
  }
  int mkdir(const char *p, mode_t m)
  {
    if (active())
    {
      In in;
      if (!relOf(p).empty())
      {
        Lock l;
        unmodelled("mkdir below the recording root");
      }
    }
    return get_mkdir()(p, m);
  }
  ssize_t sendfile(int out, int inFd, off_t *off, size_t n)
  {
    if (active() && tracked(out))
    {
      In in;
      Lock l;
      unmodelled("sendfile into a tracked descriptor");
    }
    return get_sendfile()(out, inFd, off, n);
  }
}

// bexh: bounded-exhaustive enumeration runtime for *sequential* harnesses.
//
// The harness enumerates its cases deterministically in one loop.  run_sharded() forks W
// workers; worker w evaluates the cases whose running index i satisfies i % W == w (all workers
// run the same generator, so generation must be cheap relative to evaluation, or the harness can
// shard on an outer loop instead).  Before a case is evaluated its text is published in shared
// memory, so that if the worker dies (sanitizer abort, SIGSEGV, uncaught exception) or makes no
// progress for `stall_s` seconds (non-termination) the parent records a violation naming exactly
// that case and restarts the worker *after* it.  Nothing is sampled: every index is evaluated by
// exactly one worker exactly once.
#pragma once
#include "report.hpp"
#include <csignal>
#include <functional>
#include <sys/mman.h>
#include <sys/prctl.h>
#include <sys/wait.h>
#include <time.h>
#include <unistd.h>

namespace vr
{

struct ShardSlot
{
  volatile uint64_t progress;  // index of the case being evaluated
  volatile uint64_t beats;     // bumped on every case (stall detection)
  volatile uint32_t caseLen;
  volatile int inCase;
  char caseBuf[1 << 16];
};

class Shard
{
public:
  int w = 0, W = 1;
  uint64_t resumeAfter = 0; // evaluate only indices > resumeAfter when resumed
  bool resumed = false;
  ShardSlot *slot = nullptr;
  double deadlineAt = 0; // CLOCK_MONOTONIC seconds; 0 = none

  // Harness loops should poll this (e.g. once per outer iteration) and, when true, stop
  // enumerating, set report.exhaustive=false and return, so that the counts survive.
  bool timeUp() const
  {
    if (deadlineAt <= 0)
      return false;
    struct timespec ts;
    clock_gettime(CLOCK_MONOTONIC, &ts);
    return ts.tv_sec + ts.tv_nsec * 1e-9 > deadlineAt;
  }

  // Call once per enumerated case, with its running index.  True => this worker evaluates it.
  bool mine(uint64_t idx) const
  {
    if (int(idx % uint64_t(W)) != w)
      return false;
    if (resumed && idx <= resumeAfter)
      return false;
    return true;
  }
  // Publish the case about to be evaluated (text used for crash/hang attribution and replay).
  void begin(uint64_t idx, const std::string &kase) const
  {
    if (!slot)
      return;
    uint32_t n = uint32_t(kase.size() < sizeof(slot->caseBuf) ? kase.size() : sizeof(slot->caseBuf));
    memcpy((void *)slot->caseBuf, kase.data(), n);
    slot->caseLen = n;
    slot->progress = idx;
    slot->inCase = 1;
    slot->beats = slot->beats + 1;
  }
  void end() const
  {
    if (slot)
      slot->inCase = 0;
  }
};

inline double now_s()
{
  struct timespec ts;
  clock_gettime(CLOCK_MONOTONIC, &ts);
  return ts.tv_sec + ts.tv_nsec * 1e-9;
}

// body(shard, report): enumerate, evaluate own cases, fill report (do NOT write it).
// Each worker incarnation writes <out>.w<k>.r<n>.json; the parent writes <out>.crash.json.
// deadline_s: wall-clock budget for the whole run (0 = none): on expiry workers are killed and the
// parent part says exhaustive=false.  Returns the number of crash/hang violations recorded.
inline int run_sharded(const Args &args, const std::string &partName, const std::string &level, double stall_s,
                       double deadline_s, const std::function<void(const Shard &, Report &)> &body)
{
  int W = args.jobs;
  size_t sz = sizeof(ShardSlot) * size_t(W);
  ShardSlot *slots = (ShardSlot *)mmap(nullptr, sz, PROT_READ | PROT_WRITE, MAP_SHARED | MAP_ANONYMOUS, -1, 0);
  memset(slots, 0, sz);
  struct W_
  {
    pid_t pid = 0;
    int restarts = 0;
    bool done = false;
    bool resumed = false;
    uint64_t resumeAfter = 0;
    uint64_t lastBeat = 0;
    double lastBeatAt = 0;
  };
  std::vector<W_> ws(W);
  Report crash(partName + "/supervisor", level);
  crash.rule = "supervisor part: crash / hang attribution only";
  double t0 = now_s();
  auto spawn = [&](int k)
  {
    fflush(nullptr);
    pid_t p = fork();
    if (p == 0)
    {
      prctl(PR_SET_PDEATHSIG, SIGKILL);
      Shard sh;
      sh.w = k;
      sh.W = W;
      sh.slot = &slots[k];
      sh.resumed = ws[k].resumed;
      sh.resumeAfter = ws[k].resumeAfter;
      sh.deadlineAt = deadline_s > 0 ? t0 + deadline_s : 0;
      Report r(partName, level);
      body(sh, r);
      char suf[64];
      snprintf(suf, sizeof suf, ".w%d.r%d.json", k, ws[k].restarts);
      r.write(args.out + suf);
      fflush(nullptr);
      _exit(0);
    }
    ws[k].pid = p;
    ws[k].lastBeat = slots[k].beats;
    ws[k].lastBeatAt = now_s();
  };
  for (int k = 0; k < W; ++k)
    spawn(k);
  int live = W;
  bool timedOut = false;
  while (live > 0)
  {
    usleep(20000);
    double t = now_s();
    if (deadline_s > 0 && t - t0 > deadline_s + 20 && !timedOut) // grace: workers stop themselves via timeUp()
    {
      timedOut = true;
      for (int k = 0; k < W; ++k)
        if (!ws[k].done)
          kill(ws[k].pid, SIGKILL);
    }
    for (int k = 0; k < W; ++k)
    {
      if (ws[k].done)
        continue;
      int st = 0;
      pid_t r = waitpid(ws[k].pid, &st, WNOHANG);
      bool hung = false;
      if (r == 0)
      {
        if (slots[k].beats != ws[k].lastBeat)
        {
          ws[k].lastBeat = slots[k].beats;
          ws[k].lastBeatAt = t;
          continue;
        }
        else if (slots[k].inCase && stall_s > 0 && t - ws[k].lastBeatAt > stall_s && !timedOut)
        {
          kill(ws[k].pid, SIGKILL);
          waitpid(ws[k].pid, &st, 0);
          hung = true;
        }
        else
          continue;
      }
      if (!hung && WIFEXITED(st) && WEXITSTATUS(st) == 0)
      {
        ws[k].done = true;
        --live;
        continue;
      }
      if (timedOut)
      {
        ws[k].done = true;
        --live;
        continue;
      }
      // crash or hang inside a case
      std::string kase((const char *)slots[k].caseBuf, slots[k].caseLen);
      char d[256];
      if (hung)
        snprintf(d, sizeof d, "no progress for %.0f s inside case index %llu (worker killed)", stall_s,
                 (unsigned long long)slots[k].progress);
      else if (WIFSIGNALED(st))
        snprintf(d, sizeof d, "worker died with signal %d inside case index %llu", WTERMSIG(st),
                 (unsigned long long)slots[k].progress);
      else
        snprintf(d, sizeof d, "worker exited with status %d inside case index %llu (sanitizer report / abort)",
                 WEXITSTATUS(st), (unsigned long long)slots[k].progress);
      if (slots[k].inCase)
        crash.violation(hung ? "terminates" : "no-crash-no-ub", hung ? "hang" : "crash", kase, d);
      else
        crash.violation("harness-internal", "worker-died-outside-case", kase, d);
      ws[k].resumed = true;
      ws[k].resumeAfter = slots[k].progress;
      ws[k].restarts++;
      slots[k].inCase = 0;
      if (ws[k].restarts > 200)
      {
        crash.notes.push_back("worker restarted more than 200 times; giving up on its shard");
        crash.exhaustive = false;
        ws[k].done = true;
        --live;
        continue;
      }
      spawn(k);
    }
  }
  if (timedOut)
  {
    crash.exhaustive = false;
    crash.notes.push_back("deadline reached: workers killed, their shards are incomplete");
  }
  crash.write(args.out + ".crash.json");
  munmap(slots, sz);
  return int(crash.violation_total);
}

} // namespace vr

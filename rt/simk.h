// simk: in-process simulated kernel objects (epoll, eventfd, timerfd, TCP and UDP sockets) for
// harnesses that run the real engines without real sockets or real time.  Active only inside an
// mcsched execution child; everywhere else the interposed calls pass through to the real kernel.
// Semantics are deliberately no more adversarial than Linux (see DESIGN.md §2.5).
#pragma once
#include <cstddef>
#include <cstdint>
#include <string>

struct SimkConfig
{
  int tcpRcvBuf = 4;        // bytes a stream socket can hold unread ("socket buffers")
  bool shortIo = true;      // offer short send/recv counts as environment deviations (MC_ENV)
  int maxShortOptions = 4;  // enumerate every count when min(n,free) <= this, else {all, 1, half}
  bool syscallPoints = true; // socket/eventfd/epoll_ctl calls are scheduling points
  int udpQueue = 8;         // datagrams a UDP socket can hold
  bool tap = true;          // record every byte / datagram sent per endpoint
};
extern SimkConfig simk_cfg;

// connect() outcome for a destination without a simulated listener
enum SimkRoute
{
  SIMK_REFUSE_NOW = 1,   // connect() fails immediately with ECONNREFUSED
  SIMK_REFUSE_ASYNC = 2, // EINPROGRESS, then EPOLLOUT|EPOLLERR|EPOLLHUP with SO_ERROR=ECONNREFUSED
  SIMK_BLACKHOLE = 3,    // EINPROGRESS forever
  SIMK_UNREACH_NOW = 4,  // ENETUNREACH immediately
};
void simk_route(const char *ip, uint16_t port, SimkRoute r); // default for unknown destinations: REFUSE_ASYNC

// per-attempt connect outcomes for a port: the k-th connect() gets outcomes[k] (0 = normal behaviour, else a
// SimkRoute value) even if a listener exists; connects beyond the script behave normally
void simk_connect_script(uint16_t port, const int *outcomes, int n);
void simk_set_rcvbuf(int fd, int bytes);
std::string simk_txlog(int fd);      // bytes sent so far through this stream endpoint (tap)
std::string simk_peer_txlog(int fd); // bytes the OTHER endpoint of fd's connection has sent (wire tap of the peer)
uint64_t simk_conn_id(int fd);       // stable id of the connection an fd belongs to (0 if none)
int simk_open_fds();                 // number of simulated descriptors currently open
int simk_open_sockets();             // number of simulated TCP/UDP sockets currently open
bool simk_is_sim(int fd);
// UDP: make the next n sendto()/send() calls on fd fail with EAGAIN, then report writable again
void simk_udp_fail_sends(int fd, int n);
// number of datagrams/bytes delivered to a UDP socket that nobody was bound to (dropped)
int simk_udp_dropped();

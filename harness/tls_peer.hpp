// Independent TLS endpoint for the harness side of C07 / C01-TLS: a plain OpenSSL SSL object bound to a
// simulated socket (OpenSSL's socket BIO uses read()/write(), which rt/simk interposes), driven by a small
// epoll loop on a harness thread.  It shares no code with iora's TLS set-up.
#pragma once
#include "mc.h"
#include "simk.h"

#include <openssl/err.h>
#include <openssl/ssl.h>

#include <arpa/inet.h>
#include <netinet/in.h>
#include <sys/epoll.h>
#include <sys/eventfd.h>
#include <sys/socket.h>
#include <unistd.h>

#include <string>
#include <thread>
#include <vector>

#include <openssl/rand.h>

namespace tp
{
// Own OpenSSL's randomness: every execution child is forked from the same parent image, so a counter-based
// generator installed before the fork makes keys, nonces, ECDSA signatures (whose DER length otherwise varies
// between 70 and 72 bytes) and session tickets identical in every execution - record sizes and therefore the
// sequence of socket calls become a function of the choices alone.  Values only; no behaviour is removed.
namespace detail
{
inline uint64_t &randState()
{
  static uint64_t s = 0x9e3779b97f4a7c15ull;
  return s;
}
inline int randBytes(unsigned char *buf, int num)
{
  uint64_t &s = randState();
  for (int i = 0; i < num; ++i)
  {
    s ^= s << 13;
    s ^= s >> 7;
    s ^= s << 17;
    buf[i] = (unsigned char)(s >> 32);
  }
  return 1;
}
inline int randStatus() { return 1; }
inline int randSeed(const void *, int) { return 1; }
inline int randAdd(const void *, int, double) { return 1; }
inline void randCleanup() {}
} // namespace detail
inline void deterministicRand()
{
  static RAND_METHOD m = {detail::randSeed, detail::randBytes, detail::randCleanup, detail::randAdd, detail::randBytes, detail::randStatus};
  RAND_set_rand_method(&m);
}

inline sockaddr_in addr(const char *ip, uint16_t port)
{
  sockaddr_in a{};
  a.sin_family = AF_INET;
  a.sin_port = htons(port);
  inet_pton(AF_INET, ip, &a.sin_addr);
  return a;
}

enum PeerKind
{
  PK_TLS = 0,
  PK_PLAINTEXT = 1, // speaks HTTP in clear
  PK_GARBAGE = 2,   // sends bytes that are no TLS records
};

struct PeerConfig
{
  bool server = true;
  std::string cert, key; // presented certificate (may be empty for a client)
  std::string ca;        // trust anchor used to verify the other side (server: client certs)
  bool verifyOther = false;
  bool requireClientCert = false;
  int maxVersion = 0; // 0 = library default, else TLS1_VERSION ...
  int minVersion = 0;
  PeerKind kind = PK_TLS;
  std::string toSend; // application bytes the peer sends once the handshake is done
  std::vector<std::string> moreSends; // further application writes (one TLS record each) after toSend
  std::string sni;
  bool holdHandshake = false; // server role: accept the TCP connection but do not touch it until release() is called
  int rcvbuf = 65536; // simulated receive buffer of the peer's sockets (small => the other side sees EAGAIN mid-record)
};

struct PeerConn
{
  int fd = -1;
  SSL *ssl = nullptr;
  bool handshakeDone = false, failed = false, closed = false;
  int version = 0;
  std::string appIn;  // decrypted application bytes received
  std::string rawIn;  // raw bytes received (plaintext / garbage kinds)
  bool sentApp = false;
  size_t sentParts = 0;   // how many of cfg.moreSends were written completely
  bool wantWrite = false; // last SSL call asked for writability
  bool sawClientCert = false;
  bool pendingSetup = false; // accepted while the peer is held
  std::string wireSaved;     // everything the OTHER side put on the wire, saved when this endpoint closes its descriptor
  // raw bytes the other side (the code under test) transmitted on this connection
  std::string wire() const { return closed ? wireSaved : simk_peer_txlog(fd); }
};

class Peer
{
public:
  PeerConfig cfg;
  std::vector<PeerConn> conns;
  bool ctxOk = false;

  explicit Peer(PeerConfig c) : cfg(std::move(c)) { conns.reserve(8); }

  // server role: listen on port; client role: connect to port
  void start(uint16_t port)
  {
    _port = port;
    _ep = ::epoll_create1(0);
    _ev = ::eventfd(0, EFD_NONBLOCK);
    add(_ev);
    buildCtx();
    if (cfg.server)
    {
      _lfd = ::socket(AF_INET, SOCK_STREAM | SOCK_NONBLOCK, 0);
      sockaddr_in a = addr("127.0.0.1", port);
      ::bind(_lfd, (sockaddr *)&a, sizeof a);
      ::listen(_lfd, 8);
      add(_lfd);
    }
    _th = std::thread([this]() { loop(); });
  }
  void connectNow()
  {
    // client role: called from the harness thread before the loop sees anything
    int fd = ::socket(AF_INET, SOCK_STREAM | SOCK_NONBLOCK, 0);
    sockaddr_in a = addr("127.0.0.1", _port);
    ::connect(fd, (sockaddr *)&a, sizeof a);
    simk_set_rcvbuf(fd, cfg.rcvbuf);
    PeerConn c;
    c.fd = fd;
    conns.push_back(c);
    _pendingClient = true;
    poke();
  }
  void release()
  {
    _released = true;
    poke();
  }
  void stop()
  {
    _stop = true;
    poke();
    if (_th.joinable())
      _th.join();
    for (auto &c : conns)
    {
      if (c.ssl)
        SSL_free(c.ssl);
      if (!c.closed && c.fd >= 0)
        ::close(c.fd);
    }
    if (_lfd >= 0)
      ::close(_lfd);
    ::close(_ep);
    ::close(_ev);
    if (_ctx)
      SSL_CTX_free(_ctx);
  }

private:
  void poke()
  {
    uint64_t one = 1;
    (void)!::write(_ev, &one, 8);
  }
  void add(int fd)
  {
    epoll_event e{};
    e.events = EPOLLIN;
    e.data.fd = fd;
    ::epoll_ctl(_ep, EPOLL_CTL_ADD, fd, &e);
  }
  void buildCtx()
  {
    if (cfg.kind != PK_TLS)
      return;
    _ctx = SSL_CTX_new(cfg.server ? TLS_server_method() : TLS_client_method());
    SSL_CTX_set_security_level(_ctx, 0); // as permissive as possible: any refusal must come from iora
    if (cfg.maxVersion)
      SSL_CTX_set_max_proto_version(_ctx, cfg.maxVersion);
    if (cfg.minVersion)
      SSL_CTX_set_min_proto_version(_ctx, cfg.minVersion);
    else
      SSL_CTX_set_min_proto_version(_ctx, TLS1_VERSION);
    SSL_CTX_set_cipher_list(_ctx, "ALL:@SECLEVEL=0");
    ctxOk = true;
    if (!cfg.cert.empty())
    {
      if (SSL_CTX_use_certificate_file(_ctx, cfg.cert.c_str(), SSL_FILETYPE_PEM) != 1 || SSL_CTX_use_PrivateKey_file(_ctx, cfg.key.c_str(), SSL_FILETYPE_PEM) != 1 ||
          SSL_CTX_check_private_key(_ctx) != 1)
        ctxOk = false; // e.g. the key-mismatch cell: this endpoint cannot prove possession
    }
    if (cfg.verifyOther || cfg.requireClientCert)
    {
      SSL_CTX_set_verify(_ctx, SSL_VERIFY_PEER | (cfg.requireClientCert ? SSL_VERIFY_FAIL_IF_NO_PEER_CERT : 0), nullptr);
      if (!cfg.ca.empty())
        SSL_CTX_load_verify_locations(_ctx, cfg.ca.c_str(), nullptr);
    }
    ERR_clear_error();
  }
  void interest(PeerConn &c)
  {
    if (c.closed)
      return;
    epoll_event e{};
    e.events = EPOLLIN | (c.wantWrite ? EPOLLOUT : 0);
    e.data.fd = c.fd;
    ::epoll_ctl(_ep, EPOLL_CTL_MOD, c.fd, &e);
  }
  void closeConn(PeerConn &c)
  {
    if (c.closed)
      return;
    ::epoll_ctl(_ep, EPOLL_CTL_DEL, c.fd, nullptr);
    if (c.ssl)
    {
      SSL_free(c.ssl);
      c.ssl = nullptr;
    }
    c.wireSaved = simk_peer_txlog(c.fd);
    ::close(c.fd);
    c.closed = true;
  }
  void setupConn(PeerConn &c)
  {
    add(c.fd);
    if (cfg.kind == PK_TLS)
    {
      if (!ctxOk)
      {
        c.failed = true;
        closeConn(c);
        return;
      }
      c.ssl = SSL_new(_ctx);
      SSL_set_fd(c.ssl, c.fd);
      if (cfg.server)
        SSL_set_accept_state(c.ssl);
      else
      {
        SSL_set_connect_state(c.ssl);
        if (!cfg.sni.empty())
          SSL_set_tlsext_host_name(c.ssl, cfg.sni.c_str());
      }
    }
    else if (cfg.kind == PK_PLAINTEXT)
    {
      const char *m = cfg.server ? "HTTP/1.1 400 Bad Request\r\nContent-Length: 0\r\n\r\n" : "GET / HTTP/1.1\r\nHost: x\r\n\r\n";
      ::send(c.fd, m, strlen(m), 0);
    }
    else
    {
      const unsigned char g[] = {0x16, 0x03, 0x01, 0xff, 0xff, 'g', 'a', 'r', 'b', 'a', 'g', 'e', 0x00, 0x80, 0xff};
      ::send(c.fd, g, sizeof g, 0);
    }
    pump(c);
    interest(c);
  }
  void pump(PeerConn &c)
  {
    if (c.closed)
      return;
    if (cfg.kind != PK_TLS)
    {
      char b[4096];
      for (;;)
      {
        ssize_t r = ::recv(c.fd, b, sizeof b, 0);
        if (r > 0)
          c.rawIn.append(b, size_t(r));
        else
        {
          if (r == 0)
            closeConn(c);
          break;
        }
      }
      return;
    }
    if (!c.handshakeDone && !c.failed)
    {
      int r = SSL_do_handshake(c.ssl);
      if (r == 1)
      {
        c.handshakeDone = true;
        c.version = SSL_version(c.ssl);
        X509 *pc = SSL_get_peer_certificate(c.ssl);
        if (pc)
        {
          c.sawClientCert = true;
          X509_free(pc);
        }
      }
      else
      {
        int e = SSL_get_error(c.ssl, r);
        if (e != SSL_ERROR_WANT_READ && e != SSL_ERROR_WANT_WRITE)
        {
          c.failed = true;
          ERR_clear_error();
          closeConn(c);
          return;
        }
        c.wantWrite = e == SSL_ERROR_WANT_WRITE;
      }
    }
    if (c.handshakeDone)
    {
      c.wantWrite = false;
      if (!c.sentApp && !cfg.toSend.empty())
      {
        int w = SSL_write(c.ssl, cfg.toSend.data(), int(cfg.toSend.size()));
        if (w > 0)
          c.sentApp = true;
        else if (SSL_get_error(c.ssl, w) == SSL_ERROR_WANT_WRITE)
          c.wantWrite = true;
      }
      while ((c.sentApp || cfg.toSend.empty()) && c.sentParts < cfg.moreSends.size() && !c.wantWrite)
      {
        const std::string &p = cfg.moreSends[c.sentParts];
        int w = SSL_write(c.ssl, p.data(), int(p.size()));
        if (w > 0)
          ++c.sentParts;
        else
        {
          if (SSL_get_error(c.ssl, w) == SSL_ERROR_WANT_WRITE)
            c.wantWrite = true;
          break;
        }
      }
      char b[4096];
      for (;;)
      {
        int r = SSL_read(c.ssl, b, sizeof b);
        if (r > 0)
          c.appIn.append(b, size_t(r));
        else
        {
          int e = SSL_get_error(c.ssl, r);
          if (e == SSL_ERROR_ZERO_RETURN || e == SSL_ERROR_SSL || e == SSL_ERROR_SYSCALL)
          {
            ERR_clear_error();
            closeConn(c);
          }
          break;
        }
      }
    }
  }
  void loop()
  {
    mc_label("tls-peer");
    epoll_event evs[8];
    while (!_stop)
    {
      int n = ::epoll_wait(_ep, evs, 8, -1);
      for (int i = 0; i < n; ++i)
      {
        int fd = evs[i].data.fd;
        if (fd == _ev)
        {
          uint64_t v;
          (void)!::read(_ev, &v, 8);
          if (_pendingClient)
          {
            _pendingClient = false;
            setupConn(conns.back());
          }
          if (_released)
            for (auto &c : conns)
              if (c.pendingSetup)
              {
                c.pendingSetup = false;
                setupConn(c);
              }
          continue;
        }
        if (fd == _lfd)
        {
          for (;;)
          {
            int cfd = ::accept4(_lfd, nullptr, nullptr, SOCK_NONBLOCK);
            if (cfd < 0)
              break;
            simk_set_rcvbuf(cfd, cfg.rcvbuf);
            PeerConn c;
            c.fd = cfd;
            c.pendingSetup = cfg.holdHandshake && !_released;
            conns.push_back(c);
            if (!conns.back().pendingSetup)
              setupConn(conns.back());
          }
          continue;
        }
        for (auto &c : conns)
          if (c.fd == fd && !c.closed)
          {
            pump(c);
            interest(c);
          }
      }
    }
    mc_label("tls-peer:done");
  }

  uint16_t _port = 0;
  int _lfd = -1, _ep = -1, _ev = -1;
  SSL_CTX *_ctx = nullptr;
  std::thread _th;
  bool _stop = false;
  bool _pendingClient = false;
  bool _released = false;
};
} // namespace tp

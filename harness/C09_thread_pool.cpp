// C09: iora::core::ThreadPool — every accepted task runs exactly once before shutdown completes;
// refusals only for the documented reasons; never more workers than the maximum.
//
// A scenario is a small program: 1-2 submitter threads, optionally a terminator thread, over ONE
// real ThreadPool with tiny parameters.  All pool-internal waiting (idle timeout, the 50 ms polling
// loops of drain/shutdown/destructor phases) runs on the virtual clock.  Built in two flavours:
//   A (ASan): scheduling points at mutex/cond/thread operations; use-after-free visible.
//   T (-DMC_TSAN): additionally every atomic of the pool object is a scheduling point and plain
//     accesses to the pool object are checked against happens-before.
//
// Oracle clauses:
//   exactly-once        each accepted submission's body ran exactly once when the terminator returned
//   future-ready        futures of accepted result tasks are ready with the value / exception
//   refusal-reason      a refusal carries one of the three documented reasons, and "draining"/"shutting
//                       down" only once a terminator has started
//   none-after-shutdown no task body executes (starts or is still running) after stop()/shutdown()/
//                       the destructor returned
//   max-workers         getTotalThreadCount() <= max while the pool accepts work
//   no-deadlock / bounded-time   every thread of the program finishes
#include "mc.h"
#ifdef MC_TSAN
#include "tsan_shim.h"
#endif
#include <iora/core/thread_pool.hpp>

#include <atomic>
#include <sstream>
#include <thread>

using iora::core::ThreadPool;

namespace
{
struct Scn
{
  const char *name;
  size_t initial, max;
  int idleMs;
  size_t queueMax;
  std::vector<std::string> submitters; // op strings
  const char *term;                    // terminator program: S stop, H shutdown, D drain, "" none; run concurrently
  bool dtorAtEnd;                      // destroy the pool in main after all threads joined
  int qP, qT, tP, tT;
};

constexpr int MAXTASK = 32;
struct TaskRec
{
  bool accepted = false;
  bool refused = false;
  std::string refusal;
  int runs = 0;
  uint64_t startStep = 0, endStep = 0;
  bool hasFuture = false;
  bool throws = false;
  std::future<int> fut;
  uint64_t submitStep = 0;
  uint64_t acceptedStep = 0; // step at which the accepting submission call had returned
};

struct Ctx
{
  ThreadPool *pool = nullptr;
  TaskRec rec[MAXTASK];
  int nrec = 0;
  int handlerCalls = 0;
  uint64_t termStartStep = 0, termReturnStep = 0;
  bool terminated = false;
  size_t maxSeenThreads = 0;
  bool accepting = true;
  bool drainedOk = false; // drain() reported success: every task accepted before it began has finished
  uint64_t drainStartStep = 0;
};
Ctx *g = nullptr;

// A value captured by every task closure.  Its last copy lives inside the pool's task object, so its destructor marks
// the moment the pool destroys the task (and with it whatever the application captured).  "Every accepted task has
// finished" includes that destruction: a terminator that returns while a worker still has to destroy a finished task's
// closure lets the application free what the closure refers to.  Only destructions performed by POOL threads count
// (a submitter may hold the last temporary copy itself).
thread_local bool tl_harnessThread = false;
struct Tok
{
  int id;
  explicit Tok(int i) : id(i) {}
  ~Tok()
  {
    if (g && g->terminated && !tl_harnessThread)
      mc_violation("none-after-shutdown", "task-object-destroyed-after-shutdown-returned",
                   "the closure of task " + std::to_string(id) + " was destroyed by a pool thread after the terminator had returned");
    else if (g && g->drainedOk && !tl_harnessThread && g->rec[id].acceptedStep && g->rec[id].acceptedStep < g->drainStartStep)
      // (a submission racing drain() may be accepted after drain's last look at the queue; only tasks whose
      // submission had RETURNED before drain() was called are covered by drain's "all completed")
      mc_violation("none-after-shutdown", "task-object-destroyed-after-drain-succeeded",
                   "the closure of task " + std::to_string(id) + " was destroyed by a pool thread after drain() had reported that all tasks completed");
  }
};

void body(int id, bool slow, bool throws, bool nested)
{
  TaskRec &r = g->rec[id];
  r.runs++;
  r.startStep = mc_step();
  if (g->terminated)
    mc_violation("none-after-shutdown", "task-started-after-shutdown-returned", "task " + std::to_string(id) + " started after the terminator returned");
  if (slow)
    std::this_thread::sleep_for(std::chrono::milliseconds(30));
  if (nested)
  {
    int nid = g->nrec++;
    TaskRec &n = g->rec[nid];
    n.submitStep = mc_step();
    bool ok = g->pool->tryEnqueue([nid]() { body(nid, false, false, false); });
    n.accepted = ok;
    n.refused = !ok;
    mc_obs("nested tryEnqueue(%d)=%d", nid, int(ok));
  }
  r.endStep = mc_step();
  if (g->terminated)
    mc_violation("none-after-shutdown", "task-running-after-shutdown-returned", "task " + std::to_string(id) + " still running after the terminator returned");
  if (throws)
    throw std::runtime_error("task failure");
}

void sampleWorkers(const Scn &sc)
{
  if (g->termStartStep)
    return; // clause is about the accepting phase
  size_t n = g->pool->getTotalThreadCount();
  if (n > g->maxSeenThreads)
    g->maxSeenThreads = n;
  if (n > sc.max && !g->termStartStep)
    mc_violation("max-workers", "threads>max", "getTotalThreadCount()=" + std::to_string(n) + " > max=" + std::to_string(sc.max));
}

void submit(const Scn &sc, char k, const std::string &who)
{
  int id = g->nrec++;
  TaskRec &r = g->rec[id];
  r.submitStep = mc_step();
  auto tok = std::make_shared<Tok>(id);
  bool termStartedBefore = g->termStartStep != 0;
  (void)termStartedBefore;
  try
  {
    switch (k)
    {
    case 'e':
      g->pool->enqueue([id, tok]() { body(id, false, false, false); });
      r.accepted = true;
      break;
    case 'w':
      g->pool->enqueue([id, tok]() { body(id, true, false, false); });
      r.accepted = true;
      break;
    case 'x':
      r.throws = true;
      g->pool->enqueue([id, tok]() { body(id, false, true, false); });
      r.accepted = true;
      break;
    case 'n':
      g->pool->enqueue([id, tok]() { body(id, false, false, true); });
      r.accepted = true;
      break;
    case 't':
      r.accepted = g->pool->tryEnqueue([id, tok]() { body(id, false, false, false); });
      r.refused = !r.accepted;
      break;
    case 'r':
      r.hasFuture = true;
      r.fut = g->pool->enqueueWithResult(
        [id, tok]()
        {
          body(id, false, false, false);
          return id + 1000;
        });
      r.accepted = true;
      break;
    case 'R':
      r.hasFuture = true;
      r.throws = true;
      r.fut = g->pool->enqueueWithResult(
        [id, tok]() -> int
        {
          body(id, false, true, false);
          return 0;
        });
      r.accepted = true;
      break;
    }
  }
  catch (const std::runtime_error &e)
  {
    r.refused = true;
    r.refusal = e.what();
    bool known = r.refusal.find("queue is full") != std::string::npos || r.refusal.find("draining") != std::string::npos ||
                 r.refusal.find("shutting down") != std::string::npos;
    if (!known)
      mc_violation("refusal-reason", "undocumented-reason", "submission refused with: " + r.refusal);
    if (r.refusal.find("queue is full") == std::string::npos && g->termStartStep == 0)
      mc_violation("refusal-reason", "draining-or-shutdown-before-any-terminator", "submission refused with '" + r.refusal + "' although no drain/stop/shutdown had started");
  }
  if (r.accepted)
    r.acceptedStep = mc_step();
  mc_obs("%s %c(%d)=%s", who.c_str(), k, id, r.accepted ? "ok" : "refused");
  sampleWorkers(sc);
}

void runScenario(const Scn &sc)
{
  mc_label("main:setup");
  tl_harnessThread = true;
  Ctx ctx;
  g = &ctx;
  ctx.pool = new ThreadPool(sc.initial, sc.max, std::chrono::milliseconds(sc.idleMs), sc.queueMax, [](std::exception_ptr) { g->handlerCalls++; });
#ifdef MC_TSAN
  mc_watch(ctx.pool, sizeof(ThreadPool), "pool", true);
#endif
  std::vector<std::thread> th;
  for (size_t si = 0; si < sc.submitters.size(); ++si)
  {
    th.emplace_back(
      [&, si]()
      {
        tl_harnessThread = true;
        std::string who = "S" + std::to_string(si + 1);
        for (char k : sc.submitters[si])
        {
          mc_label((who + ":" + std::string(1, k)).c_str());
          if (k == 'z')
            std::this_thread::sleep_for(std::chrono::milliseconds(25));
          else
            submit(sc, k, who);
        }
        mc_label((who + ":done").c_str());
      });
  }
  std::string term = sc.term;
  if (!term.empty())
  {
    th.emplace_back(
      [&]()
      {
        tl_harnessThread = true;
        for (char k : term)
        {
          mc_label((std::string("X:") + k).c_str());
          if (k == 'z')
          {
            std::this_thread::sleep_for(std::chrono::milliseconds(25));
            continue;
          }
          if (!ctx.termStartStep)
            ctx.termStartStep = mc_step() ? mc_step() : 1;
          if (k == 'D')
          {
            ctx.drainStartStep = mc_step();
            auto r = ctx.pool->drain(2000);
            mc_obs("X drain=%d", int(r.success));
            if (r.success)
              ctx.drainedOk = true;
          }
          else if (k == 'S')
          {
            auto r = ctx.pool->stop();
            mc_obs("X stop=%d", int(r.success));
            if (r.success)
            {
              ctx.terminated = true;
              ctx.termReturnStep = mc_step();
            }
          }
          else if (k == 'H')
          {
            ctx.pool->shutdown();
            mc_obs("X shutdown");
            ctx.terminated = true;
            ctx.termReturnStep = mc_step();
          }
        }
        mc_label("X:done");
      });
  }
  mc_label("main:join");
  for (auto &t : th)
    t.join();
  if (sc.dtorAtEnd)
  {
    mc_label("main:dtor");
    if (!ctx.termStartStep)
      ctx.termStartStep = mc_step() ? mc_step() : 1;
#ifdef MC_TSAN
    mc_unwatch(ctx.pool);
#endif
    delete ctx.pool;
    ctx.pool = nullptr;
    ctx.terminated = true;
    ctx.termReturnStep = mc_step();
  }
  mc_label("main:check");
  // ---- oracle at the end ----
  std::ostringstream os;
  for (int i = 0; i < ctx.nrec; ++i)
  {
    TaskRec &r = ctx.rec[i];
    os << i << ":" << (r.accepted ? "A" : "R") << r.runs << " ";
    if (!r.accepted && r.runs)
      mc_violation("exactly-once", "refused-task-ran", "submission " + std::to_string(i) + " was refused but its body ran");
    if (r.accepted && ctx.terminated && r.runs != 1)
      mc_violation("exactly-once", r.runs == 0 ? "accepted-task-never-ran" : "accepted-task-ran-twice",
                   "submission " + std::to_string(i) + " accepted, body ran " + std::to_string(r.runs) + " times by the time the terminator returned");
    if (r.accepted && r.hasFuture && ctx.terminated)
    {
      if (r.fut.wait_for(std::chrono::seconds(0)) != std::future_status::ready)
        mc_violation("future-ready", "future-not-ready", "future of submission " + std::to_string(i) + " not ready after shutdown completed");
      try
      {
        int v = r.fut.get();
        if (r.throws)
          mc_violation("future-ready", "exception-lost", "future of throwing task returned a value");
        if (v != i + 1000)
          mc_violation("future-ready", "wrong-value", "future value " + std::to_string(v));
      }
      catch (const std::runtime_error &)
      {
        if (!r.throws)
          mc_violation("future-ready", "unexpected-exception", "future of a non-throwing task threw");
      }
    }
  }
  mc_obs("tasks %s handler=%d maxThreads=%zu", os.str().c_str(), ctx.handlerCalls, ctx.maxSeenThreads);
  if (ctx.pool)
  {
#ifdef MC_TSAN
    mc_unwatch(ctx.pool);
#endif
    delete ctx.pool; // must also return after stop()/shutdown()
  }
  g = nullptr;
}

const Scn SCN[] = {
  // name            init max idle  q  submitters      term  dtor  qP qT tP tT
  {"two_submitters_stop", 1, 2, 100, 4, {"er", "ex"}, "S", false, 1, 0, 2, 1},
  {"max1_two_submitters", 0, 1, 100, 4, {"e", "e"}, "", true, 2, 0, 3, 0},
  {"max2_three_tasks", 1, 2, 100, 4, {"ee", "e"}, "", true, 1, 0, 2, 0},
  {"dtor_inflight_slow", 1, 1, 100, 4, {"we"}, "", true, 2, 1, 3, 2},
  {"shutdown_vs_submit", 1, 1, 100, 2, {"ee"}, "H", false, 2, 0, 3, 1},
  {"stop_vs_nested", 1, 2, 100, 4, {"n"}, "S", false, 2, 0, 3, 1},
  {"queue_full", 1, 1, 100, 1, {"wtt"}, "zS", false, 1, 0, 2, 1},
  {"idle_exit_vs_submit", 0, 1, 10, 2, {"eze"}, "", true, 1, 2, 2, 3},
  {"idle_exit_two", 0, 2, 10, 2, {"ez", "ze"}, "", true, 1, 1, 2, 2},
  {"throwing_results", 1, 1, 100, 4, {"Rx"}, "S", false, 2, 0, 3, 1},
  {"drain_then_stop", 1, 1, 100, 4, {"er"}, "DS", false, 2, 0, 3, 1},
  // submissions issued well after the terminator returned, through each submit path: must be refused, nothing may start
  {"submit_after_shutdown", 1, 2, 100, 4, {"ezzt", "zze"}, "H", false, 1, 0, 2, 1},
  {"submit_after_stop", 1, 2, 100, 4, {"ezzt", "zzr"}, "S", false, 1, 0, 2, 1},
};
} // namespace

int main(int argc, char **argv)
{
  iora::core::Logger::setLevel(iora::core::Logger::Level::Fatal);
  std::vector<McScenario> v;
  for (const Scn &s : SCN)
  {
    McScenario m;
    m.name = s.name;
    m.body = [s]() { runScenario(s); };
    // deviations from the default (non-preemptive, lowest-id-first) schedule: P preemptions, S non-default
    // successors when the running thread blocks (delay bounding), T timers firing early
    m.quick.P = s.qP;
    m.quick.T = s.qT;
    m.quick.S = 1;
    m.quick.total = std::max(2, s.qP);
    m.thorough.P = s.tP;
    m.thorough.T = s.tT;
    m.thorough.S = 2;
    m.thorough.total = std::max(3, s.tP);
    m.horizon_s = 120;
    v.push_back(m);
  }
#ifdef MC_TSAN
  return mc_main(argc, argv, "C09_thread_pool_T", v);
#else
  return mc_main(argc, argv, "C09_thread_pool_A", v);
#endif
}

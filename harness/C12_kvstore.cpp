// C12: the key-value store is a map with absolute expiry, across restarts.
//
// Real code under test: iora::storage::KVStore (its own core::TimingWheel tick thread and eviction
// worker thread run under the deterministic scheduler; steady_clock and system_clock are virtual;
// file I/O goes to a private scratch directory on the real file system).
//
// Part (i)  "hist*": EVERY operation history up to a depth (free mc_choose alternatives => the explorer
//   enumerates all sequences, each on a fresh store) over the alphabet
//     set(k,v) | set(k,v,ttl 1s|20s) | setBatch plain | setBatch+ttl | remove | removeWithPrefix | clear
//     | expireAt(k, now+1s | now-1s) | persist | compact | clean close+reopen
//     | Q d : both clocks advance by d and every background thread runs to quiescence
//     | L d : both clocks advance by d while the wheel's tick thread is NOT scheduled (it wakes up but is held
//             in front of its first lock in advance(); it stays runnable-but-not-run until the driver next
//             blocks): reads and the following operations see expired-but-not-yet-evicted keys
//     | W d : the wall clock alone jumps forward by d (steady clock, hence every timer, unaffected)
//   with d in {1s,2s,30s} (Q also 17s: inside the clamped re-arm window of a 20 s TTL), keys {"a","ab"}, values
//   {"", "x", "\0\xff"}, a 1 s tick / 4 slot / 2 level wheel (range 16 s: a 20 s TTL is clamped and re-armed) and
//   maxCacheSize = 1 (< key set).
//   After EVERY step every read API (get, getString, exists, ttl, keys, keysWithPrefix, size, getBatch) is
//   compared, twice (key order forward / reverse: get() has a cache side effect), with the reference
//   std::map<key,{value, optional absolute expiry}> evaluated at the virtual wall clock of that instant.
//   Every history ends with an extra close+reopen+compare.
//   Scenarios:  hist          all 44 operations, depth 3
//               hist_reduced  a sub-alphabet (one value per writer; 14 operations quick / 18 thorough), depth 4
//               boundary      keys of MAX_KEY_LENGTH and MAX_KEY_LENGTH+1 bytes, the empty key, a binary key, a value
//                             holding all 256 byte values, depth 3
//               bigvalue      values of exactly MAX_VALUE_LENGTH bytes (depth 1 quick / 2 thorough: ~5 s per set/reload)
//               cache0        maxCacheSize = 0, depth 2
//               autocompact   maxLogSizeBytes = 1: every write compacts inline; 14-operation sub-alphabet, depth 3 / 4
//   Built with -DC12_DEEP (second part, thorough tier only, no ASan => ~3x cheaper executions):
//               hist_d4          all 44 operations, depth 4
//               hist_reduced_d5  the 18-operation sub-alphabet, depth 5
// Part (ii) "race_*": the tick thread / eviction worker vs a writer re-setting the same key (plain, TTL,
//   remove) vs a reader, all interleavings within the deviation bounds (P preemptions, T timer deviations,
//   S non-default successors).  Every read must be legal for the old or the new reference state of that key
//   at that instant - never an expired value, never a resurrected one - and the final state must be the
//   writer's.
//
// Oracle clauses
//   expired-never-observable    a key whose absolute expiry has passed is visible through some read API
//   reads-agree-with-reference  any other disagreement (live key missing, wrong bytes, removed key visible,
//                               wrong ttl(), wrong size())
//   no-unexpected-exception     an operation on valid input threw
//   race-read-legal / race-final-state   part (ii)
//   (+ no-crash-no-ub, no-deadlock, bounded-time, terminates from the runtime)
// Signature = <kind>:after-<operation class>:key-was-<state of that key before the operation>[:key=<how the key's
// current incarnation was written, for mismatches after a restart>][:klen=/:vlen= for boundary lengths]:via=<read
// APIs that disagree>, all derived from the failing step itself.
#include "mc.h"
#include "report.hpp"

#include <iora/storage/kvstore.hpp>

#include <csignal>
#include <dirent.h>
#include <map>
#include <set>
#include <sstream>
#include <sys/stat.h>
#include <thread>
#include <unistd.h>

// Durability against power loss is not part of C12 (clean close / reopen only): KVStore::flush()'s fsync is
// answered without going to the disk so that an execution costs microseconds of I/O instead of milliseconds.
extern "C" int fsync(int) { return 0; }

using iora::storage::KVStore;
using iora::storage::KVStoreConfig;
using iora::storage::KVStoreException;
using Bytes = std::vector<std::uint8_t>;

namespace
{
constexpr int64_t SEC = 1000000000ll;
// Scratch directories of this harness process, removed at exit (and by the next run if this one is killed):
//   g_scratchBase  <verif>/build/scratch/C12/<pid>   on the disk: used for the 100 MiB values
//   g_fastBase     /dev/shm/verif-C12/<pid>          tmpfs, when available: everything else.  Measured on the shared
//                  sandbox: file create/rename/unlink on the (busy) ext4 disk cost 4-5x the rest of an execution.
//                  C12_SCRATCH=<dir> forces one location for both.
std::string g_scratchBase, g_fastBase;

// ---------------------------------------------------------------- small helpers
std::string show(const std::string &s)
{
  if (s.size() > 24)
  {
    // display only (comparisons are always exact): length + FNV hash, sampled for very large values
    uint64_t h = 1469598103934665603ull;
    size_t stride = s.size() > (1u << 20) ? 4099 : 1;
    for (size_t i = 0; i < s.size(); i += stride)
    {
      h ^= (unsigned char)s[i];
      h *= 1099511628211ull;
    }
    h ^= (unsigned char)s[s.size() - 1];
    char b[64];
    snprintf(b, sizeof b, "<%zu bytes #%08x>", s.size(), unsigned(h));
    return b;
  }
  std::string o = "'";
  char b[8];
  for (unsigned char c : s)
  {
    if (c >= 0x20 && c < 0x7f && c != '\\' && c != '\'')
      o.push_back(char(c));
    else
    {
      snprintf(b, sizeof b, "\\x%02x", c);
      o += b;
    }
  }
  return o + "'";
}
Bytes toBytes(const std::string &s) { return Bytes(s.begin(), s.end()); }
std::string toStr(const Bytes &b) { return std::string(b.begin(), b.end()); }
std::string show(const Bytes &b)
{
  if (b.size() > (1u << 20))
  {
    // same rendering as show(std::string) without copying a huge value
    uint64_t h = 1469598103934665603ull;
    for (size_t i = 0; i < b.size(); i += 4099)
    {
      h ^= b[i];
      h *= 1099511628211ull;
    }
    h ^= b[b.size() - 1];
    char buf[64];
    snprintf(buf, sizeof buf, "<%zu bytes #%08x>", b.size(), unsigned(h));
    return buf;
  }
  return show(toStr(b));
}
bool same(const Bytes &b, const std::string &s) { return b.size() == s.size() && (s.empty() || memcmp(b.data(), s.data(), s.size()) == 0); }
int64_t wallNow() { return int64_t(mc_wall_ns()); }
std::chrono::system_clock::time_point tp(int64_t ns) { return std::chrono::system_clock::time_point(std::chrono::nanoseconds(ns)); }

void mkdirP(const std::string &p)
{
  for (size_t i = 1; i <= p.size(); ++i)
    if (i == p.size() || p[i] == '/')
      ::mkdir(p.substr(0, i).c_str(), 0755);
}
void rmTree(const std::string &p)
{
  DIR *d = opendir(p.c_str());
  if (d)
  {
    while (dirent *e = readdir(d))
    {
      std::string n = e->d_name;
      if (n == "." || n == "..")
        continue;
      std::string c = p + "/" + n;
      struct stat st;
      if (lstat(c.c_str(), &st) == 0 && S_ISDIR(st.st_mode))
        rmTree(c);
      else
        ::unlink(c.c_str());
    }
    closedir(d);
  }
  ::rmdir(p.c_str());
}

// ---------------------------------------------------------------- reference model + world
struct RefEntry
{
  std::string val;
  bool hasExp = false;
  int64_t exp = 0; // absolute wall-clock ns
};
enum Ghost
{
  G_NEVER = 0,
  G_EXPIRED,
  G_REMOVED
};

struct World
{
  std::string dir, path;
  KVStoreConfig cfg;
  std::unique_ptr<KVStore> kv;
  std::map<std::string, RefEntry> ref; // entries whose expiry passed are purged (they can never come back)
  std::map<std::string, Ghost> ghost;  // why a key is absent (for the violation kind)
  std::vector<std::string> universe;   // keys probed by the read pass
  std::vector<std::string> prefixes;   // prefixes probed
  std::string hist;
  std::string lastOp = "open";
  std::map<std::string, std::string> pre; // state of each probed key before the last operation
  // how the key's current incarnation was written: "set" | "set-ttl", then "+persist" / "+expireAt" once such an
  // edit was applied to it (used in restart signatures: what the log holds for the key decides what a reload does)
  std::map<std::string, std::string> trail;
  int step = 0;
};
World *g_world = nullptr;

void cleanupWorld(World &w)
{
  // close without letting an exception escape, then remove the scratch directory of this execution
  try
  {
    w.kv.reset();
  }
  catch (...)
  {
  }
  rmTree(w.dir);
}

[[noreturn]] void fail(const char *clause, const std::string &sig, const std::string &detail)
{
  std::string d = detail;
  if (g_world)
  {
    d += " | history: " + g_world->hist;
    rmTree(g_world->dir); // the store object is abandoned (the child exits inside mc_violation)
  }
  mc_violation(clause, sig, d);
}

bool live(const World &w, const std::string &k, int64_t W)
{
  auto it = w.ref.find(k);
  return it != w.ref.end() && (!it->second.hasExp || it->second.exp > W);
}
void purge(World &w, int64_t W)
{
  for (auto it = w.ref.begin(); it != w.ref.end();)
  {
    if (it->second.hasExp && it->second.exp <= W)
    {
      w.ghost[it->first] = G_EXPIRED;
      it = w.ref.erase(it);
    }
    else
      ++it;
  }
}
void refSet(World &w, const std::string &k, const std::string &v, bool hasExp, int64_t exp)
{
  w.ref[k] = RefEntry{v, hasExp, exp};
  w.ghost.erase(k);
  w.trail[k] = hasExp ? "set-ttl" : "set";
}
void trailEdit(World &w, const std::string &k, const char *edit)
{
  // canonical (order-insensitive): origin, then "+expireAt", then "+persist"
  std::string &t = w.trail[k];
  bool ex = t.find("+expireAt") != std::string::npos || std::string(edit) == "+expireAt";
  bool pe = t.find("+persist") != std::string::npos || std::string(edit) == "+persist";
  t = t.substr(0, t.find('+'));
  if (ex)
    t += "+expireAt";
  if (pe)
    t += "+persist";
}
void refErase(World &w, const std::string &k)
{
  if (w.ref.erase(k))
    w.ghost[k] = G_REMOVED;
  w.trail.erase(k);
}

void snapshotPre(World &w)
{
  int64_t W = wallNow();
  purge(w, W);
  w.pre.clear();
  for (const auto &k : w.universe)
  {
    std::string s;
    auto it = w.ref.find(k);
    if (it != w.ref.end())
      s = it->second.hasExp ? "live-ttl" : "live-permanent";
    else if (w.kv && w.kv->_kv.count(k))
      s = "expired-unevicted";
    else
      s = "absent";
    w.pre[k] = s;
  }
}

// ---------------------------------------------------------------- the read pass (oracle)
const char *API[] = {"get", "getString", "exists", "ttl", "keys", "keysWithPrefix", "size", "getBatch"};
enum
{
  A_GET = 0,
  A_GETSTRING,
  A_EXISTS,
  A_TTL,
  A_KEYS,
  A_PREFIX,
  A_SIZE,
  A_BATCH,
  A_N
};

struct KeyVerdict
{
  std::string kind; // worst kind
  int rank = 0;
  bool api[A_N] = {false};
  std::string detail;
};

void note(KeyVerdict &v, int api, const std::string &kind, int rank, const std::string &detail)
{
  v.api[api] = true;
  if (rank > v.rank)
  {
    v.rank = rank;
    v.kind = kind;
  }
  if (v.detail.size() < 600)
    v.detail += std::string(API[api]) + ": " + detail + "; ";
}

std::string summary; // impl-observed state of the last pass (for the observation log)

void readPass(World &w, bool reverse, const char *when)
{
  KVStore &kv = *w.kv;
  const int64_t W = wallNow();
  purge(w, W);
  std::vector<std::string> order = w.universe;
  if (reverse)
    std::reverse(order.begin(), order.end());
  std::map<std::string, KeyVerdict> verdicts;
  auto presenceKind = [&](const std::string &k, bool expectedLive) -> std::pair<std::string, int>
  {
    if (expectedLive)
      return {"live-key-missing", 5};
    auto g = w.ghost.find(k);
    if (g != w.ghost.end() && g->second == G_EXPIRED)
      return {"expired-key-visible", 6};
    return {"absent-key-visible", 5};
  };
  std::ostringstream sum;
  try
  {
    // --- per-key point reads
    for (const auto &k : order)
    {
      const bool L = live(w, k, W);
      const RefEntry *e = L ? &w.ref[k] : nullptr;
      KeyVerdict &v = verdicts[k];
      auto g = kv.get(k);
      if (g.has_value() != L)
      {
        auto pk = presenceKind(k, L);
        note(v, A_GET, pk.first, pk.second, L ? "expected " + show(e->val) + ", got absent" : "expected absent, got " + show(*g));
      }
      else if (L && !same(*g, e->val))
        note(v, A_GET, "value-mismatch", 4, "expected " + show(e->val) + ", got " + show(*g));
      auto gs = kv.getString(k);
      if (gs.has_value() != L)
      {
        auto pk = presenceKind(k, L);
        note(v, A_GETSTRING, pk.first, pk.second, L ? "expected " + show(e->val) + ", got absent" : "expected absent, got " + show(*gs));
      }
      else if (L && *gs != e->val)
        note(v, A_GETSTRING, "value-mismatch", 4, "expected " + show(e->val) + ", got " + show(*gs));
      bool ex = kv.exists(k);
      if (ex != L)
      {
        auto pk = presenceKind(k, L);
        note(v, A_EXISTS, pk.first, pk.second, L ? "expected true, got false" : "expected false, got true");
      }
      auto t = kv.ttl(k);
      bool expT = L && e->hasExp;
      int64_t expSecs = expT ? (e->exp - W) / SEC : -1;
      if (t.has_value() != expT || (expT && t->count() != expSecs))
        note(v, A_TTL, "ttl-mismatch", 3,
             "expected " + (expT ? std::to_string(expSecs) + "s" : std::string("none")) + ", got " + (t ? std::to_string(t->count()) + "s" : std::string("none")));
      if (k.size() <= 4)
        sum << k << "=" << (g ? show(*g) : std::string("-")) << (t ? "/ttl" + std::to_string(t->count()) : std::string()) << " ";
    }
    // --- keys()
    {
      auto ks = kv.keys();
      std::multiset<std::string> got(ks.begin(), ks.end());
      for (const auto &k : got)
        if (std::find(w.universe.begin(), w.universe.end(), k) == w.universe.end())
          fail("reads-agree-with-reference", "unknown-key-listed:after-" + w.lastOp + ":via=keys", "keys() lists " + show(k) + " which was never written");
      for (const auto &k : w.universe)
      {
        const bool L = live(w, k, W);
        size_t n = got.count(k);
        if (n > 1)
          note(verdicts[k], A_KEYS, "key-listed-twice", 4, "listed " + std::to_string(n) + " times");
        else if ((n == 1) != L)
        {
          auto pk = presenceKind(k, L);
          note(verdicts[k], A_KEYS, pk.first, pk.second, L ? "not listed" : "listed");
        }
      }
    }
    // --- keysWithPrefix()
    for (const auto &p : w.prefixes)
    {
      auto ks = kv.keysWithPrefix(p);
      std::multiset<std::string> got(ks.begin(), ks.end());
      for (const auto &k : got)
        if (std::find(w.universe.begin(), w.universe.end(), k) == w.universe.end() || k.compare(0, p.size(), p) != 0 || k.size() < p.size())
          fail("reads-agree-with-reference", "foreign-key-listed:after-" + w.lastOp + ":via=keysWithPrefix",
               "keysWithPrefix(" + show(p) + ") lists " + show(k));
      for (const auto &k : w.universe)
      {
        if (k.size() < p.size() || k.compare(0, p.size(), p) != 0)
          continue;
        const bool L = live(w, k, W);
        size_t n = got.count(k);
        if (n > 1)
          note(verdicts[k], A_PREFIX, "key-listed-twice", 4, "prefix " + show(p) + ": listed " + std::to_string(n) + " times");
        else if ((n == 1) != L)
        {
          auto pk = presenceKind(k, L);
          note(verdicts[k], A_PREFIX, pk.first, pk.second, "prefix " + show(p) + (L ? ": not listed" : ": listed"));
        }
      }
    }
    // --- getBatch()
    {
      std::vector<std::string> ask = order;
      ask.push_back(""); // the empty key is never present
      auto b = kv.getBatch(ask);
      for (const auto &kvp : b)
        if (std::find(w.universe.begin(), w.universe.end(), kvp.first) == w.universe.end())
          fail("reads-agree-with-reference", "unknown-key-listed:after-" + w.lastOp + ":via=getBatch", "getBatch returned key " + show(kvp.first));
      for (const auto &k : w.universe)
      {
        const bool L = live(w, k, W);
        auto it = b.find(k);
        if ((it != b.end()) != L)
        {
          auto pk = presenceKind(k, L);
          note(verdicts[k], A_BATCH, pk.first, pk.second, L ? "missing from the result" : "returned " + show(it->second));
        }
        else if (L && !same(it->second, w.ref[k].val))
          note(verdicts[k], A_BATCH, "value-mismatch", 4, "expected " + show(w.ref[k].val) + ", got " + show(it->second));
      }
    }
    // --- size()
    size_t expectSize = 0;
    for (const auto &k : w.universe)
      if (live(w, k, W))
        ++expectSize;
    size_t sz = kv.size();
    sum << "size=" << sz;
    summary = sum.str();
    const std::string *firstBad = nullptr;
    for (const auto &k : w.universe)
      if (verdicts[k].rank > 0)
      {
        firstBad = &k;
        break;
      }
    if (sz != expectSize)
    {
      if (firstBad)
        note(verdicts[*firstBad], A_SIZE, "size-mismatch", 1, "expected " + std::to_string(expectSize) + ", got " + std::to_string(sz));
      else
        fail("reads-agree-with-reference", "size-mismatch:after-" + w.lastOp + ":via=size",
             std::string(when) + ": size() = " + std::to_string(sz) + " but the reference holds " + std::to_string(expectSize) + " live keys (every per-key read agrees)");
    }
    if (firstBad)
    {
      KeyVerdict &v = verdicts[*firstBad];
      std::string via;
      int n = 0;
      for (int a = 0; a < A_N; ++a)
        if (v.api[a])
        {
          via += (via.empty() ? "" : "+") + std::string(API[a]);
          ++n;
        }
      if (n == A_N)
        via = "all";
      else if (n == A_N - 1 && !v.api[A_TTL])
        via = "all-but-ttl";
      std::string sig = v.kind + ":after-" + w.lastOp + ":key-was-" + w.pre[*firstBad];
      if (w.lastOp == "reopen" && w.trail.count(*firstBad))
        sig += ":key=" + w.trail[*firstBad];
      if (firstBad->size() >= 1024)
        sig += ":klen=" + std::to_string(firstBad->size());
      if (w.ref.count(*firstBad) && w.ref[*firstBad].val.size() >= (1u << 20))
        sig += ":vlen=" + std::to_string(w.ref[*firstBad].val.size());
      sig += ":via=" + via;
      char tb[96];
      snprintf(tb, sizeof tb, " at wall=+%.0fs", double(W - 1700000000ll * SEC) / 1e9);
      fail(v.kind == "expired-key-visible" ? "expired-never-observable" : "reads-agree-with-reference", sig,
           std::string(when) + " (" + (reverse ? "reverse" : "forward") + " read pass" + tb + "): key " + show(*firstBad) + " -> " + v.detail);
    }
  }
  catch (const std::exception &e)
  {
    fail("no-unexpected-exception", "read-pass:after-" + w.lastOp, std::string("a read API threw: ") + e.what());
  }
}

uint64_t digest(World &w)
{
  uint64_t h = 1469598103934665603ull;
  auto mixs = [&](const std::string &s)
  {
    for (unsigned char c : s)
    {
      h ^= c;
      h *= 1099511628211ull;
    }
    h ^= 0xff;
    h *= 1099511628211ull;
  };
  const int64_t W = wallNow();
  for (auto &kv : w.ref)
  {
    mixs(kv.first);
    mixs(kv.second.val);
    mixs(kv.second.hasExp ? std::to_string((kv.second.exp - W) / 1000000) : "perm");
  }
  mixs(std::to_string(int64_t(mc_wall_ns()) - int64_t(mc_now_ns())));
  if (w.kv)
  {
    std::vector<std::string> v;
    for (auto &e : w.kv->_kv)
      v.push_back("k" + e.first);
    for (auto &e : w.kv->_expiry)
      v.push_back("e" + e.first + (e.second.timerId != iora::core::InvalidTimerId ? "+" : "-"));
    for (auto &e : w.kv->_cache)
      v.push_back("c" + e.first);
    std::sort(v.begin(), v.end());
    for (auto &s : v)
      mixs(s);
  }
  return h;
}

void compareAll(World &w, const char *when)
{
  bool huge = false;
  for (auto &e : w.ref)
    huge = huge || e.second.val.size() > (1u << 20);
  readPass(w, false, when);
  if (!huge) // a second pass in reverse key order (cache side effects of get); skipped for 100 MiB values (cost)
    readPass(w, true, when);
  mc_state_mix(digest(w));
}

// ---------------------------------------------------------------- operations
enum OpKind
{
  O_SET,
  O_SET_TTL,
  O_BATCH,
  O_BATCH_TTL,
  O_REMOVE,
  O_REMOVE_PREFIX,
  O_CLEAR,
  O_EXPIRE_AT,
  O_PERSIST,
  O_COMPACT,
  O_REOPEN,
  O_ADV_Q,
  O_ADV_L,
  O_ADV_W
};
struct Op
{
  OpKind kind;
  std::string key; // key or prefix
  std::string val;
  int big = 0; // 1: value of exactly MAX_VALUE_LENGTH bytes, 2: one byte more (built lazily inside the execution)
  int secs = 0; // ttl / delta / expireAt offset
  std::vector<std::pair<std::string, std::string>> batch;
  std::string name;
};

Op mk(OpKind k, const std::string &key = "", const std::string &val = "", int secs = 0)
{
  Op o;
  o.kind = k;
  o.key = key;
  o.val = val;
  o.secs = secs;
  std::ostringstream n;
  switch (k)
  {
  case O_SET:
    n << "set(" << show(key) << "," << show(val) << ")";
    break;
  case O_SET_TTL:
    n << "set(" << show(key) << "," << show(val) << ",ttl=" << secs << "s)";
    break;
  case O_REMOVE:
    n << "remove(" << show(key) << ")";
    break;
  case O_REMOVE_PREFIX:
    n << "removeWithPrefix(" << show(key) << ")";
    break;
  case O_CLEAR:
    n << "clear";
    break;
  case O_EXPIRE_AT:
    n << "expireAt(" << show(key) << ",now" << (secs >= 0 ? "+" : "") << secs << "s)";
    break;
  case O_PERSIST:
    n << "persist(" << show(key) << ")";
    break;
  case O_COMPACT:
    n << "compact";
    break;
  case O_REOPEN:
    n << "close+reopen";
    break;
  case O_ADV_Q:
    n << "Q" << secs << "s";
    break;
  case O_ADV_L:
    n << "L" << secs << "s";
    break;
  case O_ADV_W:
    n << "W" << secs << "s";
    break;
  default:
    break;
  }
  o.name = n.str();
  return o;
}
Op mkBatch(std::vector<std::pair<std::string, std::string>> b, int ttl)
{
  Op o;
  o.kind = ttl ? O_BATCH_TTL : O_BATCH;
  o.batch = std::move(b);
  o.secs = ttl;
  std::ostringstream n;
  n << "setBatch({";
  for (size_t i = 0; i < o.batch.size(); ++i)
    n << (i ? "," : "") << show(o.batch[i].first) << ":" << show(o.batch[i].second);
  n << "}";
  if (ttl)
    n << ",ttl=" << ttl << "s";
  n << ")";
  o.name = n.str();
  return o;
}

const char *opClass(const Op &o)
{
  switch (o.kind)
  {
  case O_SET:
    return "set";
  case O_SET_TTL:
    return "set-ttl";
  case O_BATCH:
    return "setBatch";
  case O_BATCH_TTL:
    return "setBatch-ttl";
  case O_REMOVE:
    return "remove";
  case O_REMOVE_PREFIX:
    return "removeWithPrefix";
  case O_CLEAR:
    return "clear";
  case O_EXPIRE_AT:
    return o.secs >= 0 ? "expireAt-future" : "expireAt-past";
  case O_PERSIST:
    return "persist";
  case O_COMPACT:
    return "compact";
  case O_REOPEN:
    return "reopen";
  case O_ADV_Q:
    return "advance-quiesced";
  case O_ADV_L:
    return "advance-lagging";
  case O_ADV_W:
    return "wall-jump";
  }
  return "?";
}

void openStore(World &w) { w.kv = std::make_unique<KVStore>(w.path, w.cfg); }

const std::string &bigValue(int which)
{
  static std::string vmax, vover;
  if (which == 1)
  {
    if (vmax.empty())
    {
      vmax.assign(iora::storage::MAX_VALUE_LENGTH, 'v');
      vmax[0] = '\0';
      vmax[vmax.size() - 1] = '\xff';
    }
    return vmax;
  }
  if (vover.empty())
    vover.assign(iora::storage::MAX_VALUE_LENGTH + 1, 'V');
  return vover;
}

void apply(World &w, const Op &o0)
{
  Op big;
  if (o0.big)
  {
    big = o0;
    big.val = bigValue(o0.big);
  }
  const Op &o = o0.big ? big : o0;
  snapshotPre(w);
  w.lastOp = opClass(o);
  w.hist += (w.hist.empty() ? "" : " ; ") + o.name;
  KVStore &kv = *w.kv;
  const int64_t W = wallNow();
  bool threw = false;
  std::string what;
  try
  {
    switch (o.kind)
    {
    case O_SET:
      try
      {
        kv.set(o.key, toBytes(o.val));
        refSet(w, o.key, o.val, false, 0);
      }
      catch (const KVStoreException &e)
      {
        // invalid input (empty / over-long key, over-long value) is refused: the map is unchanged
        if (!o.key.empty() && o.key.size() <= iora::storage::MAX_KEY_LENGTH && o.val.size() <= iora::storage::MAX_VALUE_LENGTH)
          throw;
        mc_obs("refused: %s", e.what());
      }
      break;
    case O_SET_TTL:
      try
      {
        kv.set(o.key, toBytes(o.val), std::chrono::seconds(o.secs));
        refSet(w, o.key, o.val, true, W + o.secs * SEC);
      }
      catch (const KVStoreException &e)
      {
        if (!o.key.empty() && o.key.size() <= iora::storage::MAX_KEY_LENGTH && o.val.size() <= iora::storage::MAX_VALUE_LENGTH)
          throw;
        mc_obs("refused: %s", e.what());
      }
      break;
    case O_BATCH:
    case O_BATCH_TTL:
    {
      std::unordered_map<std::string, Bytes> b;
      for (auto &p : o.batch)
        b[p.first] = toBytes(p.second);
      if (o.kind == O_BATCH)
        kv.setBatch(b);
      else
        kv.setBatch(b, std::chrono::seconds(o.secs));
      for (auto &p : o.batch)
        refSet(w, p.first, p.second, o.kind == O_BATCH_TTL, W + o.secs * SEC);
      break;
    }
    case O_REMOVE:
      kv.remove(o.key);
      refErase(w, o.key);
      break;
    case O_REMOVE_PREFIX:
    {
      size_t n = kv.removeWithPrefix(o.key);
      mc_obs("removed=%zu", n);
      std::vector<std::string> victims;
      for (auto &e : w.ref)
        if (e.first.size() >= o.key.size() && e.first.compare(0, o.key.size(), o.key) == 0)
          victims.push_back(e.first);
      for (auto &k : victims)
        refErase(w, k);
      break;
    }
    case O_CLEAR:
    {
      kv.clear();
      std::vector<std::string> victims;
      for (auto &e : w.ref)
        victims.push_back(e.first);
      for (auto &k : victims)
        refErase(w, k);
      break;
    }
    case O_EXPIRE_AT:
      kv.expireAt(o.key, tp(W + o.secs * SEC));
      if (w.ref.count(o.key)) // purge() ran in snapshotPre: present == live; a no-op on an absent (or expired) key
      {
        w.ref[o.key].hasExp = true;
        w.ref[o.key].exp = W + o.secs * SEC;
        trailEdit(w, o.key, "+expireAt");
      }
      break;
    case O_PERSIST:
      kv.persist(o.key);
      if (w.ref.count(o.key))
      {
        w.ref[o.key].hasExp = false;
        trailEdit(w, o.key, "+persist");
      }
      break;
    case O_COMPACT:
      kv.compact();
      break;
    case O_REOPEN:
      w.kv.reset();
      openStore(w);
      break;
    case O_ADV_Q:
      mc_quiesce(uint64_t(o.secs) * uint64_t(SEC));
      break;
    case O_ADV_L:
    {
      // The tick thread wakes up on time but is not scheduled past `auto now = Clock::now()` in advance():
      // the driver holds the wheel mutex while the time passes (a legal OS schedule: the thread is descheduled
      // in front of the lock).  Afterwards it is runnable but runs only when the driver next blocks.
      std::mutex *wm = (w.kv && w.kv->_wheel) ? &w.kv->_wheel->_wheelMutex : nullptr;
      if (wm)
        wm->lock();
      std::this_thread::sleep_for(std::chrono::seconds(o.secs));
      if (wm)
        wm->unlock();
      break;
    }
    case O_ADV_W:
      mc_advance_wall(int64_t(o.secs) * SEC);
      break;
    }
  }
  catch (const std::exception &e)
  {
    threw = true;
    what = e.what();
  }
  if (threw)
    fail("no-unexpected-exception", std::string(opClass(o)) + ":" + what.substr(0, 60), o.name + " threw: " + what);
  ++w.step;
}

std::unique_ptr<World> makeWorld(uint32_t cacheSize, uint32_t maxLog = 10 * 1024 * 1024)
{
  auto w = std::make_unique<World>();
  w->dir = (maxLog == 0xffffffffu ? g_scratchBase : g_fastBase) + "/" + std::to_string(getpid());
  rmTree(w->dir);
  mkdirP(w->dir);
  w->path = w->dir + "/store.bin";
  w->cfg.ttlTickDuration = std::chrono::milliseconds(1000);
  w->cfg.ttlTicksPerWheel = 4;
  w->cfg.ttlNumWheels = 2;
  w->cfg.maxCacheSize = cacheSize;
  w->cfg.enableBackgroundCompaction = false;
  w->cfg.maxLogSizeBytes = maxLog;
  g_world = w.get();
  openStore(*w);
  return w;
}

// Debug aid: C12_SCRIPT="3,9,12" makes the history take these alphabet indices instead of asking the explorer
// (use with --replay of an empty choice list, e.g. a case file "scenario=hist;tier=quick;choices=").
int scriptedChoice(int n)
{
  static std::vector<int> script;
  static size_t pos = 0;
  static bool init = false;
  if (!init)
  {
    init = true;
    if (const char *e = getenv("C12_SCRIPT"))
    {
      std::stringstream ss(e);
      std::string tok;
      while (std::getline(ss, tok, ','))
        script.push_back(atoi(tok.c_str()));
    }
  }
  if (pos < script.size())
    return std::min(script[pos++], n - 1);
  return -1;
}

int chooseN(int n)
{
  int sc = scriptedChoice(n);
  if (sc >= 0)
    return sc;
  // the recorder caps a choice point at 20 options: split larger alphabets into two nested free choices
  if (n <= 16)
    return mc_choose(n, MC_FREE);
  int groups = (n + 15) / 16;
  int g = mc_choose(groups, MC_FREE);
  int inGroup = std::min(16, n - g * 16);
  return g * 16 + mc_choose(inGroup, MC_FREE);
}

// ---------------------------------------------------------------- part (i): histories
std::vector<Op> ALPHA_FULL, ALPHA_DEEP, ALPHA_BOUNDARY, ALPHA_BIG, ALPHA_CACHE0;
std::string KEY_MAX, KEY_OVER, KEY_BIN, VAL_ALLBYTES;

Op mkBig(OpKind k, const std::string &key, int which, int ttl)
{
  Op o = mk(k, key, "", ttl);
  o.big = which;
  o.name = std::string("set(") + show(key) + ",<" + (which == 1 ? "MAX_VALUE_LENGTH" : "MAX_VALUE_LENGTH+1") + " bytes>" + (ttl ? ",ttl=" + std::to_string(ttl) + "s" : std::string()) + ")";
  return o;
}

void buildAlphabets()
{
  const std::string B2("\0\xff", 2);
  const std::vector<std::string> keys = {"a", "ab"};
  const std::vector<std::string> vals = {"", "x", B2};
  // simplest first
  for (auto &k : keys)
    for (auto &v : vals)
      ALPHA_FULL.push_back(mk(O_SET, k, v));
  for (int ttl : {1, 20})
    for (auto &k : keys)
      for (auto &v : vals)
        ALPHA_FULL.push_back(mk(O_SET_TTL, k, v, ttl));
  for (int d : {1, 2, 30, 17}) // 17 s lands inside the clamped re-arm window [16 s, 20 s) of a 20 s TTL
    ALPHA_FULL.push_back(mk(O_ADV_Q, "", "", d));
  for (int d : {1, 2, 30})
    ALPHA_FULL.push_back(mk(O_ADV_L, "", "", d));
  for (int d : {2, 30})
    ALPHA_FULL.push_back(mk(O_ADV_W, "", "", d));
  for (auto &k : keys)
    ALPHA_FULL.push_back(mk(O_REMOVE, k));
  for (auto &k : keys)
    ALPHA_FULL.push_back(mk(O_PERSIST, k));
  for (int off : {1, -1})
    for (auto &k : keys)
      ALPHA_FULL.push_back(mk(O_EXPIRE_AT, k, "", off));
  ALPHA_FULL.push_back(mk(O_REOPEN));
  ALPHA_FULL.push_back(mk(O_COMPACT));
  ALPHA_FULL.push_back(mk(O_CLEAR));
  ALPHA_FULL.push_back(mk(O_REMOVE_PREFIX, "a"));
  ALPHA_FULL.push_back(mk(O_REMOVE_PREFIX, "ab"));
  ALPHA_FULL.push_back(mkBatch({{"a", "x"}, {"ab", B2}}, 0));
  ALPHA_FULL.push_back(mkBatch({{"ab", ""}}, 0));
  ALPHA_FULL.push_back(mkBatch({{"a", ""}, {"ab", "x"}}, 1));
  ALPHA_FULL.push_back(mkBatch({{"a", B2}}, 20));

  // reduced alphabet (a subset of the full one) for more depth: one value per writer.  The first 14 operations are
  // the quick tier's alphabet.
  ALPHA_DEEP.push_back(mk(O_SET, "a", "x"));
  ALPHA_DEEP.push_back(mk(O_SET_TTL, "a", B2, 1));
  ALPHA_DEEP.push_back(mk(O_SET_TTL, "ab", "", 1));
  ALPHA_DEEP.push_back(mk(O_SET_TTL, "a", "x", 20));
  ALPHA_DEEP.push_back(mk(O_ADV_Q, "", "", 1));
  ALPHA_DEEP.push_back(mk(O_ADV_L, "", "", 2));
  ALPHA_DEEP.push_back(mk(O_ADV_Q, "", "", 30));
  ALPHA_DEEP.push_back(mk(O_ADV_W, "", "", 2));
  ALPHA_DEEP.push_back(mk(O_PERSIST, "a"));
  ALPHA_DEEP.push_back(mk(O_EXPIRE_AT, "a", "", 1));
  ALPHA_DEEP.push_back(mk(O_EXPIRE_AT, "a", "", -1));
  ALPHA_DEEP.push_back(mk(O_REOPEN));
  ALPHA_DEEP.push_back(mk(O_COMPACT));
  ALPHA_DEEP.push_back(mk(O_ADV_Q, "", "", 17));
  ALPHA_DEEP.push_back(mk(O_ADV_Q, "", "", 2));
  ALPHA_DEEP.push_back(mk(O_REMOVE, "a"));
  ALPHA_DEEP.push_back(mkBatch({{"a", ""}, {"ab", "x"}}, 1));
  ALPHA_DEEP.push_back(mk(O_CLEAR));

  // boundary lengths / binary keys and values
  KEY_MAX = std::string(iora::storage::MAX_KEY_LENGTH, 'k');
  KEY_MAX[0] = '\xfe';
  KEY_OVER = std::string(iora::storage::MAX_KEY_LENGTH + 1, 'K');
  KEY_BIN = std::string("\0\xff\n", 3);
  for (int i = 0; i < 256; ++i)
    VAL_ALLBYTES.push_back(char(i));
  ALPHA_BOUNDARY.push_back(mk(O_SET, KEY_MAX, VAL_ALLBYTES));
  ALPHA_BOUNDARY.push_back(mk(O_SET_TTL, KEY_BIN, VAL_ALLBYTES, 1));
  ALPHA_BOUNDARY.push_back(mk(O_SET, KEY_OVER, "x"));
  ALPHA_BOUNDARY.push_back(mk(O_SET, "", "x"));
  ALPHA_BOUNDARY.push_back(mk(O_SET_TTL, KEY_MAX, "", 20));
  ALPHA_BOUNDARY.push_back(mk(O_REOPEN));
  ALPHA_BOUNDARY.push_back(mk(O_COMPACT));
  ALPHA_BOUNDARY.push_back(mk(O_ADV_L, "", "", 1));
  ALPHA_BOUNDARY.push_back(mk(O_REMOVE_PREFIX, std::string("\xfe", 1)));
  // value length boundary (slow: 100 MiB values), tiny alphabet
  ALPHA_BIG.push_back(mkBig(O_SET, "a", 1, 0));
  ALPHA_BIG.push_back(mkBig(O_SET_TTL, "a", 1, 20));
  ALPHA_BIG.push_back(mk(O_REOPEN));
  ALPHA_BIG.push_back(mk(O_COMPACT));

  ALPHA_CACHE0.push_back(mk(O_SET, "a", "x"));
  ALPHA_CACHE0.push_back(mk(O_SET_TTL, "a", "x", 1));
  ALPHA_CACHE0.push_back(mk(O_ADV_L, "", "", 1));
  ALPHA_CACHE0.push_back(mk(O_REOPEN));
  ALPHA_CACHE0.push_back(mkBatch({{"a", ""}, {"ab", "x"}}, 0));
}

// The cache0 scenario names its own crash: the runtime would file any SIGSEGV under the generic signature
// "asan:SEGV", too coarse to be matched against a known finding without hiding unrelated crashes.
std::string g_segvSig, g_segvDetail;
void segvReporter(int)
{
  if (g_world)
    rmTree(g_world->dir);
  mc_violation("no-crash-no-ub", g_segvSig, g_segvDetail);
}
void armSegvReporter(const World &w, const Op &next)
{
  const bool write = next.kind == O_SET || next.kind == O_SET_TTL || next.kind == O_BATCH || next.kind == O_BATCH_TTL;
  g_segvSig = std::string("maxCacheSize=0:SIGSEGV-in-") + (write ? "write" : opClass(next));
  g_segvDetail = "SIGSEGV inside " + next.name + " with KVStoreConfig::maxCacheSize = 0 | history so far: " + w.hist;
  struct sigaction sa;
  memset(&sa, 0, sizeof sa);
  sa.sa_handler = segvReporter;
  sigaction(SIGSEGV, &sa, nullptr);
}

void history(const std::vector<Op> &alpha, int depth, uint32_t cacheSize, std::vector<std::string> universe, std::vector<std::string> prefixes,
             uint32_t maxLog = 10 * 1024 * 1024)
{
  mc_label("main:history");
  auto wp = makeWorld(cacheSize, maxLog);
  World &w = *wp;
  w.universe = std::move(universe);
  w.prefixes = std::move(prefixes);
  snapshotPre(w);
  compareAll(w, "after open");
  for (int s = 0; s < depth; ++s)
  {
    int c = chooseN(int(alpha.size()));
    const Op &o = alpha[size_t(c)];
    if (cacheSize == 0)
      armSegvReporter(w, o);
    apply(w, o);
    compareAll(w, ("after step " + std::to_string(s + 1) + " [" + o.name + "]").c_str());
    mc_obs("%s -> %s", o.name.c_str(), summary.c_str());
  }
  // epilogue: nothing may change (and nothing expired may come back) through a clean restart
  Op re = mk(O_REOPEN);
  apply(w, re);
  compareAll(w, "after the final close+reopen");
  mc_obs("final -> %s", summary.c_str());
  cleanupWorld(w);
  g_world = nullptr;
}

// ---------------------------------------------------------------- part (ii): races around the eviction
struct RaceScn
{
  const char *name;
  int writer;   // 0 plain set, 1 set with TTL 20 s, 2 remove, 3 none
  int actAtSec; // writer and reader act this many seconds after the TTL key was written (TTL = 1 s; evicted at the 2 s tick)
  int reader;   // 0 get+getString, 1 exists+ttl, 2 keys+keysWithPrefix+size, 3 getBatch+get
  int qP, qT, qTot, tP, tT, tTot;
};

struct Stamp
{
  uint64_t s0 = 0, s1 = 0; // scheduler steps at call / return
  int64_t w0 = 0, w1 = 0;  // wall clock at call / return
};

void race(const RaceScn &sc)
{
  mc_label("main:race");
  auto wp = makeWorld(1);
  World &w = *wp;
  w.universe = {"a", "ab"};
  w.prefixes = {"", "a"};
  KVStore &kv = *w.kv;
  const std::string OLD = "old", NEW("n\0w", 3);
  kv.set("ab", toBytes("keep"));
  const int64_t W0 = wallNow();
  kv.set("a", toBytes(OLD), std::chrono::seconds(1));
  kv.get("a"); // the cache (size 1) holds "a" with its expiry
  const int64_t expOld = W0 + SEC;
  Stamp ws;
  bool wrote = false;
  const std::string wname = sc.writer == 0 ? "set" : sc.writer == 1 ? "set-ttl" : sc.writer == 2 ? "remove" : "none";
  std::string firstBad; // set by the reader thread; reported by main (fail() must run with the world intact)
  std::string firstBadSig;
  auto flag = [&](const std::string &sig, const std::string &detail)
  {
    if (firstBad.empty())
    {
      firstBadSig = sig;
      firstBad = detail;
    }
  };

  std::thread writer(
    [&]()
    {
      mc_label("writer:sleep");
      if (sc.writer == 3)
        return;
      std::this_thread::sleep_for(std::chrono::seconds(sc.actAtSec));
      mc_label("writer:write");
      ws.w0 = wallNow();
      ws.s0 = mc_step();
      if (sc.writer == 0)
        kv.set("a", toBytes(NEW));
      else if (sc.writer == 1)
        kv.set("a", toBytes(NEW), std::chrono::seconds(20));
      else
        kv.remove("a");
      ws.s1 = mc_step();
      ws.w1 = wallNow();
      wrote = true;
      mc_label("writer:done");
    });

  // legality of one observation of key "a" made between stamps r.  present/value: what was seen.
  auto legal = [&](const Stamp &r, bool present, const std::string *value, const char *api)
  {
    bool ok = false;
    // OLD state is a candidate unless the write completed before the read began
    bool oldCand = sc.writer == 3 || !wrote || ws.s1 == 0 || r.s0 <= ws.s1;
    bool newCand = sc.writer != 3 && ws.s0 != 0 && r.s1 >= ws.s0;
    if (oldCand)
    {
      if (present && expOld > r.w0 && (!value || *value == OLD))
        ok = true;
      if (!present && expOld <= r.w1)
        ok = true;
    }
    if (newCand)
    {
      if (sc.writer == 0 && present && (!value || *value == NEW))
        ok = true;
      if (sc.writer == 1)
      {
        int64_t lo = ws.w0 + 20 * SEC, hi = (ws.w1 ? ws.w1 : r.w1) + 20 * SEC;
        if (present && hi > r.w0 && (!value || *value == NEW))
          ok = true;
        if (!present && lo <= r.w1)
          ok = true;
      }
      if (sc.writer == 2 && !present)
        ok = true;
    }
    if (!ok)
    {
      std::string kind;
      if (present && value && *value == OLD)
        kind = "expired-value-read";
      else if (present && (!value || *value == NEW))
        kind = present && !newCand ? "expired-key-visible" : "new-value-illegal";
      else if (present)
        kind = "foreign-value";
      else
        kind = "live-key-missing";
      char b[300];
      snprintf(b, sizeof b, "%s saw %s%s at wall +%.0f..+%.0f s (old value expired at +1 s; writer %s steps %llu..%llu, read steps %llu..%llu)", api,
               present ? "present" : "absent", value ? (" " + show(*value)).c_str() : "", double(r.w0 - W0) / 1e9, double(r.w1 - W0) / 1e9,
               sc.writer == 0 ? "set" : sc.writer == 1 ? "set-ttl" : sc.writer == 2 ? "remove" : "none", (unsigned long long)ws.s0,
               (unsigned long long)ws.s1, (unsigned long long)r.s0, (unsigned long long)r.s1);
      flag(kind + ":" + api, b);
    }
  };
  auto stampBegin = [&](Stamp &r)
  {
    r.w0 = wallNow();
    r.s0 = mc_step();
  };
  auto stampEnd = [&](Stamp &r)
  {
    r.s1 = mc_step();
    r.w1 = wallNow();
  };

  std::thread reader(
    [&]()
    {
      mc_label("reader:sleep");
      std::this_thread::sleep_for(std::chrono::seconds(sc.actAtSec));
      mc_label("reader:read");
      // no writer: read at the expiry instant (+1 s, expired but not evicted) and again at the eviction tick (+2 s)
      const int rounds = sc.writer == 3 ? 2 : 1;
      for (int round = 0; round < rounds; ++round)
      {
        if (round > 0)
          std::this_thread::sleep_for(std::chrono::seconds(1));
        Stamp r;
        if (sc.reader == 0)
        {
          stampBegin(r);
          auto g = kv.get("a");
          stampEnd(r);
          std::string v = g ? toStr(*g) : "";
          mc_obs("get=%s", g ? show(v).c_str() : "-");
          legal(r, g.has_value(), g ? &v : nullptr, "get");
          stampBegin(r);
          auto s = kv.getString("a");
          stampEnd(r);
          legal(r, s.has_value(), s ? &*s : nullptr, "getString");
        }
        else if (sc.reader == 1)
        {
          stampBegin(r);
          bool e = kv.exists("a");
          stampEnd(r);
          mc_obs("exists=%d", int(e));
          legal(r, e, nullptr, "exists");
          stampBegin(r);
          auto t = kv.ttl("a");
          stampEnd(r);
          mc_obs("ttl=%lld", t ? (long long)t->count() : -1ll);
          // ttl(): a value means "present with an expiry": legal only for the old TTL state (0 s left is impossible
          // once expired) or the new TTL state
          if (t)
          {
            bool ok = false;
            bool oldCand = sc.writer == 3 || ws.s1 == 0 || r.s0 <= ws.s1;
            bool newCand = sc.writer == 1 && ws.s0 != 0 && r.s1 >= ws.s0;
            if (oldCand && expOld > r.w0 && t->count() <= (expOld - r.w0) / SEC)
              ok = true;
            if (newCand && t->count() <= 20 && t->count() >= 20 - (r.w1 - ws.w0) / SEC - 1)
              ok = true;
            if (!ok)
              flag("ttl-of-expired-or-permanent-key:ttl", "ttl() returned " + std::to_string(t->count()) + " s at wall +" +
                                                           std::to_string((r.w0 - W0) / SEC) + " s");
          }
        }
        else if (sc.reader == 2)
        {
          stampBegin(r);
          auto ks = kv.keys();
          stampEnd(r);
          bool p = std::find(ks.begin(), ks.end(), "a") != ks.end();
          mc_obs("keys:a=%d n=%zu", int(p), ks.size());
          legal(r, p, nullptr, "keys");
          if (std::find(ks.begin(), ks.end(), "ab") == ks.end())
            flag("bystander-missing:keys", "keys() lost the untouched permanent key 'ab'");
          stampBegin(r);
          auto kp = kv.keysWithPrefix("a");
          stampEnd(r);
          legal(r, std::find(kp.begin(), kp.end(), "a") != kp.end(), nullptr, "keysWithPrefix");
          stampBegin(r);
          size_t n = kv.size();
          stampEnd(r);
          mc_obs("size=%zu", n);
          if (n != 1 && n != 2)
            flag("size-out-of-range:size", "size() = " + std::to_string(n));
          else
            legal(r, n == 2, nullptr, "size");
        }
        else
        {
          stampBegin(r);
          auto b = kv.getBatch({"a", "ab"});
          stampEnd(r);
          auto it = b.find("a");
          std::string v = it != b.end() ? toStr(it->second) : "";
          mc_obs("batch:a=%s", it != b.end() ? show(v).c_str() : "-");
          legal(r, it != b.end(), it != b.end() ? &v : nullptr, "getBatch");
          if (b.find("ab") == b.end() || toStr(b["ab"]) != "keep")
            flag("bystander-missing:getBatch", "getBatch lost the untouched permanent key 'ab'");
          stampBegin(r);
          auto g = kv.get("a");
          stampEnd(r);
          std::string gv = g ? toStr(*g) : "";
          legal(r, g.has_value(), g ? &gv : nullptr, "get");
        }
      }
      mc_label("reader:done");
    });

  mc_label("main:join");
  writer.join();
  reader.join();
  if (!firstBad.empty())
    fail("race-read-legal", firstBadSig + ":writer=" + wname, firstBad);
  // ---- final state: exactly the writer's, now, after the stale timer had every chance to fire, and after a restart
  w.ref.clear();
  w.ref["ab"] = RefEntry{"keep", false, 0};
  w.ghost["a"] = G_EXPIRED;
  bool ambiguous = false;
  if (sc.writer == 0)
    refSet(w, "a", NEW, false, 0);
  else if (sc.writer == 1)
  {
    refSet(w, "a", NEW, true, ws.w0 + 20 * SEC);
    ambiguous = ws.w0 != ws.w1; // virtual time moved inside the call (timer deviation): expiry known only as a range
  }
  else if (sc.writer == 2)
    w.ghost["a"] = G_REMOVED;
  else
    w.ref["a"] = RefEntry{OLD, true, expOld};
  mc_obs("writer %llu..%llu ambiguous=%d", (unsigned long long)ws.s0, (unsigned long long)ws.s1, int(ambiguous));
  if (!ambiguous)
  {
    // Light final checks (few scheduling points: every point of the driver is a place where the explorer may
    // spend a deviation).  If virtual time moves inside a check (timer deviation) the check is repeated.
    auto lightCheck = [&](const char *phase)
    {
      for (int attempt = 0; attempt < 4; ++attempt)
      {
        const int64_t W = wallNow();
        purge(w, W);
        auto g = w.kv->get("a");
        bool ex = w.kv->exists("a");
        auto t = w.kv->ttl("a");
        auto gb = w.kv->get("ab");
        size_t n = w.kv->size();
        if (wallNow() != W)
          continue;
        const bool L = live(w, "a", W);
        std::string kind, detail;
        if (g.has_value() != L || ex != L)
        {
          kind = L ? "live-key-missing" : (w.ghost.count("a") && w.ghost["a"] == G_EXPIRED ? "expired-key-visible" : "removed-key-visible");
          detail = std::string("get: ") + (g ? show(*g) : "absent") + ", exists: " + (ex ? "true" : "false") + ", expected " + (L ? show(w.ref["a"].val) : "absent");
        }
        else if (L && !same(*g, w.ref["a"].val))
        {
          kind = "value-mismatch";
          detail = "get: " + show(*g) + ", expected " + show(w.ref["a"].val);
        }
        else
        {
          bool expT = L && w.ref["a"].hasExp;
          int64_t secs = expT ? (w.ref["a"].exp - W) / SEC : -1;
          if (t.has_value() != expT || (expT && t->count() != secs))
          {
            kind = "ttl-mismatch";
            detail = "ttl: " + (t ? std::to_string(t->count()) + "s" : std::string("none")) + ", expected " + (expT ? std::to_string(secs) + "s" : std::string("none"));
          }
          else if (!gb || toStr(*gb) != "keep")
          {
            kind = "bystander-lost";
            detail = "the untouched permanent key 'ab' reads " + (gb ? show(*gb) : std::string("absent"));
          }
          else if (n != size_t(L ? 2 : 1))
          {
            kind = "size-mismatch";
            detail = "size() = " + std::to_string(n) + ", expected " + std::to_string(L ? 2 : 1);
          }
        }
        mc_obs("%s: a=%s ttl=%lld size=%zu", phase, g ? show(*g).c_str() : "-", t ? (long long)t->count() : -1ll, n);
        if (!kind.empty())
        {
          char tb[64];
          snprintf(tb, sizeof tb, " at wall +%.0f s", double(W - W0) / 1e9);
          fail("race-final-state", kind + ":" + phase + ":writer=" + wname, std::string(phase) + tb + ": " + detail);
        }
        return;
      }
    };
    mc_quiesce(0);
    lightCheck("settled");
    mc_quiesce(30 * uint64_t(SEC)); // the stale timer, the clamped re-arm (16 s) and the new expiry (20 s) are all behind us
    lightCheck("+30s");
    try
    {
      w.kv.reset();
      openStore(w);
    }
    catch (const std::exception &e)
    {
      fail("no-unexpected-exception", "reopen-after-race", e.what());
    }
    lightCheck("reopened");
  }
  mc_obs("final -> %s", summary.c_str());
  cleanupWorld(w);
  g_world = nullptr;
}

const RaceScn RACES[] = {
  // quick: one deviation (a preemption, a timer deviation or a non-default successor); thorough: any two (P<=2, T<=1, S<=1)
  // name                      writer act reader  qP qT qTot  tP tT tTot
  {"race_reset_plain_get", 0, 2, 0, 1, 1, 1, 2, 1, 2},
  {"race_reset_ttl_get", 1, 2, 0, 1, 1, 1, 2, 1, 2},
  {"race_reset_plain_scan", 0, 2, 2, 1, 1, 1, 2, 1, 2},
  {"race_reset_ttl_exists", 1, 2, 1, 1, 1, 1, 2, 1, 2},
  {"race_remove_batch", 2, 2, 3, 1, 1, 1, 2, 1, 2},
  {"race_reset_plain_at_expiry", 0, 1, 0, 1, 1, 1, 2, 1, 2},
  {"race_reset_ttl_at_expiry", 1, 1, 3, 1, 1, 1, 2, 1, 2},
  {"race_evict_vs_readers", 3, 1, 0, 1, 1, 1, 2, 1, 2},
};
} // namespace

int main(int argc, char **argv)
{
  bool thorough = false;
  for (int i = 1; i + 1 < argc; ++i)
  {
    if (std::string(argv[i]) == "--tier" && std::string(argv[i + 1]) == "thorough")
      thorough = true;
    if (std::string(argv[i]) == "--replay" && vr::readFile(argv[i + 1]).find("tier=thorough") != std::string::npos)
      thorough = true; // the tier of the recorded case decides depths and bounds
  }
  // scratch roots (see g_scratchBase / g_fastBase)
  {
    char exe[4096];
    ssize_t n = readlink("/proc/self/exe", exe, sizeof exe - 1);
    std::string e = n > 0 ? std::string(exe, size_t(n)) : std::string();
    size_t k = e.rfind("/build/bin/");
    std::string buildDir = k != std::string::npos ? e.substr(0, k) + "/build" : std::string("/verif/build");
    const char *forced = getenv("C12_SCRATCH");
    const std::string diskRoot = forced ? std::string(forced) : buildDir + "/scratch/C12";
    std::string fastRoot = diskRoot;
    if (!forced && access("/dev/shm", W_OK | X_OK) == 0)
      fastRoot = "/dev/shm/verif-C12";
    for (const std::string &root : {diskRoot, fastRoot})
    {
      // remove what an earlier, killed run left behind (directories named after process ids that no longer exist)
      if (DIR *d = opendir(root.c_str()))
      {
        std::vector<std::string> stale;
        while (dirent *de = readdir(d))
        {
          long pid = atol(de->d_name);
          if (pid > 0 && kill(pid_t(pid), 0) != 0 && errno == ESRCH)
            stale.push_back(root + "/" + de->d_name);
        }
        closedir(d);
        for (auto &p : stale)
          rmTree(p);
      }
    }
    g_scratchBase = diskRoot + "/" + std::to_string(getpid());
    g_fastBase = fastRoot + "/" + std::to_string(getpid());
    mkdirP(g_scratchBase);
    mkdirP(g_fastBase);
  }
  auto envInt = [](const char *n, int d)
  {
    const char *v = getenv(n);
    return v ? atoi(v) : d;
  };
  buildAlphabets();

  std::vector<McScenario> v;
  auto histScn = [&](const char *name, std::function<void()> body, double weight)
  {
    McScenario m;
    m.name = name;
    m.body = std::move(body);
    m.quick = McBounds{};
    m.quick.S = 0; // sequential semantics: default schedule only; the history itself is the free choice
    m.thorough = m.quick;
    m.horizon_s = 600;
    m.weight = weight;
    v.push_back(m);
  };
  const std::vector<std::string> U = {"a", "ab", "b"}, PFX = {"", "a", "ab", "b"};
#ifdef C12_DEEP
  // second part (thorough tier only, built without ASan so that an execution costs ~1/3): the same scenarios, one level deeper
  const char *part = "C12_kvstore_deep";
  const int depthFull = envInt("C12_DEPTH", 4);
  const int depthDeep = envInt("C12_DEPTH_DEEP", 5);
  histScn("hist_d4", [=]() { history(ALPHA_FULL, depthFull, 1, U, PFX); }, 65);
  {
    // depth 5 over the whole reduced alphabet (18 operations)
    std::vector<Op> alpha(ALPHA_DEEP.begin(), ALPHA_DEEP.end());
    histScn("hist_reduced_d5", [=]() { history(alpha, depthDeep, 1, U, PFX); }, 35);
  }
  (void)thorough;
#else
  const char *part = "C12_kvstore";
  const int depthFull = envInt("C12_DEPTH", 3);
  const int depthDeep = envInt("C12_DEPTH_DEEP", 4);
  const int depthBoundary = envInt("C12_DEPTH_BOUNDARY", 3);
  const int depthBig = envInt("C12_DEPTH_BIG", thorough ? 2 : 1); // 100 MiB values: ~5 s of CRC and copying per set / reload
  histScn("hist", [=]() { history(ALPHA_FULL, depthFull, 1, U, PFX); }, 100);
  {
    // quick: the first 14 operations of the reduced alphabet; thorough: all 18 (depth 4 both)
    std::vector<Op> alpha(ALPHA_DEEP.begin(), ALPHA_DEEP.begin() + (thorough ? long(ALPHA_DEEP.size()) : 14));
    histScn("hist_reduced", [=]() { history(alpha, depthDeep, 1, U, PFX); }, thorough ? 120 : 45);
  }
  {
    // every write compacts inline (maxLogSizeBytes = 1, background compaction off): snapshot written, log truncated,
    // expired keys dropped, after each operation
    std::vector<Op> alpha(ALPHA_DEEP.begin(), ALPHA_DEEP.begin() + 14);
    const int depthAuto = envInt("C12_DEPTH_AUTO", thorough ? 4 : 3);
    histScn("autocompact", [=]() { history(alpha, depthAuto, 1, U, PFX, 1); }, thorough ? 40 : 8);
  }
  histScn(
    "boundary",
    [=]()
    { history(ALPHA_BOUNDARY, depthBoundary, 1, {KEY_MAX, KEY_BIN, KEY_OVER}, {"", std::string("\xfe", 1), std::string("\0", 1), KEY_MAX}); },
    thorough ? 10 : 6);
  histScn(
    "bigvalue", [=]() { history(ALPHA_BIG, depthBig, 1, {"a"}, {"", "a"}, 0xffffffffu); }, thorough ? 60 : 20);
  v.back().exec_timeout_s = 300;
  histScn("cache0", [=]() { history(ALPHA_CACHE0, 2, 0, {"a", "ab"}, {"", "a"}); }, 1);
  for (const RaceScn &s : RACES)
  {
    McScenario m;
    m.name = s.name;
    m.body = [s]() { race(s); };
    m.quick.P = s.qP;
    m.quick.T = s.qT;
    m.quick.S = 1;
    m.quick.total = s.qTot;
    m.thorough.P = s.tP;
    m.thorough.T = s.tT;
    m.thorough.S = 1;
    m.thorough.total = s.tTot;
    m.horizon_s = 600;
    m.weight = thorough ? 12 : 1;
    v.push_back(m);
  }
#endif
  int rc = mc_main(argc, argv, part, v);
  for (const std::string &base : {g_scratchBase, g_fastBase})
  {
    rmTree(base);
    std::string root = base.substr(0, base.rfind('/'));
    ::rmdir(root.c_str()); // only succeeds when no other run is using it
  }
  return rc;
}

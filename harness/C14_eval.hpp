// C14: running the real parser (pull / SAX / DOM) and the two oracles (faithful, robust).
#pragma once
#include "C14_gen.hpp"
#include "iora/parsers/xml.hpp"
#include "report.hpp"
#include <memory>

namespace c14
{
namespace x = iora::parsers::xml;

struct Cfg
{
  size_t d = 256, a = 256, n = 1024, t = 1u << 20, k = 0;
  x::Options opt() const
  {
    x::Options o;
    o.maxDepth = d;
    o.maxAttrsPerElement = a;
    o.maxNameLength = n;
    o.maxTextSpan = t;
    o.maxTotalTokens = k;
    return o;
  }
  std::string str() const
  {
    char b[160];
    snprintf(b, sizeof b, "d=%zu a=%zu n=%zu t=%zu k=%zu", d, a, n, t, k);
    return b;
  }
};

inline std::string makeCase(const char *phase, const Cfg &c, sv bytes)
{
  std::string s = std::string("C14 ") + phase + " " + c.str() + "\n";
  s.append(bytes.data(), bytes.size());
  return s;
}
inline bool parseCase(const std::string &kase, std::string &phase, Cfg &c, std::string &bytes)
{
  size_t nl = kase.find('\n');
  if (nl == std::string::npos)
    return false;
  char ph[32] = {0};
  if (sscanf(kase.c_str(), "C14 %31s d=%zu a=%zu n=%zu t=%zu k=%zu", ph, &c.d, &c.a, &c.n, &c.t, &c.k) != 6)
    return false;
  phase = ph;
  bytes = kase.substr(nl + 1);
  return true;
}

// Exact-size heap copy of the input (no terminating NUL) so that ASan sees a read one past the end.
struct Buf
{
  std::unique_ptr<char[]> p;
  size_t n;
  explicit Buf(sv s) : p(new char[s.size() ? s.size() : 1]), n(s.size())
  {
    if (n == 0)
      p.reset(new char[0]);
    else
      memcpy(p.get(), s.data(), n);
  }
  sv view() const { return sv(p.get(), n); }
};

inline const char *kindName(x::TokenKind k)
{
  switch (k)
  {
  case x::TokenKind::Invalid:
    return "Invalid";
  case x::TokenKind::Eof:
    return "Eof";
  case x::TokenKind::XmlDecl:
    return "XmlDecl";
  case x::TokenKind::Doctype:
    return "Doctype";
  case x::TokenKind::StartElement:
    return "StartElement";
  case x::TokenKind::EndElement:
    return "EndElement";
  case x::TokenKind::EmptyElement:
    return "EmptyElement";
  case x::TokenKind::Text:
    return "Text";
  case x::TokenKind::CData:
    return "CData";
  case x::TokenKind::Comment:
    return "Comment";
  case x::TokenKind::ProcessingInstruction:
    return "PI";
  }
  return "?";
}

struct Run
{
  bool accepted = false;
  bool overrun = false;    // produced more tokens than input bytes: no progress
  bool eofOk = true;       // accepted => current() is Eof and next() stays false
  bool cbKindOk = true;    // SAX: callback matched token kind
  std::string err;
  std::vector<x::Token> toks;
};

inline Run runPull(sv in, const Cfg &c)
{
  Run r;
  x::Parser p(in, c.opt());
  size_t guard = in.size() + 4;
  while (p.next())
  {
    r.toks.push_back(p.current());
    if (r.toks.size() > guard)
    {
      r.overrun = true;
      return r;
    }
  }
  const x::Error *e = p.error();
  r.accepted = e == nullptr;
  if (e)
    r.err = e->message;
  else
    r.eofOk = p.current().kind == x::TokenKind::Eof && !p.next() && p.error() == nullptr;
  return r;
}

inline Run runSax(sv in, const Cfg &c)
{
  Run r;
  x::Parser p(in, c.opt());
  x::SaxCallbacks cb;
  auto mk = [&r](x::TokenKind want)
  {
    return [&r, want](const x::Token &t)
    {
      if (t.kind != want)
        r.cbKindOk = false;
      r.toks.push_back(t);
    };
  };
  cb.onXmlDecl = mk(x::TokenKind::XmlDecl);
  cb.onDoctype = mk(x::TokenKind::Doctype);
  cb.onStartElement = mk(x::TokenKind::StartElement);
  cb.onEndElement = mk(x::TokenKind::EndElement);
  cb.onEmptyElement = mk(x::TokenKind::EmptyElement);
  cb.onText = mk(x::TokenKind::Text);
  cb.onCData = mk(x::TokenKind::CData);
  cb.onComment = mk(x::TokenKind::Comment);
  cb.onPI = mk(x::TokenKind::ProcessingInstruction);
  r.accepted = x::runSax(p, cb);
  if (const x::Error *e = p.error())
    r.err = e->message;
  return r;
}

struct DomRun
{
  std::unique_ptr<x::Node> doc;
  std::string err;
};
inline DomRun runDom(sv in, const Cfg &c)
{
  DomRun r;
  x::Parser p(in, c.opt());
  x::Error e;
  r.doc = x::DomBuilder::build(p, &e);
  if (!r.doc)
    r.err = e.message;
  return r;
}

// ---------- canonical events from the three interfaces (what the user of each API sees) ----------
struct CEv
{
  char k;
  size_t depth;
  std::string name, text;
  std::vector<std::pair<std::string, std::string>> attrs;
  std::string raw;      // pull/SAX only: raw text slice
  bool rawKnown = false;
  bool decodeOk = true; // pull/SAX: Parser::decodeEntities succeeded on every slice of this event
};

inline std::vector<CEv> canonTokens(const std::vector<x::Token> &toks)
{
  std::vector<CEv> v;
  for (auto &t : toks)
  {
    CEv e;
    e.depth = t.depth;
    switch (t.kind)
    {
    case x::TokenKind::StartElement:
    case x::TokenKind::EmptyElement:
      e.k = t.kind == x::TokenKind::StartElement ? 'S' : 'Z';
      e.name = std::string(t.name);
      for (auto &a : t.attributes)
      {
        std::string dec;
        if (!x::Parser::decodeEntities(a.value, dec))
          e.decodeOk = false;
        e.attrs.push_back({std::string(a.name), dec});
        e.raw += std::string(a.value) + '\x1f';
      }
      e.rawKnown = true;
      break;
    case x::TokenKind::EndElement:
      e.k = 'E';
      e.name = std::string(t.name);
      break;
    case x::TokenKind::Text:
      if (allWs(t.text))
        continue; // ignorable whitespace
      e.k = 'T';
      e.raw = std::string(t.text);
      e.rawKnown = true;
      if (!x::Parser::decodeEntities(t.text, e.text))
        e.decodeOk = false;
      break;
    case x::TokenKind::CData:
      e.k = 'C';
      e.text = std::string(t.text);
      break;
    case x::TokenKind::Comment:
      e.k = 'M';
      e.text = std::string(t.text);
      break;
    case x::TokenKind::ProcessingInstruction:
      if (t.name == "xml")
        continue; // the XML declaration is reported as a PI named "xml": not an event of the property
      e.k = 'P';
      e.name = std::string(t.name);
      e.text = std::string(lstrip(t.text));
      break;
    default:
      continue; // XmlDecl, Doctype
    }
    v.push_back(std::move(e));
  }
  return v;
}

inline void canonDom(const x::Node &n, size_t depth, std::vector<CEv> &v)
{
  for (auto &c : n.children)
  {
    CEv e;
    e.depth = depth;
    switch (c->type)
    {
    case x::NodeType::Element:
    {
      e.k = 'S';
      e.depth = depth + 1;
      e.name = c->name;
      for (auto &a : c->attributes)
        e.attrs.push_back({a.name, a.value});
      v.push_back(e);
      canonDom(*c, depth + 1, v);
      CEv z;
      z.k = 'E';
      z.depth = depth + 1;
      z.name = c->name;
      v.push_back(z);
      continue;
    }
    case x::NodeType::Text:
      if (allWs(c->value))
        continue;
      e.k = 'T';
      e.text = c->value;
      break;
    case x::NodeType::CData:
      e.k = 'C';
      e.text = c->value;
      break;
    case x::NodeType::Comment:
      e.k = 'M';
      e.text = c->value;
      break;
    case x::NodeType::ProcessingInstruction:
      if (c->name == "xml")
        continue;
      e.k = 'P';
      e.name = c->name;
      e.text = std::string(lstrip(c->value));
      break;
    default:
      continue;
    }
    v.push_back(e);
  }
}

inline std::string show(const std::string &s)
{
  std::string j = vr::jstr(s.substr(0, 60));
  return j;
}

struct Mismatch
{
  std::string sig, detail;
};

// Compare what an interface reported with the generating tree.  splitEmpty: interface cannot tell
// <a/> from <a></a> (DOM), so Z is expected as S,E.  Every differing event yields one mismatch; a
// structural misalignment (different kind / count) ends the comparison.
inline std::vector<Mismatch> compareEvents(const std::vector<Ev> &exp0, const std::vector<CEv> &got, bool splitEmpty, bool checkDepth)
{
  std::vector<Ev> exp;
  for (auto &e : exp0)
  {
    if (e.k == 'Z' && splitEmpty)
    {
      Ev s = e;
      s.k = 'S';
      exp.push_back(s);
      Ev z = e;
      z.k = 'E';
      z.attrs.clear();
      exp.push_back(z);
    }
    else
      exp.push_back(e);
  }
  std::vector<Mismatch> out;
  auto add = [&](const std::string &sig, const std::string &detail)
  {
    for (auto &m : out)
      if (m.sig == sig)
        return;
    out.push_back(Mismatch{sig, detail});
  };
  size_t n = std::min(exp.size(), got.size());
  for (size_t i = 0; i < n; ++i)
  {
    const Ev &e = exp[i];
    const CEv &g = got[i];
    std::string at = "event #" + std::to_string(i) + " ";
    if (e.k != g.k)
    {
      add(std::string("kind:") + e.k + "->" + g.k, at + "expected kind " + e.k + " got " + g.k + " (name " + show(g.name) + " text " + show(g.text) + ")");
      return out;
    }
    if (checkDepth && e.depth != g.depth)
      add(std::string("depth:") + e.k, at + "expected depth " + std::to_string(e.depth) + " got " + std::to_string(g.depth));
    switch (e.k)
    {
    case 'S':
    case 'Z':
    case 'E':
      if (e.name != g.name)
        add(std::string("name:") + e.k, at + "expected name " + show(e.name) + " got " + show(g.name));
      if (e.k == 'E')
        break;
      if (e.attrs.size() != g.attrs.size())
      {
        add("attr:count", at + "expected " + std::to_string(e.attrs.size()) + " attributes got " + std::to_string(g.attrs.size()));
        break;
      }
      for (size_t j = 0; j < e.attrs.size(); ++j)
      {
        if (e.attrs[j].name != g.attrs[j].first)
          add("attr:name", at + "expected attribute name " + show(e.attrs[j].name) + " got " + show(g.attrs[j].first));
        if (!g.decodeOk)
          add("attr:decode-fails:" + firstRef(e.attrs[j].raw), at + "Parser::decodeEntities rejected a well-formed attribute value " + show(e.attrs[j].raw));
        else if (e.attrs[j].dec != g.attrs[j].second)
        {
          std::string ref = firstRef(e.attrs[j].raw);
          add(ref.empty() ? "attr:value" : "attr:decode:" + ref,
              at + "attribute " + e.attrs[j].name + " raw " + show(e.attrs[j].raw) + ": expected value hex " + vr::hex(e.attrs[j].dec) + " got hex " + vr::hex(g.attrs[j].second));
        }
      }
      if (g.rawKnown)
      {
        std::string raw;
        for (auto &a : e.attrs)
          raw += a.raw + '\x1f';
        if (raw != g.raw)
          add("attr:raw-slice", at + "raw attribute value slices differ: expected " + show(raw) + " got " + show(g.raw));
      }
      break;
    case 'T':
    {
      if (g.rawKnown && g.raw != e.raw)
      {
        if (g.raw == std::string(lstrip(e.raw)))
          add("text:leading-ws-dropped", at + "expected raw text " + show(e.raw) + " got " + show(g.raw));
        else if (g.raw == std::string(rstrip(e.raw)))
          add("text:trailing-ws-dropped", at + "expected raw text " + show(e.raw) + " got " + show(g.raw));
        else
          add("text:raw-slice", at + "expected raw text " + show(e.raw) + " got " + show(g.raw));
        break;
      }
      if (!g.decodeOk)
      {
        add("text:decode-fails:" + firstRef(e.raw), at + "Parser::decodeEntities rejected well-formed text " + show(e.raw));
        break;
      }
      if (g.text != e.dec)
      {
        std::string ref = firstRef(e.raw);
        if (g.text == std::string(lstrip(e.dec)))
          add("text:leading-ws-dropped", at + "expected text " + show(e.dec) + " got " + show(g.text));
        else if (g.text == std::string(rstrip(e.dec)))
          add("text:trailing-ws-dropped", at + "expected text " + show(e.dec) + " got " + show(g.text));
        else
          add(ref.empty() ? "text:value" : "text:decode:" + ref, at + "raw " + show(e.raw) + ": expected hex " + vr::hex(e.dec) + " got hex " + vr::hex(g.text));
      }
      break;
    }
    case 'C':
    case 'M':
      if (g.text != e.raw)
        add(e.k == 'C' ? "cdata:content" : "comment:content", at + "expected " + show(e.raw) + " got " + show(g.text));
      break;
    case 'P':
      if (g.name != e.name)
        add("pi:target", at + "expected target " + show(e.name) + " got " + show(g.name));
      if (g.text != e.raw)
        add("pi:data", at + "expected data " + show(e.raw) + " got (separator stripped) " + show(g.text));
      break;
    }
  }
  if (exp.size() != got.size())
  {
    if (exp.size() > got.size())
      add(std::string("missing:") + exp[n].k, "expected " + std::to_string(exp.size()) + " events got " + std::to_string(got.size()) + "; first missing kind " + exp[n].k);
    else
      add(std::string("extra:") + got[n].k, "expected " + std::to_string(exp.size()) + " events got " + std::to_string(got.size()) + "; first extra kind " + got[n].k + " text " + show(got[n].text));
  }
  return out;
}

inline std::string errClass(const std::string &m)
{
  std::string s = m;
  size_t p = s.find(" - ");
  if (p != std::string::npos)
    s = s.substr(0, p);
  p = s.find(':');
  if (p != std::string::npos)
    s = s.substr(0, p);
  if (s.size() > 48)
    s = s.substr(0, 48);
  for (auto &c : s)
    if (c == ' ')
      c = '-';
  return s;
}

inline bool sameTokens(const std::vector<x::Token> &a, const std::vector<x::Token> &b)
{
  if (a.size() != b.size())
    return false;
  auto eq = [](sv p, sv q) { return p.size() == q.size() && (p.empty() || p.data() == q.data()); };
  for (size_t i = 0; i < a.size(); ++i)
  {
    if (a[i].kind != b[i].kind || !eq(a[i].name, b[i].name) || !eq(a[i].text, b[i].text) || a[i].depth != b[i].depth ||
        a[i].attributes.size() != b[i].attributes.size() || a[i].selfClosing != b[i].selfClosing)
      return false;
    for (size_t j = 0; j < a[i].attributes.size(); ++j)
      if (!eq(a[i].attributes[j].name, b[i].attributes[j].name) || !eq(a[i].attributes[j].value, b[i].attributes[j].value))
        return false;
  }
  return true;
}

} // namespace c14

// C01 (TLS part): a TLS session of the real TcpEngine delivers the application bytes exactly once and in order.
//
// Real code under test: Transport::tcp() with TlsMode::Client / TlsMode::Server sessions (driveHandshake, the
// handshake branch of doSend that queues data, the SSL_write / SSL_read loops, WANT_READ / WANT_WRITE handling and
// updateInterest).  The other endpoint is harness/tls_peer.hpp, an independent OpenSSL endpoint on a harness thread.
// All sockets are rt/simk objects with SMALL receive buffers on both sides, so every TLS record (handshake flights of
// ~1-2 kB, application records of ~25-130 bytes) is cut into many partial writes and EAGAINs; on top of that every
// send()/recv() of either side may return a short count (environment deviation E) and threads may be preempted (P).
//
// Oracle clauses (same ids as the plain part):
//   outbound-stream / outbound-prefix / no-silent-stall   decrypted bytes at the peer == concatenation of the accepted
//                     payloads, each contiguous and exactly once, ordered consistently with returns-before-calls
//   inbound-stream    bytes handed to the data callback == application bytes the peer wrote (all of them while the
//                     session is open: data left inside the SSL object after a partial drain is a stall)
//   no-cleartext      no payload appears on the wire
#include "mc.h"
#include "simk.h"
#include "tls_peer.hpp"
#include <iora/network/transport.hpp>
#include <iora/network/transport_impl.hpp>

#include <functional>
#include <sstream>
#include <thread>

using namespace iora::network;

namespace
{
std::string CERTS;
std::string C(const char *f) { return CERTS + "/" + f; }

struct Scn
{
  const char *name;
  bool serverSide; // iora is the TLS server (accepted session), else the TLS client
  bool edge;
  int engBuf;  // receive buffer of the engine's socket (what the peer can push before EAGAIN)
  int peerBuf; // receive buffer of the peer's socket (what the engine can push before EAGAIN)
  int readChunk;
  std::vector<std::vector<int>> senders; // per sender thread: payload sizes
  std::vector<int> peerWrites;           // application writes of the peer (one TLS record each)
  bool early;                            // client side: send right after connect() returned (before the handshake is done)
  int qP, qE, tP, tE;
};

struct SendRec
{
  std::string payload;
  bool accepted;
  uint64_t callStep, retStep;
};

std::string mkPayload(size_t si, int k, int n)
{
  std::string p;
  for (int i = 0; i < n; ++i)
    p.push_back(char((si == 0 ? 'a' : 'A') + (k * 7 + i) % 26));
  // make every payload long enough to be recognisable on the wire and distinct: prefix with a tag
  return "<" + std::to_string(si) + "." + std::to_string(k) + ":" + p + ">";
}

void run(const Scn &sc)
{
  mc_label("main:setup");
  simk_cfg.tcpRcvBuf = sc.engBuf;
  simk_cfg.shortIo = true;
  simk_cfg.tap = true;

  tp::PeerConfig pc;
  pc.server = !sc.serverSide;
  if (pc.server)
  {
    pc.cert = C("srv_ok.pem");
    pc.key = C("srv_ok.key");
  }
  pc.rcvbuf = sc.peerBuf;
  std::string peerAll;
  {
    int wk = 0;
    for (int n : sc.peerWrites)
    {
      std::string p = "[" + std::to_string(wk) + ":";
      for (int i = 0; i < n; ++i)
        p.push_back(char('0' + (wk * 3 + i) % 10));
      p += "]";
      ++wk;
      pc.moreSends.push_back(p);
      peerAll += p;
    }
  }
  tp::Peer peer(pc);

  TransportConfig cfg;
  cfg.useEdgeTriggered = sc.edge;
  cfg.enableHighResolutionTimers = false;
  cfg.ioReadChunk = size_t(sc.readChunk);
  cfg.handshakeTimeout = std::chrono::seconds(30);
  cfg.connectTimeout = std::chrono::seconds(30);
  if (sc.serverSide)
  {
    cfg.serverTls.enabled = true;
    cfg.serverTls.defaultMode = TlsMode::Server;
    cfg.serverTls.certFile = C("srv_ok.pem");
    cfg.serverTls.keyFile = C("srv_ok.key");
  }
  else
  {
    cfg.clientTls.enabled = true;
    cfg.clientTls.defaultMode = TlsMode::Client;
    cfg.clientTls.verifyPeer = true;
    cfg.clientTls.caFile = C("ca_a.pem");
  }
  auto t = Transport::tcp(cfg);
  SessionId sid = 0;
  bool connected = false, closed = false;
  std::string inbound;
  t->onAccept([&](SessionId s, const TransportAddress &) { sid = s; connected = true; mc_obs("accept %llu", (unsigned long long)s); });
  t->onConnect([&](SessionId s, const TransportAddress &) { sid = s; connected = true; mc_obs("connect %llu", (unsigned long long)s); });
  t->onData([&](SessionId, iora::core::BufferView d, std::chrono::steady_clock::time_point) { inbound.append((const char *)d.data(), d.size()); });
  t->onClose([&](SessionId s, const TransportErrorInfo &e) { closed = true; mc_obs("close %llu code=%d", (unsigned long long)s, int(e.code)); });
  if (t->start().isErr())
    mc_violation("harness-internal", "start", "start failed");

  if (sc.serverSide)
  {
    if (t->addListener("127.0.0.1", 9443, TlsMode::Server).isErr())
      mc_violation("harness-internal", "listener", "addListener failed");
    mc_quiesce();
    peer.start(9443);
    peer.connectNow();
  }
  else
  {
    peer.start(9443);
    mc_quiesce();
    auto cr = t->connect("127.0.0.1", 9443, TlsMode::Client);
    if (cr.isErr())
      mc_violation("harness-internal", "connect", "connect failed");
    sid = cr.value();
  }
  if (!sc.early)
  {
    for (int i = 0; i < 50 && !connected; ++i)
      mc_quiesce(10ull * 1000000ull);
    if (!connected)
      mc_violation("harness-internal", "not-connected", "TLS session was not announced");
  }

  std::vector<std::vector<SendRec>> recs(sc.senders.size());
  std::vector<std::thread> th;
  for (size_t si = 0; si < sc.senders.size(); ++si)
    th.emplace_back(
      [&, si]()
      {
        std::string who = "S" + std::to_string(si + 1);
        int k = 0;
        for (int n : sc.senders[si])
        {
          mc_label((who + ":send").c_str());
          SendRec r;
          r.payload = mkPayload(si, k++, n);
          r.callStep = mc_step();
          r.accepted = t->send(sid, iora::core::BufferView{(const uint8_t *)r.payload.data(), r.payload.size()});
          r.retStep = mc_step();
          recs[si].push_back(r);
          mc_obs("%s send(%zu bytes)=%d", who.c_str(), r.payload.size(), int(r.accepted));
        }
        mc_label((who + ":done").c_str());
      });
  mc_label("main:join");
  for (auto &x : th)
    x.join();
  // settle
  size_t lastA = size_t(-1), lastB = size_t(-1);
  for (int round = 0; round < 60; ++round)
  {
    mc_quiesce(10ull * 1000000ull);
    size_t a = peer.conns.empty() ? 0 : peer.conns[0].appIn.size();
    size_t b = inbound.size();
    if (a == lastA && b == lastB && round > 2)
      break;
    lastA = a;
    lastB = b;
  }
  mc_label("main:check");
  std::string peerGot = peer.conns.empty() ? "" : peer.conns[0].appIn;
  std::string wire = peer.conns.empty() ? "" : peer.conns[0].wire(); // what the ENGINE put on the wire
  size_t peerSentParts = peer.conns.empty() ? 0 : peer.conns[0].sentParts;

  std::vector<const SendRec *> acc;
  for (auto &v : recs)
    for (auto &r : v)
      if (r.accepted)
        acc.push_back(&r);
  std::vector<bool> used(acc.size(), false);
  bool found = false;
  bool needFull = !closed;
  std::function<void(size_t)> rec = [&](size_t pos)
  {
    if (found)
      return;
    if (pos == peerGot.size())
    {
      bool all = true;
      for (bool u : used)
        all = all && u;
      if (all || !needFull)
        found = true;
      return;
    }
    for (size_t i = 0; i < acc.size(); ++i)
    {
      if (used[i])
        continue;
      bool ok = true;
      for (size_t j = 0; j < acc.size(); ++j)
        if (!used[j] && j != i && acc[j]->retStep < acc[i]->callStep)
          ok = false;
      if (!ok)
        continue;
      const std::string &p = acc[i]->payload;
      size_t rem = peerGot.size() - pos;
      size_t n = p.size() < rem ? p.size() : rem;
      if (peerGot.compare(pos, n, p, 0, n) != 0)
        continue;
      if (n < p.size() && needFull)
        continue;
      used[i] = true;
      if (n < p.size())
      {
        if (pos + n == peerGot.size())
          found = true;
      }
      else
        rec(pos + n);
      used[i] = false;
      if (found)
        return;
    }
  };
  rec(0);
  std::ostringstream all;
  size_t total = 0;
  for (auto *r : acc)
  {
    all << r->payload << "|";
    total += r->payload.size();
  }
  mc_obs("peerGot=%s closed=%d inbound=%s peerParts=%zu", peerGot.c_str(), int(closed), inbound.c_str(), peerSentParts);
  if (!found)
  {
    const char *sig = closed ? "tls:not-a-prefix-after-close" : (peerGot.size() < total ? "tls:bytes-missing-session-open" : peerGot.size() > total ? "tls:bytes-duplicated" : "tls:reordered-or-interleaved");
    mc_violation(closed ? "outbound-prefix" : (peerGot.size() < total ? "no-silent-stall" : "outbound-stream"), sig,
                 "accepted payloads {" + all.str() + "} peer decrypted '" + peerGot + "' session " + (closed ? "closed" : "open"));
  }
  // inbound: what the peer managed to write completely must be delivered while the session is open
  std::string peerWrote;
  for (size_t i = 0; i < peerSentParts; ++i)
    peerWrote += pc.moreSends[i];
  if (!closed)
  {
    if (peerSentParts != pc.moreSends.size())
      mc_violation("inbound-stream", "tls:peer-could-not-write", "the peer could not complete its writes although the session is open (engine stopped reading): wrote " + std::to_string(peerSentParts) + " of " + std::to_string(pc.moreSends.size()));
    else if (inbound != peerWrote)
      mc_violation("inbound-stream", inbound.size() < peerWrote.size() ? "tls:bytes-missing" : "tls:mismatch", "peer wrote '" + peerWrote + "' data callback got '" + inbound + "'");
  }
  else if (peerAll.compare(0, inbound.size(), inbound) != 0)
    mc_violation("inbound-stream", "tls:not-a-prefix-after-close", "peer wrote '" + peerAll + "' data callback got '" + inbound + "'");
  if (!closed && !connected)
    mc_violation("harness-internal", "never-connected", "session neither announced nor closed");
  for (auto *r : acc)
    if (wire.find(r->payload) != std::string::npos)
      mc_violation("no-cleartext", "tls:payload-in-clear", "payload '" + r->payload + "' appears in clear text on the wire");
  peer.stop();
  mc_quiesce();
  t->stop();
  t.reset();
  if (simk_open_fds() != 0)
    mc_violation("harness-internal", "fd-leak", std::to_string(simk_open_fds()) + " simulated descriptors left open after stop");
}

const Scn SCN[] = {
  // name                 server edge engBuf peerBuf chunk senders        peerWrites early qP qE tP tE
  {"tls_cli_et_two_sends", false, true, 64, 48, 16, {{3, 2}}, {}, false, 1, 1, 1, 2},
  {"tls_cli_send_before_handshake", false, true, 64, 48, 16, {{3, 2}}, {}, true, 1, 1, 1, 2},
  {"tls_cli_et_big_payload", false, true, 64, 32, 16, {{150}}, {}, false, 1, 1, 1, 2},
  {"tls_cli_et_inbound", false, true, 40, 64, 8, {}, {30, 5}, false, 1, 1, 1, 2},
  {"tls_cli_lt_inbound", false, false, 40, 64, 8, {}, {30, 5}, false, 1, 1, 1, 2},
  {"tls_srv_et_two_threads", true, true, 64, 48, 16, {{3}, {2}}, {}, false, 1, 1, 1, 2},
  {"tls_srv_et_bidir", true, true, 48, 48, 8, {{20}}, {20}, false, 1, 1, 1, 2},
  {"tls_srv_lt_bidir", true, false, 48, 48, 8, {{20}}, {20}, false, 1, 1, 1, 2},
  // large buffers: the peer's Finished and its first application record are both in the socket buffer before the
  // engine runs, so the engine gets ONE readiness edge for handshake completion and data together
  {"tls_srv_et_coalesced_inbound", true, true, 4096, 4096, 16, {{4}}, {20, 3}, false, 1, 1, 1, 2},
  {"tls_cli_et_coalesced_inbound", false, true, 4096, 4096, 16, {{4}}, {20, 3}, false, 1, 1, 1, 2},
};
} // namespace

int main(int argc, char **argv)
{
  iora::core::Logger::setLevel(iora::core::Logger::Level::Fatal);
  for (int i = 1; i + 1 < argc; ++i)
    if (std::string(argv[i]) == "--certs")
      CERTS = argv[i + 1];
  if (CERTS.empty())
    CERTS = "/verif/build/certs";
  tp::deterministicRand();
  SSL_CTX_free(SSL_CTX_new(TLS_client_method()));
  SSL_CTX_free(SSL_CTX_new(TLS_server_method()));
  std::vector<McScenario> v;
  for (const Scn &s : SCN)
  {
    McScenario m;
    m.name = s.name;
    m.body = [s]() { run(s); };
    m.quick.P = s.qP;
    m.quick.E = s.qE;
    m.quick.S = 0;
    m.quick.T = 0;
    m.quick.total = 1;
    m.thorough.P = s.tP;
    m.thorough.E = s.tE;
    m.thorough.S = 1;
    m.thorough.T = 0;
    m.thorough.total = 2;
    m.horizon_s = 600;
    m.exec_timeout_s = 60;
    v.push_back(m);
  }
  return mc_main(argc, argv, "C01_tls_stream", v);
}

// C18 parts (i) frame round-trip and (iii) hostile headers / unbounded fragments / UTF-8 classes /
// sequential close gate.  Every evaluator returns the number of violations it recorded.
#pragma once
#include "C18_alloc.hpp"
#include "C18_seg.hpp"

namespace hostile
{
using namespace seg;

static const size_t kSmallMax = 256;  // configured maximum used for the hostile families

inline std::string kv(const char *k, uint64_t v) { return std::string(" ") + k + "=" + std::to_string(v); }

// ------------------------------------------------------------------ (i) frame round-trip
inline Bytes framePayload(size_t len, int pat)
{
  Bytes b(len, 0);
  for (size_t i = 0; i < len; ++i)
    b[i] = char(pat == 0 ? (i * 131 + 7) & 0xff : (255 - i) & 0xff);
  return b;
}
inline int evalFrame(Ctx &cx, int op, bool fin, bool masked, int keyIdx, size_t len, int pat)
{
  vr::Report &r = *cx.r;
  r.evaluations++;
  char kb[128];
  snprintf(kb, sizeof kb, "frame op=%d fin=%d m=%d key=%d len=%zu pat=%d", op, fin ? 1 : 0, masked ? 1 : 0, keyIdx, len, pat);
  std::string kase = kb;
  bool ctl = op == 8 || op == 9 || op == 10;
  bool refusable = ctl && (len > 125 || !fin); // RFC 6455 5.5 forbids such control frames
  const char *cls = ctl ? "ctl" : (op <= 2 ? "data" : "reserved");
  std::string sig = std::string("op=") + cls + ":lenenc=" + (len <= 125 ? "7" : len <= 0xffff ? "16" : "64") + ":m" + (masked ? "1" : "0");
  int v = 0;
  try
  {
    WebSocketFrame f;
    f.fin = fin;
    f.opcode = static_cast<WsOpcode>(op);
    memcpy(f.maskKey, KEYS[keyIdx], 4);
    Bytes pl = framePayload(len, pat);
    f.payload.assign(pl.begin(), pl.end());
    std::vector<uint8_t> wire;
    try
    {
      wire = f.serialize(masked);
    }
    catch (const std::exception &)
    {
      // serialize() may refuse by contract what RFC 6455 forbids (fragmented / >125-byte control frames)
      // and opcodes it does not know; anything else it must encode.
      if (refusable || (op >= 3 && op <= 7) || op >= 11)
      {
        r.counters["frame_serialize_refused"]++;
        return v;
      }
      throw;
    }
    // what RFC 6455 says these fields look like on the wire (independent encoder)
    Frame ref;
    ref.fin = fin;
    ref.op = uint8_t(op);
    ref.masked = masked;
    memcpy(ref.key, KEYS[keyIdx], 4);
    ref.payload = pl;
    Bytes want = encode(ref);
    if (Bytes(wire.begin(), wire.end()) != want)
    {
      r.violation("serialize-matches-rfc6455", sig, kase,
                  "serialize() produced " + std::to_string(wire.size()) + " bytes starting " + vr::hex(Bytes(wire.begin(), wire.begin() + std::min<size_t>(wire.size(), 16))) +
                    ", RFC encoding is " + std::to_string(want.size()) + " bytes starting " + vr::hex(want.substr(0, 16)));
      ++v;
    }
    auto same = [&](const WebSocketFrame &g)
    {
      return g.fin == f.fin && g.opcode == f.opcode && g.masked == masked && (!masked || memcmp(g.maskKey, f.maskKey, 4) == 0) && g.payload == f.payload;
    };
    for (int trailing = 0; trailing < 2; ++trailing)
    {
      std::vector<uint8_t> buf = wire;
      if (trailing)
      {
        buf.push_back(0x81);
        buf.push_back(0x00);
        buf.push_back(0xff);
      }
      std::size_t consumed = 12345;
      auto g = WebSocketFrame::parse(iora::core::BufferView(buf.data(), buf.size()), consumed);
      if (refusable)
      {
        r.counters["frame_refused_by_contract"] += g ? 0 : 1;
        if (g && !(same(*g) && consumed == wire.size()))
        {
          r.violation("roundtrip", sig + ":invalid-control-altered", kase, "parse() accepted an RFC-invalid control frame but returned a different frame");
          ++v;
        }
        continue;
      }
      if (!g)
      {
        r.violation("roundtrip", sig + ":not-parsed", kase, std::string("parse(serialize(f)) returned nullopt") + (trailing ? " (with 3 trailing bytes)" : ""));
        ++v;
      }
      else if (!same(*g))
      {
        r.violation("roundtrip", sig + ":differs", kase,
                    "parsed frame differs: fin=" + std::to_string(g->fin) + " op=" + std::to_string(int(g->opcode)) + " masked=" + std::to_string(g->masked) +
                      " len=" + std::to_string(g->payload.size()));
        ++v;
      }
      else if (consumed != wire.size())
      {
        r.violation("roundtrip", sig + ":consumed", kase,
                    "consumed=" + std::to_string(consumed) + " but the frame is " + std::to_string(wire.size()) + " bytes" + (trailing ? " (3 trailing bytes present)" : ""));
        ++v;
      }
    }
    if (!refusable)
    {
      r.distinct_nontrivial++;
      // every proper prefix is "incomplete": nullopt, nothing consumed
      size_t n = wire.size();
      bool all = cx.thorough || n <= 300;
      for (size_t k = 0; k < n; ++k)
      {
        if (!all && k > 40 && k + 40 < n)
          continue;
        std::size_t consumed = 12345;
        auto g = WebSocketFrame::parse(iora::core::BufferView(wire.data(), k), consumed);
        r.counters["frame_truncations"]++;
        if (g || consumed != 0)
        {
          r.violation("truncation-incomplete", sig, kase + " trunc=" + std::to_string(k),
                      "a " + std::to_string(k) + "-byte prefix of a " + std::to_string(n) + "-byte frame was " + (g ? "accepted as a frame" : "rejected") +
                        " with consumed=" + std::to_string(consumed));
          ++v;
          break;
        }
      }
    }
  }
  catch (const std::exception &e)
  {
    r.violation("no-exception", std::string("frame:") + sig, kase, std::string("exception: ") + e.what());
    ++v;
  }
  return v;
}

// ------------------------------------------------------------------ (iii) hostile headers
struct Hdr
{
  uint8_t b0 = 0x81;
  bool masked = false;
  int lc = 0;
  uint64_t ext = 0;
};
inline std::string extName(uint64_t e)
{
  if (e == ~0ull)
    return "2^64-1";
  if (e == (1ull << 63))
    return "2^63";
  if (e == (1ull << 63) - 1)
    return "2^63-1";
  if (e == (1ull << 32))
    return "2^32";
  if (e == (1ull << 31))
    return "2^31";
  return std::to_string(e);
}
inline std::string headerSig(const Hdr &h, size_t max, bool withExt)
{
  int op = h.b0 & 15, rsv = (h.b0 >> 4) & 7;
  bool fin = h.b0 & 0x80;
  bool ctl = op == 8 || op == 9 || op == 10;
  uint64_t declared = h.lc < 126 ? uint64_t(h.lc) : h.ext;
  std::string s = ctl ? "ctl" : "other";
  if (rsv)
    s += ":rsv";
  else if (ctl)
    s += h.lc >= 126 ? ":lencode" + std::to_string(h.lc) : !fin ? ":fin0" : ":wellformed";
  else if (declared > max)
    s += ":declared>max:lc" + std::to_string(h.lc) + (declared >= (1ull << 63) ? ":msb" : "");
  else
    s += ":wellformed";
  if (withExt && h.lc >= 126)
    s += ":ext=" + extName(h.ext);
  return s;
}
// mode 0: header in one read; 1: header byte-at-a-time; 2: header and first filler chunk in one read.
// deep: keep feeding until the retained bytes exceed the bound (or the bound is clearly respected).
inline int evalHostile(Ctx &cx, char epc, const Hdr &h, int mode, uint8_t filler, bool deep)
{
  vr::Report &r = *cx.r;
  Endpoint &ep = cx.ep(epc);
  r.evaluations++;
  size_t max = ep.setMax(kSmallMax);
  size_t bound = 2 * max + 14; // one frame (<= max + 14-byte header) in the receive buffer + <= max reassembled
  size_t chunk = deep ? std::max<size_t>(128, max / 4) : 128;
  size_t target = deep ? bound + 2 * chunk : 3 * kSmallMax + 64;
  char kb[160];
  snprintf(kb, sizeof kb, "%s ep=%c b0=%u m=%d lc=%d ext=%llu mode=%d fill=%u", deep ? "deep" : "hostile", epc, h.b0, h.masked ? 1 : 0, h.lc,
           (unsigned long long)h.ext, mode, filler);
  std::string kase = kb, E = ep.name();
  Bytes hdr = rawHeader(h.b0, h.masked, h.lc, h.ext, KEYS[0]);
  static Bytes fill;
  if (fill.size() != chunk || (fill.size() && uint8_t(fill[0]) != filler))
    fill.assign(chunk, char(filler));
  int op = h.b0 & 15;
  if (((h.b0 >> 4) & 7) == 0 && (op <= 2 || (op >= 8 && op <= 10)) && h.lc >= 126)
    r.distinct_nontrivial++;
  int v = 0;
  size_t fed = 0, worst = 0;
  ep.openFast();
  allochook::maxReq = 0;
  allochook::track = true;
  bool stop = false;
  auto after = [&]()
  {
    size_t ret = ep.retained();
    if (ret > worst)
      worst = ret;
    if (ret > bound)
    {
      allochook::track = false;
      // name the frame the endpoint is actually waiting for (first bytes of its own receive buffer)
      Bytes ph = ep.pendingHead();
      std::string what = "fragments>max";
      if (ph.size() >= 2)
      {
        Hdr w;
        w.b0 = uint8_t(ph[0]);
        w.masked = uint8_t(ph[1]) & 0x80;
        w.lc = uint8_t(ph[1]) & 0x7f;
        size_t extLen = w.lc == 126 ? 2 : w.lc == 127 ? 8 : 0;
        for (size_t i = 0; i < extLen && 2 + i < ph.size(); ++i)
          w.ext = (w.ext << 8) | uint8_t(ph[2 + i]);
        what = headerSig(w, max, false);
      }
      r.violation("buffer-bounded", E + ":" + what, kase,
                  "after " + std::to_string(fed) + " bytes fed the endpoint retains " + std::to_string(ret) + " bytes for the session (maximum in force " +
                    std::to_string(max) + ", bound 2*max+14=" + std::to_string(bound) + "); fed header " + vr::hex(hdr) +
                    ", the endpoint's buffer starts " + vr::hex(ph) + ": a frame that can never become acceptable is awaited instead of being failed");
      ++v;
      stop = true;
    }
  };
  try
  {
    if (mode == 1)
      for (size_t i = 0; i < hdr.size() && !stop; ++i)
      {
        ep.feed((const uint8_t *)hdr.data() + i, 1);
        ++fed;
        after();
      }
    else if (mode == 2)
    {
      Bytes first = hdr + fill;
      ep.feed(first);
      fed += first.size();
      after();
    }
    else
    {
      ep.feed(hdr);
      fed += hdr.size();
      after();
    }
    while (!stop && fed < hdr.size() + target)
    {
      ep.feed(fill);
      fed += fill.size();
      after();
    }
  }
  catch (const std::exception &e)
  {
    allochook::track = false;
    r.violation("no-exception", E + ":" + headerSig(h, max, true), kase,
                std::string("exception escaped the receive path (") + std::to_string(fed) + " bytes accepted before the throwing read; header " + vr::hex(hdr) + "): " + e.what() +
                  " [in production this unwinds the transport I/O loop]");
    ++v;
  }
  catch (...)
  {
    allochook::track = false;
    r.violation("no-exception", E + ":" + headerSig(h, max, true), kase, "non-std exception escaped the receive path");
    ++v;
  }
  allochook::track = false;
  size_t maxReq = allochook::maxReq;
  size_t allocBound = 2 * (max + 14) + 4 * (fed + chunk) + 65536;
  if (maxReq > allocBound)
  {
    r.violation("alloc-bounded", E + ":" + headerSig(h, max, true), kase,
                "largest single allocation request " + std::to_string(maxReq) + " bytes exceeds " + std::to_string(allocBound) + " (maximum " + std::to_string(max) +
                  ", " + std::to_string(fed) + " bytes fed)");
    ++v;
  }
  if (maxReq > r.counters["max_alloc_request"])
    r.counters["max_alloc_request"] = maxReq;
  if (worst > r.counters[std::string("max_retained_") + ep.name()])
    r.counters[std::string("max_retained_") + ep.name()] = worst;
  if (cap().badText)
  {
    r.violation("utf8-text-valid", E + ":" + cap().badText, kase, "text callback received invalid UTF-8 (" + std::string(cap().badText) + "): " + vr::hex(cap().badTextBytes.substr(0, 16)));
    ++v;
  }
  ep.closeCase();
  return v;
}

// ------------------------------------------------------------------ endless fragments
inline int evalFragFlood(Ctx &cx, char epc, int divisor, char type)
{
  vr::Report &r = *cx.r;
  Endpoint &ep = cx.ep(epc);
  r.evaluations++;
  r.distinct_nontrivial++;
  size_t max = ep.setMax(kSmallMax);
  size_t bound = 2 * max + 14;
  size_t size = max / size_t(divisor);
  std::string kase = std::string("fragflood ep=") + epc + " div=" + std::to_string(divisor) + " type=" + type;
  std::string E = ep.name();
  int v = 0;
  size_t fedPayload = 0, k = 0;
  ep.open();
  try
  {
    Bytes payload = pat(size);
    while (fedPayload <= 2 * bound)
    {
      Frame f = mk(k == 0 ? type : 'c', false, payload);
      f.masked = ep.inboundMasked();
      memcpy(f.key, KEYS[k % 5], 4);
      ep.feed(encode(f));
      fedPayload += size;
      ++k;
      size_t ret = ep.retained();
      if (ret > bound)
      {
        r.violation("buffer-bounded", E + ":fragments>max", kase,
                    "after " + std::to_string(k) + " never-final fragments of " + std::to_string(size) + " bytes the endpoint retains " + std::to_string(ret) +
                      " bytes (maximum in force " + std::to_string(max) + ", bound " + std::to_string(bound) + "); wire so far: " + cap().log().substr(0, 200));
        ++v;
        break;
      }
    }
  }
  catch (const std::exception &e)
  {
    r.violation("no-exception", E + ":fragments>max", kase, std::string("exception: ") + e.what());
    ++v;
  }
  ep.closeCase();
  return v;
}

// ------------------------------------------------------------------ UTF-8 classes
inline int evalUtf8(Ctx &cx, char epc, const Bytes &text, size_t split)
{
  vr::Report &r = *cx.r;
  Endpoint &ep = cx.ep(epc);
  r.evaluations++;
  std::string kase = std::string("utf8 ep=") + epc + " bytes=" + vr::hex(text) + " split=" + std::to_string(split);
  std::string E = ep.name();
  const char *err = utf8Error(text);
  bool multi = false;
  for (unsigned char c : text)
    if (c >= 0x80)
      multi = true;
  if (multi)
    r.distinct_nontrivial++;
  r.counters[err ? "utf8_invalid_cases" : "utf8_valid_cases"]++;
  int v = 0;
  ep.openFast();
  try
  {
    std::vector<Frame> fr;
    if (split == 0)
      fr.push_back(mk('t', true, text));
    else
    {
      fr.push_back(mk('t', false, text.substr(0, split)));
      fr.push_back(mk('c', true, text.substr(split)));
    }
    std::vector<Layout> lay;
    ep.feed(buildStream(fr, ep.inboundMasked(), lay));
    if (err && cap().texts)
    {
      r.violation("utf8-text-valid", E + ":" + err, kase, std::string("invalid UTF-8 (") + err + ") was delivered to the text callback; log=" + cap().log());
      ++v;
    }
    else if (!err && (cap().texts != 1 || cap().evs.empty()))
    {
      char lead[8] = "ascii";
      for (unsigned char c : text)
        if (c >= 0x80)
        {
          snprintf(lead, sizeof lead, "%02x", c);
          break;
        }
      r.violation("delivers-expected", E + ":utf8-valid-rejected:lead=" + lead, kase, "valid UTF-8 text was not delivered exactly once; log=" + cap().log());
      ++v;
    }
  }
  catch (const std::exception &e)
  {
    r.violation("no-exception", E + ":utf8", kase, std::string("exception: ") + e.what());
    ++v;
  }
  ep.closeCase();
  return v;
}

// ------------------------------------------------------------------ sequential close gate
// ops: app calls  T sendText  B sendBinary  P sendPing  C sendClose
//      peer input c close(1000,"bye")  t text  p ping  x reserved opcode 0x3  u text with invalid UTF-8
inline int evalGate(Ctx &cx, char epc, const std::string &ops)
{
  vr::Report &r = *cx.r;
  Endpoint &ep = cx.ep(epc);
  r.evaluations++;
  std::string kase = std::string("gate ep=") + epc + " ops=" + ops;
  std::string E = ep.name();
  int v = 0;
  ep.setMax(kSmallMax);
  ep.open();
  try
  {
    int closeOp = -1, closeFrame = -1;
    size_t seen = 0;
    bool hasSend = false;
    for (size_t i = 0; i < ops.size() && !v; ++i)
    {
      char o = ops[i];
      if (o == 'T' || o == 'B')
        hasSend = true;
      if (o >= 'A' && o <= 'Z')
        ep.app(o);
      else
      {
        Frame f;
        switch (o)
        {
        case 'c': f = mk('X', true, Bytes("\x03\xe8" "bye", 5)); break;
        case 't': f = mk('t', true, "yo"); break;
        case 'p': f = mk('P', true, "z"); break;
        case 'x': f = mk('t', true, ""); f.op = 3; break;
        case 'u': f = mk('t', true, Bytes("\xc0\x80", 2)); break;
        }
        f.masked = ep.inboundMasked();
        memcpy(f.key, KEYS[i % 5], 4);
        ep.feed(encode(f));
      }
      std::vector<Frame> fr;
      std::vector<size_t> offs;
      size_t tail;
      cap().frames(fr, offs, tail);
      for (size_t k = seen; k < fr.size(); ++k)
      {
        if (fr[k].op == 8 && closeFrame < 0)
        {
          closeFrame = int(k);
          closeOp = int(i);
        }
        else if (closeFrame >= 0 && fr[k].op <= 2)
        {
          r.violation("no-data-after-close", E + ":" + ops[closeOp] + "-then-" + o, kase,
                      std::string("the endpoint's close frame went out during op #") + std::to_string(closeOp) + " ('" + ops[closeOp] + "') and op #" + std::to_string(i) +
                        " ('" + o + "') still put a data frame (opcode " + std::to_string(fr[k].op) + ") on the wire; wire=" + cap().log());
          ++v;
          break;
        }
      }
      seen = fr.size();
    }
    if (closeFrame >= 0 && hasSend)
      r.distinct_nontrivial++;
  }
  catch (const std::exception &e)
  {
    r.violation("no-exception", E + ":gate", kase, std::string("exception: ") + e.what());
    ++v;
  }
  if (cap().badText)
  {
    r.violation("utf8-text-valid", E + ":" + cap().badText, kase, "text callback received invalid UTF-8");
    ++v;
  }
  ep.closeCase();
  return v;
}

} // namespace hostile

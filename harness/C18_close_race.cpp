// C18 (concurrent part): "After an endpoint has sent a close frame it sends no further data frame" under
// concurrent application sends racing the close handshake.
//
// Real code: WebSocketServer::sendText/sendBinary/sendPing/sendClose, onUpgradedData -> handleFrame (CLOSE echo),
// and the same on WebSocketClient (sendText/.../sendClose, handleData).  The endpoints are set up exactly as in the
// sequential parts (harness/C18_ws.hpp: real upgrade hook / real 101 path, recording engine behind the real
// Transport), but here 2-3 threads act on ONE session under the deterministic scheduler: application threads that
// send, one thread that plays the I/O thread and feeds inbound frames (a peer CLOSE, a peer text).  Every
// interleaving at the endpoints' synchronisation operations within the preemption bound is explored.
//
// Oracle (on the recorded wire, decoded by the independent codec of C18_ws.hpp):
//   no-data-after-close   no TEXT/BINARY/CONTINUATION frame follows the first CLOSE frame the endpoint sent
//   wire-decodable        the wire is a sequence of complete frames (concurrent sends never interleave bytes)
#include "mc.h"
#include "C18_ws.hpp"

#include <thread>

namespace
{
struct Scn
{
  const char *name;
  bool server;
  std::vector<std::string> threads; // per thread: ops  T B P C (application)  c (inbound CLOSE)  t (inbound text)  p (inbound ping)
  int qP, tP;
};

void run(const Scn &sc)
{
  mc_label("main:setup");
  ws::ServerEp sep;
  ws::ClientEp cep;
  ws::Endpoint *ep = nullptr;
  if (sc.server)
  {
    sep.init();
    ep = &sep;
  }
  else
  {
    cep.init();
    ep = &cep;
  }
  ep->open();
  auto inbound = [&](uint8_t op, const std::string &payload)
  {
    ws::Frame f;
    f.op = op;
    f.payload = payload;
    f.masked = ep->inboundMasked();
    f.key[0] = 0x11;
    f.key[1] = 0x22;
    f.key[2] = 0x33;
    f.key[3] = 0x44;
    return ws::encode(f);
  };
  std::vector<std::thread> th;
  for (size_t ti = 0; ti < sc.threads.size(); ++ti)
    th.emplace_back(
      [&, ti]()
      {
        std::string who = "W" + std::to_string(ti + 1);
        for (char op : sc.threads[ti])
        {
          mc_label((who + ":" + op).c_str());
          switch (op)
          {
          case 'c':
            ep->feed(inbound(8, std::string("\x03\xe8", 2)));
            break;
          case 't':
            ep->feed(inbound(1, "yo"));
            break;
          case 'p':
            ep->feed(inbound(9, "k"));
            break;
          default:
            ep->app(op);
          }
        }
        mc_label((who + ":done").c_str());
      });
  mc_label("main:join");
  for (auto &t : th)
    t.join();
  mc_label("main:check");
  std::vector<ws::Frame> fr;
  std::vector<size_t> offs;
  size_t tail = 0;
  ws::cap().frames(fr, offs, tail);
  std::string seq;
  for (auto &f : fr)
    seq.push_back(f.op == 8 ? 'C' : f.op == 1 ? 'T' : f.op == 2 ? 'B' : f.op == 0 ? 'N' : f.op == 9 ? 'P' : f.op == 10 ? 'O' : '?');
  mc_obs("%s wire=%s tail=%zu", ep->name(), seq.c_str(), tail);
  std::string who = ep->name();
  if (tail)
    mc_violation("wire-decodable", who + ":undecodable-tail", "the recorded wire ends in " + std::to_string(tail) + " bytes that are no complete frame (frames so far: " + seq + ")");
  size_t firstClose = seq.find('C');
  if (firstClose != std::string::npos)
  {
    for (size_t i = firstClose + 1; i < seq.size(); ++i)
    {
      if (seq[i] == 'T' || seq[i] == 'B' || seq[i] == 'N')
      {
        mc_violation("no-data-after-close", who + ":" + std::string(1, seq[i]) + "-after-C", "frames sent: " + seq + " (a data frame follows the endpoint's close frame)");
        break;
      }
    }
    // a second CLOSE frame (observed when both sides start the close handshake at once) is a control frame, not a
    // data frame: the statement does not forbid it and it is not judged here
  }
  ep->closeCase();
  if (sc.server)
    sep.destroy();
  else
    cep.destroy();
}

const Scn SCN[] = {
  {"srv_text_vs_sendClose", true, {"T", "C"}, 2, 3},
  {"srv_binary_ping_vs_sendClose", true, {"BP", "C"}, 2, 2},
  {"srv_text_vs_peer_close", true, {"T", "c"}, 2, 3},
  {"srv_two_senders_vs_peer_close", true, {"T", "B", "c"}, 1, 2},
  {"srv_sendClose_vs_peer_close", true, {"C", "c", "T"}, 1, 2},
  {"srv_text_after_inbound_text_vs_close", true, {"tc", "TT"}, 1, 2},
  {"cli_text_vs_sendClose", false, {"T", "C"}, 2, 3},
  {"cli_binary_ping_vs_sendClose", false, {"BP", "C"}, 2, 2},
  {"cli_text_vs_peer_close", false, {"T", "c"}, 2, 3},
  {"cli_two_senders_vs_peer_close", false, {"T", "B", "c"}, 1, 2},
  {"cli_sendClose_vs_peer_close", false, {"C", "c", "T"}, 1, 2},
};
} // namespace

int main(int argc, char **argv)
{
  iora::core::Logger::setLevel(iora::core::Logger::Level::Fatal);
  std::vector<McScenario> v;
  for (const Scn &s : SCN)
  {
    McScenario m;
    m.name = s.name;
    m.body = [s]() { run(s); };
    m.quick.P = s.qP;
    m.quick.T = 0;
    m.quick.E = 0;
    m.quick.S = 1;
    m.thorough.P = s.tP;
    m.thorough.T = 0;
    m.thorough.E = 0;
    m.thorough.S = 2;
    m.horizon_s = 600;
    v.push_back(m);
  }
  return mc_main(argc, argv, "C18_close_race", v);
}

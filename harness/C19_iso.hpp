// C19 — process isolation shared by the codec and transport parts.
//
// A run_sharded worker never runs library code itself: it forks an evaluator child per batch of jobs; the child
// publishes every case in shared memory before evaluating it and appends counters / violations there.  When the
// child dies (sanitizer abort, signal) or makes no progress for `stall` seconds, the worker records a violation
// naming exactly that case (signature = sanitizer error kind @ innermost iora frame) and forks a new child that
// resumes after it.  The including file defines `enum { ..., C_N }` and `kCtrName[C_N]` (index 0 = evaluations).
#pragma once
#include "bexh.hpp"
#include "C19_dnsgen.hpp"
#include <fcntl.h>
#include <map>
#include <poll.h>

using c19::Bytes;

// Reports are printed unsymbolised (in-process symbolisation costs ~0.25 s per dying evaluator); the worker resolves
// the few distinct frame addresses with addr2line and caches them.
extern "C" const char *__ubsan_default_options() { return "print_stacktrace=1:symbolize=0"; }
extern "C" const char *__asan_default_options() { return "detect_leaks=0:allocator_may_return_null=1:symbolize=0:quarantine_size_mb=16:malloc_context_size=2"; }

enum
{
  ISO_MAX_CTR = 48
};

struct IsoShm
{
  volatile uint64_t beats;
  volatile uint32_t job, mutant, inCase, done;
  volatile uint32_t caseLen;
  char caseBuf[1 << 15];
  char desc[160];
  uint64_t counters[ISO_MAX_CTR];
  uint32_t nsig;
  struct SigEnt
  {
    char key[224];
    uint64_t n;
  } sigs[256];
  uint32_t violUsed;
  char viol[1 << 21];
};
static IsoShm *g_shm = nullptr;

static void gPublish(uint32_t job, uint32_t mutant, const Bytes &kase, const char *desc)
{
  size_t n = kase.size() < sizeof(g_shm->caseBuf) ? kase.size() : sizeof(g_shm->caseBuf);
  memcpy(g_shm->caseBuf, kase.data(), n);
  g_shm->caseLen = uint32_t(n);
  snprintf(g_shm->desc, sizeof g_shm->desc, "%s", desc);
  g_shm->job = job;
  g_shm->mutant = mutant;
  g_shm->inCase = 1;
  g_shm->beats = g_shm->beats + 1;
}
static void gViolation(const std::string &clause, const std::string &sig, const Bytes &kase, const std::string &detail)
{
  std::string key = (clause + "/" + sig).substr(0, sizeof(g_shm->sigs[0].key) - 1);
  uint32_t i = 0;
  for (; i < g_shm->nsig; ++i)
    if (key == g_shm->sigs[i].key)
      break;
  if (i == g_shm->nsig)
  {
    if (g_shm->nsig >= 256)
      i = 255; // overflow bucket (never expected)
    else
    {
      snprintf(g_shm->sigs[i].key, sizeof g_shm->sigs[i].key, "%s", key.c_str());
      g_shm->sigs[i].n = 0;
      g_shm->nsig++;
    }
  }
  uint64_t n = ++g_shm->sigs[i].n;
  if (n > 3)
    return;
  std::string d = detail.substr(0, 1000);
  size_t need = 16 + clause.size() + sig.size() + kase.size() + d.size();
  if (g_shm->violUsed + need > sizeof(g_shm->viol))
    return;
  char *p = g_shm->viol + g_shm->violUsed;
  uint32_t l[4] = {uint32_t(clause.size()), uint32_t(sig.size()), uint32_t(kase.size()), uint32_t(d.size())};
  memcpy(p, l, 16);
  p += 16;
  memcpy(p, clause.data(), l[0]);
  p += l[0];
  memcpy(p, sig.data(), l[1]);
  p += l[1];
  memcpy(p, kase.data(), l[2]);
  p += l[2];
  memcpy(p, d.data(), l[3]);
  g_shm->violUsed += uint32_t(need);
}
#define CTR(x) (g_shm->counters[x])


// ------------------------------------------------------------------------------------------------------------
// Worker-side isolation driver
// ------------------------------------------------------------------------------------------------------------
static std::string crashSig(const std::string &err, int status, bool hung, const Bytes &kase)
{
  if (hung)
  {
    Bytes m = kase.size() > 2 ? kase.substr(2) : Bytes();
    c19::RefDecoded ref = c19::refDecode(m);
    if (ref.badPointer)
      return "hang:pointer-" + ref.badKind + ":" + ref.badSite;
    return "hang:" + (ref.ok ? std::string("decodable") : ref.fail);
  }
  std::string kind, func;
  size_t p;
  if ((p = err.find("runtime error: ")) != std::string::npos)
  {
    size_t e = err.find('\n', p);
    kind = err.substr(p + 15, e == std::string::npos ? std::string::npos : e - p - 15);
    size_t t = kind.find(" of type");
    if (t != std::string::npos)
      kind = kind.substr(0, t);
    std::string k2;
    for (char c : kind)
      if (!isdigit((unsigned char)c))
        k2.push_back(c);
    kind = k2.substr(0, 60);
  }
  else if ((p = err.find("AddressSanitizer: ")) != std::string::npos)
  {
    size_t e = err.find_first_of(" \n", p + 18);
    kind = "asan:" + err.substr(p + 18, e == std::string::npos ? std::string::npos : e - p - 18);
  }
  else if (WIFSIGNALED(status))
    kind = "signal-" + std::to_string(WTERMSIG(status));
  else
    kind = "exit-" + std::to_string(WEXITSTATUS(status));
  // innermost iora frame: resolve the (unsymbolised) frames of this executable with addr2line, cached per address
  {
    static std::map<std::string, std::string> cache;
    static std::string exe;
    if (exe.empty())
    {
      char b[4096];
      ssize_t n = readlink("/proc/self/exe", b, sizeof b - 1);
      exe = n > 0 ? std::string(b, size_t(n)) : "?";
    }
    size_t q = 0;
    int frames = 0;
    while (func.empty() && frames < 8 && (q = err.find("(" + exe + "+0x", q)) != std::string::npos)
    {
      q += exe.size() + 2;
      size_t e = err.find(')', q);
      if (e == std::string::npos)
        break;
      std::string off = err.substr(q, e - q);
      ++frames;
      auto it = cache.find(off);
      if (it == cache.end())
      {
        std::string res, cmd = "addr2line -f -i -C -e '" + exe + "' " + off + " 2>/dev/null";
        if (FILE *f = popen(cmd.c_str(), "r"))
        {
          char line[2048];
          while (fgets(line, sizeof line, f))
            if (res.empty() && strncmp(line, "iora::", 6) == 0)
              res = line;
          pclose(f);
        }
        it = cache.emplace(off, res).first;
      }
      func = it->second;
    }
    size_t e = func.find_first_of("(\n");
    if (e != std::string::npos)
      func = func.substr(0, e);
    const std::string ns = "iora::network::dns::";
    if (func.rfind(ns, 0) == 0)
      func = func.substr(ns.size());
  }
  return kind + (func.empty() ? "" : "@" + func);
}

struct Iso
{
  vr::Report *rep = nullptr;
  int hangs = 0, crashes = 0;
  bool aborted = false;
  double stall = 30;                 // seconds without a finished case inside the evaluator = non-termination
  std::function<void()> tick;        // called ~4x per second while waiting (keeps the outer supervisor's heartbeat alive)

  void merge()
  {
    for (int i = 0; i < C_N; ++i)
    {
      if (i == C_EVAL)
        rep->evaluations += g_shm->counters[i];
      else if (g_shm->counters[i])
        rep->counters[kCtrName[i]] += g_shm->counters[i];
      g_shm->counters[i] = 0;
    }
    for (uint32_t i = 0; i < g_shm->nsig; ++i)
    {
      rep->sig_counts[g_shm->sigs[i].key] += g_shm->sigs[i].n;
      rep->violation_total += g_shm->sigs[i].n;
    }
    g_shm->nsig = 0;
    size_t p = 0;
    while (p + 16 <= g_shm->violUsed)
    {
      uint32_t l[4];
      memcpy(l, g_shm->viol + p, 16);
      p += 16;
      std::string c(g_shm->viol + p, l[0]);
      p += l[0];
      std::string s(g_shm->viol + p, l[1]);
      p += l[1];
      std::string k(g_shm->viol + p, l[2]);
      p += l[2];
      std::string d(g_shm->viol + p, l[3]);
      p += l[3];
      size_t kept = 0;
      for (auto &v : rep->violations)
        if (v.clause == c && v.sig == s)
          ++kept;
      if (kept < rep->keep_per_sig)
        rep->violations.push_back(vr::Violation{c, s, k, d});
    }
    g_shm->violUsed = 0;
  }

  // evalBatch(startJob, startCase): evaluate jobs [startJob..), skipping case indices < startCase inside startJob;
  // it must call gPublish() before and clear g_shm->inCase after every case.
  void run(size_t njobs, const std::function<void(uint32_t, uint32_t)> &evalBatch)
  {
    if (njobs == 0 || aborted)
      return;
    uint32_t startJob = 0, startMutant = 0;
    for (;;)
    {
      int pfd[2];
      if (pipe(pfd) != 0)
      {
        rep->violation("harness-internal", "pipe-failed", "", "pipe()");
        return;
      }
      g_shm->done = 0;
      g_shm->inCase = 0;
      fflush(nullptr);
      pid_t pid = fork();
      if (pid == 0)
      {
        prctl(PR_SET_PDEATHSIG, SIGKILL);
        close(pfd[0]);
        dup2(pfd[1], 2);
        close(pfd[1]);
        evalBatch(startJob, startMutant);
        g_shm->done = 1;
        _exit(0);
      }
      close(pfd[1]);
      std::string err;
      uint64_t lastBeat = g_shm->beats;
      double lastAt = vr::now_s();
      bool hung = false;
      for (;;)
      {
        struct pollfd pf = {pfd[0], POLLIN, 0};
        int pr = poll(&pf, 1, 250);
        if (pr > 0)
        {
          char buf[4096];
          ssize_t n = read(pfd[0], buf, sizeof buf);
          if (n <= 0)
            break; // EOF: evaluator gone
          if (err.size() < 16384)
            err.append(buf, size_t(n));
          continue;
        }
        double t = vr::now_s();
        if (tick)
          tick();
        if (g_shm->beats != lastBeat)
        {
          lastBeat = g_shm->beats;
          lastAt = t;
        }
        else if (t - lastAt > stall)
        {
          kill(pid, SIGKILL);
          hung = true;
          break;
        }
      }
      close(pfd[0]);
      int st = 0;
      waitpid(pid, &st, 0);
      if (!hung && WIFEXITED(st) && WEXITSTATUS(st) == 0 && g_shm->done)
        break;
      // the evaluator died or stalled inside (job, mutant)
      Bytes kase(g_shm->caseBuf, g_shm->caseLen);
      std::string desc = g_shm->desc;
      std::string sig = crashSig(err, st, hung, kase);
      std::string firstLines = err.substr(0, 600);
      if (!g_shm->inCase && !hung)
        rep->violation("harness-internal", "evaluator-died-outside-case", kase, "status " + std::to_string(st) + " " + firstLines);
      else if (hung)
        rep->violation("terminates", sig, kase, desc + ": no progress for " + std::to_string(int(stall)) + " s inside DnsMessage::parse (evaluator killed)");
      else
        rep->violation("no-crash-no-ub", sig, kase, desc + ": evaluator died (" + (WIFSIGNALED(st) ? "signal " + std::to_string(WTERMSIG(st)) : "exit status " + std::to_string(WEXITSTATUS(st))) + ") :: " + firstLines);
      rep->evaluations += 1; // the case that never returned
      if (hung)
        ++hangs;
      else
        ++crashes;
      startJob = g_shm->job;
      startMutant = g_shm->mutant + 1;
      if (hangs >= 3)
      {
        aborted = true;
        rep->exhaustive = false;
        rep->notes.push_back("3 hangs in one worker: remaining cases of this shard not evaluated (each hang costs the stall timeout)");
        break;
      }
    }
    merge();
  }
};


// C15 client side: the seam.  Drives HttpClient's PRIVATE response framing functions
// (frameResponse -> parseHeaderBlock / determineFraming / parseContentLength / advanceChunked)
// through a line-by-line MIRROR of the receive loop of HttpClient::executeRequest()
// (include/iora/network/http_client.hpp, "Receive the response, framing it per RFC 9112" block).
//
// executeRequest itself cannot be called without a live Transport (acquireConnection / sendSync /
// receiveSync are entangled with the socket engine), so the loop is mirrored here; every statement
// below corresponds 1:1 to a statement of the original, with the transport result replaced by the
// next segment of the enumerated segmentation:
//     receiveSync -> Ok,len>0        == next segment (never longer than the 8192-byte read buffer)
//     receiveSync -> PeerClosed      == segments exhausted (EOF), exactly the close-delimited rule
// Timeout / BufferOverflow / ShuttingDown are transport conditions, not peer bytes, and are not
// modelled.  The faithfulness of this mirror is itself checked by the part C15_client_e2e, which
// sends a subset of the same streams through the REAL executeRequest over a loopback socket and
// compares with what this mirror produced.
//
// Compile with -fno-access-control (private members are called directly, no library copy).
#pragma once
#include "iora/network/http_client.hpp"
#include <string>
#include <typeinfo>
#include <vector>

namespace c15
{
using iora::network::HttpClient;
using iora::network::HttpFramingError;

enum class Outcome
{
  Complete,       // a response was framed and would be returned to the application
  FramingError,   // HttpFramingError (the documented framing / limit error)
  Truncated,      // peer closed before a complete response (runtime_error thrown by the loop itself)
  ForeignException // anything else escaping frameResponse
};

inline const char *outcomeName(Outcome o)
{
  switch (o)
  {
  case Outcome::Complete: return "complete";
  case Outcome::FramingError: return "framing-error";
  case Outcome::Truncated: return "truncated";
  default: return "foreign-exception";
  }
}

struct Driven
{
  Outcome outcome = Outcome::Truncated;
  std::string what;            // exception text / type
  HttpClient::Response resp;   // valid when Complete
  int mode = -1;               // BodyMode as int when headers were done
  bool forceEvict = false;
  size_t fedAtEnd = 0;         // bytes handed to the loop when it stopped
  size_t consumed = 0;         // offset (in the original stream) just past the framed message
  size_t peakBuffered = 0;     // max responseData.size() ever observed (including the throwing append)
  size_t peakAfterReturn = 0;  // max responseData.size() after an iteration that did NOT throw
  size_t peakDecoded = 0;      // max chunkState.decoded.size()
  size_t frameCalls = 0;
};

// `segments`: consecutive pieces of the peer's byte stream; EOF follows the last one.
// Mirrors http_client.hpp executeRequest() lines "const std::size_t effectiveCap = ..." through the
// end of the `while (!complete)` loop.
inline Driven drive(const HttpClient &client, const std::string &method, const std::string &stream,
                    const std::vector<size_t> &cuts /* ascending offsets, 0<cut<size */, size_t uniform = 0)
{
  Driven d;
  const std::size_t effectiveCap = std::max(client._config.maxResponseBytes, client._config.jsonConfig.maxPayloadSize);
  std::string responseData;
  const size_t kReadBuffer = 8192; // char buffer[8192];
  bool headersDone = false;
  std::size_t headerScanPos = 0;
  std::size_t bodyStart = 0;
  HttpClient::Response resp;
  HttpClient::Framing framing;
  HttpClient::ChunkState chunkState;
  bool forceEvict = false;
  bool complete = false;
  size_t erased = 0; // bytes of interim responses removed from the front of responseData

  size_t off = 0, ci = 0;
  try
  {
    while (!complete)
    {
      // ---- stand-in for _transport->receiveSync(sessionId, buffer, len, timeout) ----
      size_t segEnd;
      if (uniform)
        segEnd = std::min(stream.size(), off + uniform);
      else
        segEnd = ci < cuts.size() ? cuts[ci] : stream.size();
      if (segEnd - off > kReadBuffer)
        segEnd = off + kReadBuffer; // a read never returns more than the buffer holds
      const bool gotData = segEnd > off;
      if (gotData)
      {
        // if (recvResult.isOk() && len > 0)
        responseData.append(stream, off, segEnd - off);
        off = segEnd;
        if (!uniform && ci < cuts.size() && cuts[ci] == off)
          ++ci;
        d.fedAtEnd = off;
        if (responseData.size() > d.peakBuffered)
          d.peakBuffered = responseData.size();
        if (responseData.size() > effectiveCap)
        {
          throw HttpFramingError("HTTP response exceeded the configured response cap");
        }
        size_t before = responseData.size();
        ++d.frameCalls;
        complete = client.frameResponse(method, responseData, headersDone, headerScanPos, bodyStart, resp, framing,
                                        chunkState, forceEvict, effectiveCap);
        erased += before - responseData.size();
        if (responseData.size() > d.peakAfterReturn)
          d.peakAfterReturn = responseData.size();
        if (chunkState.decoded.size() > d.peakDecoded)
          d.peakDecoded = chunkState.decoded.size();
      }
      else
      {
        // else if (recvResult.isErr() && recvResult.error().code == TransportError::PeerClosed)
        if (headersDone && framing.mode == HttpClient::BodyMode::CloseDelimited)
        {
          resp.body = responseData.substr(bodyStart);
          forceEvict = true; // a close-delimited connection is never reusable
          complete = true;
        }
        else
        {
          d.outcome = Outcome::Truncated;
          d.what = "Connection closed before receiving complete HTTP response";
          d.mode = headersDone ? int(framing.mode) : -1;
          return d;
        }
      }
    }
  }
  catch (const HttpFramingError &e)
  {
    d.outcome = Outcome::FramingError;
    d.what = e.what();
    return d;
  }
  catch (const std::exception &e)
  {
    d.outcome = Outcome::ForeignException;
    d.what = std::string(typeid(e).name()) + ": " + e.what();
    return d;
  }
  catch (...)
  {
    d.outcome = Outcome::ForeignException;
    d.what = "non-std exception";
    return d;
  }
  d.outcome = Outcome::Complete;
  d.resp = resp;
  d.mode = int(framing.mode);
  d.forceEvict = forceEvict;
  switch (framing.mode)
  {
  case HttpClient::BodyMode::NoBody: d.consumed = erased + bodyStart; break;
  case HttpClient::BodyMode::ContentLength: d.consumed = erased + bodyStart + size_t(framing.contentLength); break;
  case HttpClient::BodyMode::Chunked: d.consumed = erased + chunkState.messageEnd; break;
  case HttpClient::BodyMode::CloseDelimited: d.consumed = erased + responseData.size(); break;
  }
  return d;
}

inline const char *modeName(int m)
{
  switch (m)
  {
  case int(HttpClient::BodyMode::NoBody): return "nobody";
  case int(HttpClient::BodyMode::ContentLength): return "content-length";
  case int(HttpClient::BodyMode::Chunked): return "chunked";
  case int(HttpClient::BodyMode::CloseDelimited): return "close-delimited";
  default: return "undetermined";
  }
}

} // namespace c15

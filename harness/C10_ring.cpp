// C10 (part 2): iora::core::RingBuffer / DynamicRingBuffer used within their SPSC contract, under
// every interleaving of their atomic operations (T flavour: the harness TU is compiled with gcc's
// -fsanitize=thread instrumentation and linked against rt/tsan_shim.cpp, so every atomic
// operation on the buffer object is a scheduling point and every plain access to the slot array
// is checked against C++ happens-before).
//
// Oracle clauses:
//   fifo-exactly-once  popped sequence (consumer, then drain) == pushed sequence 0..n-1
//   capacity           head - tail <= capacity at the end of every operation
//   no-data-race       no pair of conflicting plain accesses unordered by happens-before
//   peek-consistent    peek returns the item the next pop returns
#include "mc.h"
#include "tsan_shim.h"
#include <iora/core/ring_buffer.hpp>

#include <sstream>
#include <thread>

using iora::core::DynamicRingBuffer;
using iora::core::RingBuffer;

namespace
{
// producer ops: p = tryPush(copy), m = tryPush(move), B = tryPushBatch(2), b = tryPushBatch(3)
// consumer ops: o = tryPop, k = peek, O = tryPopBatch(2), s = size()/empty()/full()
template <typename RB> struct Runner
{
  static void run(RB &rb, size_t cap, const std::string &prod, const std::string &cons, const void *slots, size_t slotsLen)
  {
    mc_watch(&rb, sizeof(RB), "ring.object", true);
    if (slots)
      mc_watch(slots, slotsLen, "ring.slots", false);
    std::vector<int> popped;
    int next = 0; // next value to push (producer-private)
    bool peekBad = false;
    int lastPeek = -1;
    bool havePeek = false;
    std::thread P(
      [&]()
      {
        for (char k : prod)
        {
          mc_label(k == 'p' ? "P:tryPush" : k == 'm' ? "P:tryPushMove" : "P:tryPushBatch");
          if (k == 'p')
          {
            int v = next;
            if (rb.tryPush(v))
              next++;
          }
          else if (k == 'm')
          {
            int v = next;
            if (rb.tryPush(std::move(v)))
              next++;
          }
          else
          {
            int items[3] = {next, next + 1, next + 2};
            size_t n = rb.tryPushBatch(items, k == 'B' ? 2 : 3);
            next += int(n);
          }
        }
        mc_label("P:done");
      });
    std::thread Cn(
      [&]()
      {
        for (char k : cons)
        {
          mc_label(k == 'o' ? "C:tryPop" : k == 'k' ? "C:peek" : k == 'O' ? "C:tryPopBatch" : "C:size");
          if (k == 'o')
          {
            int v = -1;
            if (rb.tryPop(v))
            {
              if (havePeek && lastPeek != v)
                peekBad = true;
              popped.push_back(v);
            }
            havePeek = false;
          }
          else if (k == 'k')
          {
            int v = -1;
            if (rb.peek(v))
            {
              havePeek = true;
              lastPeek = v;
            }
          }
          else if (k == 'O')
          {
            int out[2] = {-1, -1};
            size_t n = rb.tryPopBatch(out, 2);
            for (size_t i = 0; i < n; ++i)
            {
              if (i == 0 && havePeek && lastPeek != out[0])
                peekBad = true;
              popped.push_back(out[i]);
            }
            havePeek = false;
          }
          else
          {
            size_t s = rb.size();
            if (s > cap)
              mc_violation("capacity", "size-exceeds-capacity", "size() returned " + std::to_string(s));
            (void)rb.empty();
            (void)rb.full();
          }
        }
        mc_label("C:done");
      });
    mc_label("main:join");
    P.join();
    Cn.join();
    mc_label("main:check");
    if (rb.size() > cap)
      mc_violation("capacity", "size-exceeds-capacity", "final size " + std::to_string(rb.size()));
    int v;
    while (rb.tryPop(v))
      popped.push_back(v);
    std::ostringstream os;
    for (int x : popped)
      os << x << ' ';
    mc_obs("pushed=%d popped=%s", next, os.str().c_str());
    bool ok = int(popped.size()) == next;
    for (size_t i = 0; ok && i < popped.size(); ++i)
      ok = popped[i] == int(i);
    if (!ok)
      mc_violation("fifo-exactly-once", popped.size() < size_t(next) ? "lost" : popped.size() > size_t(next) ? "duplicated" : "reordered",
                   "pushed 0.." + std::to_string(next - 1) + " popped " + os.str());
    if (peekBad)
      mc_violation("peek-consistent", "peek-differs-from-pop", "peek returned a different item than the following pop");
  }
};

struct Scn
{
  const char *name;
  int kind; // 0 RingBuffer<int,1>, 1 RingBuffer<int,2>, 2 RingBuffer<int,4>, 3 DynamicRingBuffer(2), 4 DynamicRingBuffer(1)
  const char *prod, *cons;
  int qP, tP; // preemption bounds
};

void runScn(const Scn &s)
{
  mc_label("main:setup");
  switch (s.kind)
  {
  case 0:
  {
    auto *rb = new RingBuffer<int, 1>();
    Runner<RingBuffer<int, 1>>::run(*rb, 1, s.prod, s.cons, nullptr, 0);
    break;
  }
  case 1:
  {
    auto *rb = new RingBuffer<int, 2>();
    Runner<RingBuffer<int, 2>>::run(*rb, 2, s.prod, s.cons, nullptr, 0);
    break;
  }
  case 2:
  {
    auto *rb = new RingBuffer<int, 4>();
    Runner<RingBuffer<int, 4>>::run(*rb, 4, s.prod, s.cons, nullptr, 0);
    break;
  }
  case 3:
  case 4:
  {
    size_t cap = s.kind == 3 ? 2 : 1;
    auto *rb = new DynamicRingBuffer<int>(cap);
    Runner<DynamicRingBuffer<int>>::run(*rb, cap, s.prod, s.cons, rb->_buffer.get(), sizeof(int) * rb->_capacity);
    break;
  }
  }
}

const Scn SCN[] = {
  // every interleaving (preemption bound >= number of points) of two pushes vs two pops
  {"rb1_pp_oo_all", 0, "pp", "oo", 12, 12},
  {"rb2_pp_oo_all", 1, "pp", "oo", 12, 12},
  // slot reuse / wrap-around
  {"rb1_ppp_ooo", 0, "ppp", "ooo", 3, 5},
  {"rb2_ppppp_ooooo", 1, "ppppp", "ooooo", 2, 4},
  {"rb2_move_peek", 1, "mmm", "koko", 3, 4},
  {"rb2_batch", 1, "BpB", "oOo", 3, 5},
  {"rb4_batch3", 2, "bbp", "OOo", 3, 4},
  {"rb2_size", 1, "ppp", "sos", 3, 4},
  {"dyn2_ppp_ooo", 3, "ppp", "ooo", 3, 5},
  {"dyn1_pp_oo_all", 4, "pp", "oo", 12, 12},
  {"dyn2_batch", 3, "BpB", "OoO", 3, 4},
};
} // namespace

int main(int argc, char **argv)
{
  std::vector<McScenario> v;
  for (const Scn &s : SCN)
  {
    McScenario m;
    m.name = s.name;
    m.body = [s]() { runScn(s); };
    m.quick.P = s.qP;
    m.thorough.P = s.tP;
    m.horizon_s = 10;
    v.push_back(m);
  }
  return mc_main(argc, argv, "C10_ring", v);
}

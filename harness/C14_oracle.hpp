// C14: the two oracles applied to one (bytes, configuration) case.
#pragma once
#include "C14_eval.hpp"

namespace c14
{

struct Robust
{
  bool pullAcc = false, saxAcc = false, domAcc = false, hasElem = false;
  size_t violations = 0;
};

inline bool inside(sv in, sv s) { return s.empty() || (s.data() >= in.data() && s.data() + s.size() <= in.data() + in.size()); }

// Robustness oracle (arbitrary bytes): termination/progress, slices inside input, accepted => balanced
// (independent scanner + event stream) and limits hold, undefined entities never expanded.
inline Robust robust(vr::Report &rep, const std::string &kase, sv bytes, const Cfg &c, const Scan *cached = nullptr)
{
  Robust R;
  Buf buf(bytes);
  sv in = buf.view();
  auto viol = [&](const std::string &clause, const std::string &sig, const std::string &detail)
  {
    ++R.violations;
    rep.violation(clause, sig, kase, detail);
  };

  Run pull = runPull(in, c);
  Run sax = runSax(in, c);
  DomRun dom = runDom(in, c);
  R.pullAcc = pull.accepted;
  R.saxAcc = sax.accepted;
  R.domAcc = dom.doc != nullptr;
  if (pull.overrun)
    viol("terminates", "no-progress:pull", "more tokens than input bytes: next() keeps returning true without consuming input");
  if (!pull.eofOk)
    rep.counters["eof_anomaly"]++;

  // --- slices ---
  auto slices = [&](const Run &r, const char *api)
  {
    for (auto &t : r.toks)
    {
      auto bad = [&](const char *field, sv s)
      {
        // addresses are not deterministic: keep them out of the recorded detail
        viol("slices-inside-input", std::string(kindName(t.kind)) + "." + field,
             std::string(api) + " token " + kindName(t.kind) + "." + field + " of size " + std::to_string(s.size()) + " lies outside the input buffer");
      };
      if (!inside(in, t.name))
        bad("name", t.name);
      if (!inside(in, t.text))
        bad("text", t.text);
      for (auto &a : t.attributes)
      {
        if (!inside(in, a.name))
          bad("attr-name", a.name);
        if (!inside(in, a.value))
          bad("attr-value", a.value);
      }
      if (t.kind == x::TokenKind::StartElement || t.kind == x::TokenKind::EmptyElement || t.kind == x::TokenKind::EndElement)
      {
        R.hasElem = true;
        auto q = t.splitQName();
        if (!inside(in, q.first) || !inside(in, q.second))
          bad("qname", q.first);
      }
    }
  };
  slices(pull, "pull");
  slices(sax, "sax");

  // --- undefined entities never expanded (decode API + DOM) ---
  std::vector<std::string> undefinedLits;
  for (auto &t : pull.toks)
  {
    auto chk = [&](sv s, const char *what)
    {
      if (s.find('&') == sv::npos)
        return;
      auto und = undefinedNamedRefs(s);
      std::string out;
      bool ok = x::Parser::decodeEntities(s, out);
      if (und.empty())
        return;
      for (auto &u : und)
        undefinedLits.push_back(u);
      if (ok)
        for (auto &u : und)
          if (out.find(u) == std::string::npos)
            viol("no-undefined-entity-expansion", std::string("decodeEntities:") + what,
                 "decodeEntities succeeded on " + show(std::string(s)) + " and replaced the undefined reference " + u + " -> " + show(out));
    };
    if (t.kind == x::TokenKind::Text)
      chk(t.text, "text");
    for (auto &a : t.attributes)
      chk(a.value, "attr");
  }
  if (dom.doc && !undefinedLits.empty())
  {
    std::string all;
    std::function<void(const x::Node &)> walk = [&](const x::Node &n)
    {
      for (auto &a : n.attributes)
        all += a.value + '\x1f';
      if (n.type == x::NodeType::Text)
        all += n.value + '\x1f';
      for (auto &ch : n.children)
        walk(*ch);
    };
    walk(*dom.doc);
    for (auto &u : undefinedLits)
      if (all.find(u) == std::string::npos)
        viol("no-undefined-entity-expansion", "dom", "DOM was built although the document references undefined entity " + u + " and the reference is not kept verbatim");
  }

  // --- accepted => balanced and within limits ---
  if (!(R.pullAcc || R.saxAcc || R.domAcc))
    return R;
  std::string who = R.pullAcc ? "" : R.saxAcc ? "sax-only:" : "dom-only:";
  std::string apis = std::string(R.pullAcc ? "pull " : "") + (R.saxAcc ? "sax " : "") + (R.domAcc ? "dom " : "");
  // (A) event stream
  {
    const Run &r = R.pullAcc ? pull : sax;
    std::vector<std::string> st;
    std::string why;
    for (auto &t : r.toks)
    {
      if (t.kind == x::TokenKind::StartElement)
        st.push_back(std::string(t.name));
      else if (t.kind == x::TokenKind::EndElement)
      {
        if (st.empty())
        {
          why = "stray-end-tag";
          break;
        }
        if (st.back() != std::string(t.name))
        {
          why = "mismatched-end-tag";
          break;
        }
        st.pop_back();
      }
    }
    if (why.empty() && !st.empty())
      why = "unclosed-at-eof";
    if (!why.empty() && (R.pullAcc || R.saxAcc))
      viol("accept-implies-balanced", who + "events:" + why, "accepted by " + apis + "but the reported Start/EndElement events are not balanced: " + why);
  }
  // (B) independent scanner on the raw bytes
  Scan local;
  if (!cached)
  {
    local = scan(bytes);
    cached = &local;
  }
  const Scan &s = *cached;
  if (s.verdict == Scan::Unbalanced)
    viol("accept-implies-balanced", who + "scan:" + s.why, "accepted by " + apis + "but the independent tag scanner says: " + s.why);
  else if (s.verdict == Scan::Indeterminate)
    rep.counters["accepted_scanner_indeterminate"]++;
  else
  {
    auto lim = [&](const char *dim, size_t have, size_t limit)
    {
      if (have > limit)
        viol("accept-implies-limits", who + dim, std::string("accepted by ") + apis + "with " + dim + "=" + std::to_string(have) + " > configured limit " + std::to_string(limit) + " (" + c.str() + ")");
    };
    lim("depth", s.maxDepth, c.d);
    lim("name", s.maxElemName, c.n);
    if (s.attrsLexed)
    {
      lim("attrs", s.maxAttrs, c.a);
      lim("name", s.maxAttrName, c.n);
    }
    else
      rep.counters["accepted_attrs_unlexed"]++;
    lim("text", s.maxTextStripped, c.t);
    if (c.k != 0)
      lim("tokens", s.tokens, c.k);
  }
  // (C) limits on what the parser itself reported
  if (R.pullAcc)
  {
    size_t d = 0, a = 0, n = 0, t = 0;
    for (auto &tk : pull.toks)
    {
      d = std::max(d, tk.depth);
      a = std::max(a, tk.attributes.size());
      if (tk.kind == x::TokenKind::StartElement || tk.kind == x::TokenKind::EmptyElement || tk.kind == x::TokenKind::EndElement)
        n = std::max(n, tk.name.size());
      for (auto &at : tk.attributes)
        n = std::max(n, at.name.size());
      if (tk.kind == x::TokenKind::Text)
        t = std::max(t, tk.text.size());
    }
    auto lim = [&](const char *dim, size_t have, size_t limit)
    {
      if (have > limit)
        viol("accept-implies-limits", std::string("reported:") + dim, std::string("accepted although a reported token has ") + dim + "=" + std::to_string(have) + " > limit " + std::to_string(limit) + " (" + c.str() + ")");
    };
    lim("depth", d, c.d);
    lim("attrs", a, c.a);
    lim("name", n, c.n);
    lim("text", t, c.t);
    if (c.k != 0)
      lim("tokens", pull.toks.size(), c.k);
  }
  return R;
}

enum Mode
{
  MustAccept,
  MustReject,
  Either
};

// Which dimensions of cfg are strictly below / at-or-above the document's measured quantities.
inline Mode modeFor(const Doc &d, const Cfg &c, std::string *dims = nullptr)
{
  std::string below;
  if (c.d < d.depth)
    below += "depth,";
  if (c.a < d.attrs)
    below += "attrs,";
  if (c.n < d.nameLo)
    below += "name,";
  if (c.t < d.textLo)
    below += "text,";
  if (c.k != 0 && c.k < d.tokens)
    below += "tokens,";
  if (!below.empty())
  {
    below.pop_back();
    if (dims)
      *dims = below;
    return MustReject;
  }
  bool all = c.d >= d.depth && c.a >= d.attrs && c.n >= d.nameHi && c.t >= d.textHi && (c.k == 0 || c.k >= d.tokens + 1);
  return all ? MustAccept : Either;
}

struct Faithful
{
  bool accepted = false;
  size_t violations = 0;
};

// Faithfulness oracle (well-formed generated document): all three interfaces accept and report the
// generating tree.
inline Faithful faithful(vr::Report &rep, const std::string &kase, const Doc &doc, const Cfg &c, Mode mode, const std::string &dims)
{
  Faithful F;
  Buf buf(doc.bytes);
  sv in = buf.view();
  auto viol = [&](const std::string &clause, const std::string &sig, const std::string &detail)
  {
    ++F.violations;
    rep.violation(clause, sig, kase, detail);
  };
  Run pull = runPull(in, c);
  Run sax = runSax(in, c);
  DomRun dom = runDom(in, c);
  F.accepted = pull.accepted;
  if (mode == MustReject)
  {
    if (pull.accepted || sax.accepted || dom.doc)
      viol("accept-implies-limits", dims, std::string("document exceeds limit(s) ") + dims + " of (" + c.str() + ") but was accepted by " +
                                            (pull.accepted ? "pull " : "") + (sax.accepted ? "sax " : "") + (dom.doc ? "dom" : ""));
    return F;
  }
  if (!pull.accepted)
  {
    if (mode == MustAccept)
      viol("wellformed-accepted", "reject:" + errClass(pull.err), "well-formed document within limits (" + c.str() + ") rejected by pull: " + pull.err);
    return F;
  }
  // pull
  std::vector<Mismatch> pm = compareEvents(doc.ev, canonTokens(pull.toks), false, true);
  for (auto &m : pm)
    viol("events-equal-tree", m.sig, "pull: " + m.detail);
  for (auto &t : pull.toks)
  {
    if (t.kind == x::TokenKind::EmptyElement && !t.selfClosing)
      viol("events-equal-tree", "empty:selfClosing-flag", "EmptyElement token with selfClosing=false");
    if (t.kind == x::TokenKind::StartElement || t.kind == x::TokenKind::EmptyElement || t.kind == x::TokenKind::EndElement)
    {
      auto q = t.splitQName();
      size_t p = t.name.find(':');
      sv pre = p == sv::npos ? sv{} : t.name.substr(0, p);
      sv loc = p == sv::npos ? t.name : t.name.substr(p + 1);
      if (q.first != pre || q.second != loc)
        viol("events-equal-tree", "qname-split", "splitQName(" + std::string(t.name) + ") = (" + std::string(q.first) + "," + std::string(q.second) + ")");
    }
  }
  // SAX = same token stream
  if (!sax.accepted)
    viol("wellformed-accepted", "sax:reject:" + errClass(sax.err), "runSax returned false on a document the pull loop accepts: " + sax.err);
  else if (!sax.cbKindOk)
    viol("events-equal-tree", "sax:callback-kind", "a SAX callback received a token of another kind");
  else if (!sameTokens(pull.toks, sax.toks))
  {
    std::vector<Mismatch> sm = compareEvents(doc.ev, canonTokens(sax.toks), false, true);
    if (sm.empty())
      viol("events-equal-tree", "sax:differs-from-pull", "SAX token sequence differs from the pull token sequence");
    for (auto &m : sm)
      viol("events-equal-tree", "sax:" + m.sig, "sax: " + m.detail);
  }
  // DOM
  if (!dom.doc)
    viol("wellformed-accepted", "dom:reject:" + errClass(dom.err), "DomBuilder::build failed on a well-formed document: " + dom.err);
  else
  {
    std::vector<CEv> de;
    canonDom(*dom.doc, 0, de);
    for (auto &m : compareEvents(doc.ev, de, true, true))
    {
      bool dup = false;
      for (auto &p : pm)
        if (p.sig == m.sig)
          dup = true;
      if (!dup)
        viol("events-equal-tree", "dom:" + m.sig, "dom: " + m.detail);
    }
    if (dom.doc->type != x::NodeType::Document)
      viol("events-equal-tree", "dom:document-node", "root of the DOM is not a Document node");
  }
  return F;
}

} // namespace c14

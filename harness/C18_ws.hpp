// C18 shared pieces: independent RFC 6455 encoder/decoder, independent UTF-8 validator,
// recording engine behind the real Transport, and the two endpoint drivers (server / client).
//
// Seams (compiled with -fno-access-control, nothing in /repo is modified):
//  * server: ONE long-lived WebSocketServer per worker process (its HttpServer base owns a ThreadPool
//    whose idle threads never get a task here, and its destructor sleeps 50 ms, so a fresh server per
//    case is not affordable).  Every case is a NEW session id created through the real
//    onUpgradeRequest() hook, fed through the real onUpgradedData(); HttpServer::_transport is the real
//    Transport built by TransportEngineInjector::withEngine over RecEngine (records every byte
//    sent per session and every close(sid)); it is never start()ed, so there is no I/O thread.
//  * client: a fresh WebSocketClient per case; _transport/_sessionId/_wsKey are set by hand (what
//    doConnect() publishes), then the real 101 response is fed through handleData() so the upgrade
//    path itself puts the client into CONNECTED.  Frames are fed through handleData().
//  Everything runs on the calling thread: deterministic, no sockets, no sleeps.  The client's
//  mask keys are random (SecureRng); the recorded wire is compared after decoding (unmasked).
#pragma once
#include "iora/network/websocket_client.hpp"
#include "iora/network/websocket_server.hpp"
#include "network/transport_test_seam.hpp"
#include "report.hpp"
#include <memory>
#include <string>
#include <vector>

namespace ws
{
using namespace iora::network;
typedef std::string Bytes;

// ---------------------------------------------------------------- reference codec
struct Frame
{
  bool fin = true;
  uint8_t rsv = 0;
  uint8_t op = 1;
  bool masked = false;
  uint8_t key[4] = {0, 0, 0, 0};
  Bytes payload;
};

inline Bytes encode(const Frame &f)
{
  Bytes o;
  o.push_back(char((f.fin ? 0x80 : 0) | ((f.rsv & 7) << 4) | (f.op & 15)));
  uint64_t n = f.payload.size();
  uint8_t mb = f.masked ? 0x80 : 0;
  if (n <= 125)
    o.push_back(char(mb | n));
  else if (n <= 0xFFFF)
  {
    o.push_back(char(mb | 126));
    o.push_back(char(n >> 8));
    o.push_back(char(n));
  }
  else
  {
    o.push_back(char(mb | 127));
    for (int i = 7; i >= 0; --i)
      o.push_back(char(n >> (8 * i)));
  }
  if (f.masked)
  {
    o.append((const char *)f.key, 4);
    size_t base = o.size();
    o += f.payload;
    for (size_t i = 0; i < n; ++i)
      o[base + i] = char(uint8_t(o[base + i]) ^ f.key[i & 3]);
  }
  else
    o += f.payload;
  return o;
}

// Arbitrary (possibly non-minimal / hostile) header: lc = 7-bit length code, ext used when lc>=126.
inline Bytes rawHeader(uint8_t b0, bool masked, int lc, uint64_t ext, const uint8_t key[4])
{
  Bytes o;
  o.push_back(char(b0));
  o.push_back(char((masked ? 0x80 : 0) | (lc & 0x7f)));
  if (lc == 126)
  {
    o.push_back(char(ext >> 8));
    o.push_back(char(ext));
  }
  else if (lc == 127)
    for (int i = 7; i >= 0; --i)
      o.push_back(char(ext >> (8 * i)));
  if (masked)
    o.append((const char *)key, 4);
  return o;
}

// Decode one complete frame at pos.  Returns bytes consumed, 0 if incomplete.
inline size_t decodeOne(const Bytes &w, size_t pos, Frame &f)
{
  size_t n = w.size();
  if (n - pos < 2)
    return 0;
  uint8_t b0 = uint8_t(w[pos]), b1 = uint8_t(w[pos + 1]);
  f.fin = b0 & 0x80;
  f.rsv = (b0 >> 4) & 7;
  f.op = b0 & 15;
  f.masked = b1 & 0x80;
  uint64_t len = b1 & 0x7f;
  size_t p = pos + 2;
  if (len == 126)
  {
    if (n - p < 2)
      return 0;
    len = (uint64_t(uint8_t(w[p])) << 8) | uint8_t(w[p + 1]);
    p += 2;
  }
  else if (len == 127)
  {
    if (n - p < 8)
      return 0;
    len = 0;
    for (int i = 0; i < 8; ++i)
      len = (len << 8) | uint8_t(w[p + i]);
    p += 8;
  }
  if (f.masked)
  {
    if (n - p < 4)
      return 0;
    memcpy(f.key, w.data() + p, 4);
    p += 4;
  }
  if (uint64_t(n - p) < len)
    return 0;
  f.payload.assign(w, p, size_t(len));
  if (f.masked)
    for (size_t i = 0; i < f.payload.size(); ++i)
      f.payload[i] = char(uint8_t(f.payload[i]) ^ f.key[i & 3]);
  return p + size_t(len) - pos;
}

// RFC 3629 validator; nullptr = valid, else the class of the first error.
inline const char *utf8Error(const Bytes &s)
{
  size_t n = s.size(), i = 0;
  while (i < n)
  {
    uint8_t c = uint8_t(s[i]);
    if (c < 0x80)
    {
      ++i;
      continue;
    }
    if (c < 0xC0)
      return "stray-continuation";
    if (c >= 0xF8)
      return "invalid-lead";
    if (c == 0xC0 || c == 0xC1)
      return "overlong";
    if (c >= 0xF5)
      return "above-10FFFF";
    size_t need = c < 0xE0 ? 1 : c < 0xF0 ? 2 : 3;
    for (size_t j = 1; j <= need; ++j)
    {
      if (i + j >= n)
        return "truncated";
      uint8_t b = uint8_t(s[i + j]);
      if ((b & 0xC0) != 0x80)
        return "bad-continuation";
      if (j == 1)
      {
        if (c == 0xE0 && b < 0xA0)
          return "overlong";
        if (c == 0xED && b >= 0xA0)
          return "surrogate";
        if (c == 0xF0 && b < 0x90)
          return "overlong";
        if (c == 0xF4 && b >= 0x90)
          return "above-10FFFF";
      }
    }
    i += need + 1;
  }
  return nullptr;
}

inline uint64_t fnv(const Bytes &s)
{
  uint64_t h = 1469598103934665603ull;
  for (unsigned char c : s)
  {
    h ^= c;
    h *= 1099511628211ull;
  }
  return h;
}
inline std::string repr(const Bytes &p)
{
  if (p.size() <= 40)
    return vr::hex(p);
  char b[64];
  snprintf(b, sizeof b, "#%zu.%016llx", p.size(), (unsigned long long)fnv(p));
  return b;
}

// ---------------------------------------------------------------- capture of one case
struct Ev
{
  char k;
  size_t off; // wire offset at the time of the event (orders callbacks against sent frames)
  std::string s;
};
struct Cap
{
  SessionId cur = 0;
  Bytes wire;                // everything the endpoint sent on the current session
  std::vector<Ev> evs;       // callbacks: M(essage) C(lose cb) E(rror cb) K(engine close)
  const char *badText = nullptr; // class of the first invalid-UTF-8 text delivered as text
  Bytes badTextBytes;
  size_t texts = 0, binaries = 0;
  void reset(SessionId sid)
  {
    cur = sid;
    wire.clear();
    evs.clear();
    badText = nullptr;
    badTextBytes.clear();
    texts = binaries = 0;
  }
  void ev(char k, std::string s) { evs.push_back(Ev{k, wire.size(), std::move(s)}); }
  void text(const std::string &t)
  {
    ++texts;
    if (!badText)
    {
      badText = utf8Error(t);
      if (badText)
        badTextBytes = t;
    }
    ev('M', "t:" + repr(t));
  }
  void binary(const std::vector<uint8_t> &d)
  {
    ++binaries;
    ev('M', "b:" + repr(Bytes(d.begin(), d.end())));
  }
  // Decode the recorded wire into frames (+start offsets).  tail = undecodable remainder length.
  void frames(std::vector<Frame> &out, std::vector<size_t> &offs, size_t &tail) const
  {
    size_t p = 0;
    while (p < wire.size())
    {
      Frame f;
      size_t c = decodeOne(wire, p, f);
      if (!c)
        break;
      out.push_back(std::move(f));
      offs.push_back(p);
      p += c;
    }
    tail = wire.size() - p;
  }
  // Canonical, segmentation-comparable log: callbacks and sent frames in their real order.
  std::string log() const
  {
    std::vector<Frame> fr;
    std::vector<size_t> offs;
    size_t tail = 0;
    frames(fr, offs, tail);
    std::string o;
    size_t fi = 0;
    auto emitF = [&](size_t i)
    {
      char b[8];
      snprintf(b, sizeof b, "F%x%d:", fr[i].op, fr[i].fin ? 1 : 0);
      o += b;
      o += repr(fr[i].payload);
      o += ';';
    };
    for (const Ev &e : evs)
    {
      while (fi < fr.size() && offs[fi] < e.off)
        emitF(fi++);
      o.push_back(e.k);
      o += e.s;
      o += ';';
    }
    while (fi < fr.size())
      emitF(fi++);
    if (tail)
      o += "W?" + std::to_string(tail) + ";";
    return o;
  }
};
inline Cap &cap()
{
  static Cap c;
  return c;
}

// ---------------------------------------------------------------- recording engine
class RecEngine : public detail::EngineBase
{
public:
  StartResult start() override { return StartResult::ok(); }
  void stop() override {}
  bool isRunning() const override { return false; }
  TransportErrorInfo lastError() const override { return TransportErrorInfo{}; }
  ListenResult addListener(const std::string &, std::uint16_t, TlsMode) override { return ListenResult::ok(1); }
  ConnectResult connect(const std::string &, std::uint16_t, TlsMode) override { return ConnectResult::ok(1); }
  ConnectResult connectViaListener(ListenerId, const std::string &, std::uint16_t) override
  {
    return ConnectResult::ok(1);
  }
  bool close(SessionId sid) override
  {
    if (sid == cap().cur)
      cap().ev('K', "");
    return true;
  }
  bool send(SessionId sid, const void *d, std::size_t n) override
  {
    if (sid == cap().cur)
      cap().wire.append((const char *)d, n);
    return true;
  }
  void sendAsync(SessionId sid, const void *d, std::size_t n, SendCompleteCallback cb) override
  {
    if (sid == cap().cur)
      cap().wire.append((const char *)d, n);
    if (cb)
      cb(sid, SendResult::ok(n));
  }
  void setCallbacks(Callbacks cbs) override { _cbs = std::move(cbs); }
  TransportStats getStats() const override { return TransportStats{}; }
  TransportAddress getListenerAddress(ListenerId) const override { return TransportAddress{}; }
  TransportAddress getLocalAddress(SessionId) const override { return TransportAddress{}; }
  TransportAddress getRemoteAddress(SessionId) const override { return TransportAddress{}; }
  bool setDscp(SessionId, std::uint8_t) override { return true; }
  std::thread::id getIoThreadId() const override { return std::thread::id{}; } // there is no I/O thread
  void detachForTermination() override {}
  void scheduleSelfDestruct(std::function<void()>) override {}

private:
  Callbacks _cbs;
};

inline std::shared_ptr<Transport> makeRecTransport()
{
  return test::TransportEngineInjector::withEngine(std::make_unique<RecEngine>(), TransportConfig{});
}

// ---------------------------------------------------------------- endpoints
struct Endpoint
{
  virtual ~Endpoint() {}
  virtual const char *name() const = 0;        // "server" / "client"
  virtual bool inboundMasked() const = 0;      // frames sent TO this endpoint carry a mask
  virtual void open() = 0;                     // fresh upgraded session through the real handshake path, capture reset
  virtual void openFast() = 0;                 // same resulting state, written directly (hot loops; checked against open() at start-up)
  virtual Bytes pendingHead() = 0;             // first <=14 unparsed bytes the endpoint is holding (to name what it is waiting for)
  virtual void feed(const uint8_t *p, size_t n) = 0;
  virtual size_t retained() = 0;               // bytes the endpoint keeps for the session right now
  virtual void app(char op) = 0;               // T sendText  B sendBinary  P sendPing  C sendClose
  virtual void closeCase() = 0;
  virtual size_t setMax(size_t wanted) = 0;    // returns the maximum in force afterwards
  virtual bool hasConfigurableMax() const = 0;
  void feed(const Bytes &b) { feed((const uint8_t *)b.data(), b.size()); }
};

static const char *const kKey = "dGhlIHNhbXBsZSBub25jZQ=="; // RFC 6455 sample nonce
static const char *const kAccept = "s3pPLMBiTxaQ9kYGzzhZRbK+xOo=";
static const size_t kLibraryDefaultMax = 16u * 1024 * 1024; // WebSocketServer's own default

struct ServerEp : Endpoint
{
  WebSocketServer *srv = nullptr;
  std::shared_ptr<Transport> tr;
  SessionId next = 1000, sid = 0;
  HttpServer::Request req;
  size_t curMax = kLibraryDefaultMax;

  void init()
  {
    srv = new WebSocketServer("127.0.0.1", 0);
    tr = makeRecTransport();
    srv->_transport = tr;
    srv->setOnTextMessage(
      [](SessionId s, const std::string &t)
      {
        if (s == cap().cur)
          cap().text(t);
      });
    srv->setOnBinaryMessage(
      [](SessionId s, const std::vector<uint8_t> &d)
      {
        if (s == cap().cur)
          cap().binary(d);
      });
    srv->setOnClose(
      [](SessionId s, std::uint16_t code, const std::string &reason)
      {
        if (s == cap().cur)
          cap().ev('C', std::to_string(code) + ":" + vr::hex(reason));
      });
    srv->setOnError(
      [](SessionId s, const std::string &m)
      {
        if (s == cap().cur)
          cap().ev('E', m);
      });
    req.path = "/ws";
    req.headers["Upgrade"] = "websocket";
    req.headers["Connection"] = "Upgrade";
    req.headers["Sec-WebSocket-Key"] = kKey;
    req.headers["Sec-WebSocket-Version"] = "13";
    checkFastEqualsReal();
  }
  void destroy()
  {
    delete srv;
    srv = nullptr;
    tr.reset();
  }
  const char *name() const override { return "server"; }
  bool inboundMasked() const override { return true; }
  void open() override
  {
    sid = ++next;
    cap().reset(sid);
    HttpServer::Response res;
    bool took = srv->onUpgradeRequest(sid, req, res);
    auto acc = res.headers.find("Sec-WebSocket-Accept");
    if (!took || res.status != 101 || acc == res.headers.end() || acc->second != kAccept)
    {
      fprintf(stderr, "C18 harness: server upgrade hook refused the handshake (status %d)\n", res.status);
      abort();
    }
  }
  void openFast() override
  {
    sid = ++next;
    cap().reset(sid);
    srv->_upgradedSessions.insert(sid); // == markSessionUpgraded(sid)
    srv->_sessions[sid];                // == _sessions[sid] = WsSessionState{} with an empty negotiated protocol
  }
  // start-up self-check: the state openFast() writes is what the real upgrade hook leaves behind
  void checkFastEqualsReal()
  {
    open();
    auto &st = srv->_sessions.at(sid);
    bool ok = st.buffer.empty() && st.fragmentBuffer.empty() && st.fragmentOpcode == WsOpcode::CONTINUATION && st.negotiatedProtocol.empty() && !st.closeSent &&
              srv->_upgradedSessions.count(sid) == 1 && cap().wire.empty();
    closeCase();
    if (!ok)
    {
      fprintf(stderr, "C18 harness: onUpgradeRequest leaves a session state the fast path does not reproduce\n");
      abort();
    }
  }
  Bytes pendingHead() override
  {
    auto it = srv->_sessions.find(sid);
    if (it == srv->_sessions.end())
      return Bytes();
    auto &b = it->second.buffer;
    return Bytes(b.begin(), b.begin() + std::min<size_t>(b.size(), 14));
  }
  void feed(const uint8_t *p, size_t n) override { srv->onUpgradedData(sid, p, n); }
  size_t retained() override
  {
    auto it = srv->_sessions.find(sid);
    return it == srv->_sessions.end() ? 0 : it->second.buffer.size() + it->second.fragmentBuffer.size();
  }
  void app(char op) override
  {
    switch (op)
    {
    case 'T': srv->sendText(sid, "hi"); break;
    case 'B': srv->sendBinary(sid, std::vector<uint8_t>{0x81, 0x00}); break;
    case 'P': srv->sendPing(sid, std::vector<uint8_t>{'q'}); break;
    case 'C': srv->sendClose(sid, 1000, "done"); break;
    }
  }
  void closeCase() override
  {
    cap().cur = 0;
    srv->_sessions.erase(sid);
    srv->_upgradedSessions.erase(sid);
  }
  size_t setMax(size_t wanted) override
  {
    srv->setMaxFrameSize(wanted);
    curMax = wanted;
    return curMax;
  }
  bool hasConfigurableMax() const override { return true; }
};

// Detect an (optional, future) configurable maximum on the client without depending on it.
template <class C, class = void> struct HasSetMax : std::false_type
{
};
template <class C>
struct HasSetMax<C, std::void_t<decltype(std::declval<C &>().setMaxFrameSize(std::size_t(1)))>> : std::true_type
{
};
template <class C> inline void callSetMax(C &c, size_t v, std::true_type) { c.setMaxFrameSize(v); }
template <class C> inline void callSetMax(C &, size_t, std::false_type) {}

struct ClientEp : Endpoint
{
  std::shared_ptr<Transport> tr;
  std::shared_ptr<WebSocketClient> c;
  static constexpr SessionId kSid = 7;
  size_t wantMax = 0; // 0 = leave the client's default
  bool feedUpgrade = true;
  std::string resp101;

  void init()
  {
    tr = makeRecTransport();
    resp101 = std::string("HTTP/1.1 101 Switching Protocols\r\nUpgrade: websocket\r\nConnection: Upgrade\r\n"
                          "Sec-WebSocket-Accept: ") +
              kAccept + "\r\n\r\n";
    checkFastEqualsReal();
  }
  void destroy()
  {
    c.reset();
    tr.reset();
  }
  const char *name() const override { return "client"; }
  bool inboundMasked() const override { return false; }
  void open() override { openImpl(false); }
  void openFast() override { openImpl(true); }
  Bytes pendingHead() override { return Bytes(c->_buffer.begin(), c->_buffer.begin() + std::min<size_t>(c->_buffer.size(), 14)); }
  void checkFastEqualsReal()
  {
    open();
    bool ok = c->_upgradeComplete.load() && c->getState() == WebSocketState::CONNECTED && c->_buffer.empty() && c->_fragmentBuffer.empty() &&
              c->_fragmentOpcode == WsOpcode::CONTINUATION && !c->_closeEchoed.load() && c->negotiatedProtocol().empty() && cap().wire.empty();
    closeCase();
    if (!ok)
    {
      fprintf(stderr, "C18 harness: the 101 response leaves a client state the fast path does not reproduce\n");
      abort();
    }
  }
  void openImpl(bool fast)
  {
    cap().reset(kSid);
    c = WebSocketClient::create();
    c->setOnTextMessage([](const std::string &t) { cap().text(t); });
    c->setOnBinaryMessage([](const std::vector<uint8_t> &d) { cap().binary(d); });
    c->setOnClose([](std::uint16_t code, const std::string &reason)
                  { cap().ev('C', std::to_string(code) + ":" + vr::hex(reason)); });
    c->setOnError([](const std::string &m) { cap().ev('E', m); });
    if (wantMax)
      callSetMax(*c, wantMax, HasSetMax<WebSocketClient>{});
    // what doConnect() publishes once the TCP connection exists and the upgrade request is out
    c->_transport = tr;
    c->_sessionId = kSid;
    c->_wsKey = kKey;
    c->_state.store(WebSocketState::CONNECTING);
    if (feedUpgrade && fast)
    {
      c->_upgradeComplete.store(true); // what handleData() does on a good 101
      c->_state.store(WebSocketState::CONNECTED);
    }
    else if (feedUpgrade)
    {
      c->handleData(kSid, (const uint8_t *)resp101.data(), resp101.size());
      if (c->getState() != WebSocketState::CONNECTED)
      {
        fprintf(stderr, "C18 harness: client did not accept the 101 response\n");
        abort();
      }
    }
  }
  void feed(const uint8_t *p, size_t n) override { c->handleData(kSid, p, n); }
  size_t retained() override { return c->_buffer.size() + c->_fragmentBuffer.size(); }
  void app(char op) override
  {
    switch (op)
    {
    case 'T': c->sendText("hi"); break;
    case 'B': c->sendBinary(std::vector<uint8_t>{0x81, 0x00}); break;
    case 'P': c->sendPing(std::vector<uint8_t>{'q'}); break;
    case 'C': c->sendClose(1000, "done"); break;
    }
  }
  void closeCase() override
  {
    cap().cur = 0;
    c.reset();
  }
  size_t setMax(size_t wanted) override
  {
    if (HasSetMax<WebSocketClient>::value)
    {
      wantMax = wanted;
      return wanted;
    }
    return kLibraryDefaultMax; // no knob on the client: judged against the library's own server default
  }
  bool hasConfigurableMax() const override { return HasSetMax<WebSocketClient>::value; }
};

} // namespace ws

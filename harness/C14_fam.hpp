// C14: label alphabets and the document families, enumerated simplest-first.
#pragma once
#include "C14_gen.hpp"

namespace c14
{

struct Alphabets
{
  std::vector<std::string> names{"a", "ns:b", "_c-1.d"};
  std::vector<std::string> attrNames{"x", "ns:y", "_z-1.w"};
  std::vector<std::string> fullVal, redVal; // attribute values (raw); "\1" stands for the other quote character
  std::vector<Label> redE, fullE, miniE;    // element labels (also used for Z)
  std::vector<Label> redT, fullT, redC, fullC, redM, fullM, redP, fullP;

  static GAttr attr(const std::string &n, std::string raw, char q)
  {
    size_t p;
    while ((p = raw.find('\1')) != std::string::npos)
      raw.replace(p, 1, q == '"' ? "'" : "\"");
    GAttr a;
    a.name = n;
    a.raw = raw;
    a.quote = q;
    refDecode(raw, a.dec);
    return a;
  }
  static Label text(const std::string &raw)
  {
    Label l;
    l.raw = raw;
    return l;
  }
  static Label pi(const std::string &t, const std::string &sep, const std::string &data)
  {
    Label l;
    l.name = t;
    l.sep = sep;
    l.raw = data;
    return l;
  }

  Alphabets()
  {
    fullVal = {"v", "", "a b", " lead", "trail ", "&lt;", "&amp;", "&gt;", "&quot;", "&apos;", "&#65;", "&#x20AC;",
               "&#x1F600;", "x>y", "it\1s", "p&amp;q&#x1F600;r", "\xc3\xa9\xe2\x82\xac\xf0\x9f\x98\x80", "/>", "a=b",
               "&#x3c;&#38;", "]]>", "-->", "?>"};
    redVal = {"v", "&amp;", "x>y", ""};
    const char quotes[2] = {'"', '\''};
    // element labels ------------------------------------------------------------
    for (auto &n : names) // reduced: 3 names x {no attribute, x="v"}
    {
      Label l;
      l.name = n;
      redE.push_back(l);
    }
    for (auto &n : names)
    {
      Label l;
      l.name = n;
      l.attrs.push_back(attr("x", "v", '"'));
      redE.push_back(l);
    }
    std::vector<std::vector<GAttr>> fullSets, miniSets;
    fullSets.push_back({});
    miniSets.push_back({});
    for (auto &an : attrNames)
      for (auto &v : fullVal)
        for (char q : quotes)
          fullSets.push_back({attr(an, v, q)});
    for (size_t i = 0; i < attrNames.size(); ++i)
      for (size_t j = 0; j < attrNames.size(); ++j)
        if (i != j)
          for (auto &v1 : redVal)
            for (auto &v2 : redVal)
              for (char q1 : quotes)
                for (char q2 : quotes)
                  fullSets.push_back({attr(attrNames[i], v1, q1), attr(attrNames[j], v2, q2)});
    for (auto &v : {std::string("v"), std::string("&amp;"), std::string("x>y")})
      for (char q : quotes)
        miniSets.push_back({attr("x", v, q)});
    for (char q1 : quotes)
      for (char q2 : quotes)
        miniSets.push_back({attr("x", "v", q1), attr("ns:y", "&lt;", q2)});
    miniSets.push_back({attr("x", "1", '"'), attr("ns:y", "2", '\''), attr("_z-1.w", "", '"')});
    for (auto &n : names)
      for (auto &s : fullSets)
        for (int ws = 0; ws < 5; ++ws)
        {
          Label l;
          l.name = n;
          l.attrs = s;
          l.ws = ws;
          fullE.push_back(l);
        }
    for (auto &n : names)
      for (auto &s : miniSets)
        for (int ws = 0; ws < 5; ++ws)
        {
          Label l;
          l.name = n;
          l.attrs = s;
          l.ws = ws;
          miniE.push_back(l);
        }
    // text ---------------------------------------------------------------------
    for (auto s : {"hi", " h i ", "&amp;"})
      redT.push_back(text(s));
    for (auto s : {"hi", " hi", "hi ", "h i", " h i ", "\n  hi\n", "\thi", "  hi", "&lt;", "&amp;", "&gt;", "&quot;", "&apos;",
                   "&#65;", "&#x20AC;", "&#x1F600;", "a&amp;b", "&lt;tag&gt;", "x>y", "\"q'", "\xc3\xa9\xe2\x82\xac\xf0\x9f\x98\x80",
                   "&amp; x", " &amp;", "&amp;&amp;", "]]", "a;b", "-->", "?>", "/", "=", "h\ni", "&#x3c;&#38;", "1", "a]]&gt;b"})
      fullT.push_back(text(s));
    for (auto s : {"c", "<&]]"})
      redC.push_back(text(s));
    for (auto s : {"c", "", " c ", "<b>&amp;</b>", "]]", "x]]y", "]>", "a]", "--> <!--", "\n", "&#65;", "<![CDATA[", "?>", ">", "]]]"})
      fullC.push_back(text(s));
    for (auto s : {" m ", "<x>"})
      redM.push_back(text(s));
    for (auto s : {" m ", "", "<b>", "&amp;", "a-b", "]]>", "?>", " - ", "<!", "->", ">", "</a>", "&undefined;"})
      fullM.push_back(text(s));
    redP = {pi("p", "", ""), pi("p", " ", "d")};
    fullP = {pi("p", "", ""), pi("p", " ", "d"), pi("p", " ", ""), pi("p", "  ", "d e "), pi("p", "\n", "d"), pi("ns-pi", " ", "x=\"1\""),
             pi("xml-stylesheet", " ", "href='a.css' type=\"text/css\""), pi("p", " ", "<a>"), pi("p", " ", "?"), pi("p", " ", ">"),
             pi("p", " ", "? >"), pi("_p.1", "\t", "&amp;"), pi("p", " ", "-->"), pi("p", " ", "]]>")};
  }
  const std::vector<Label> &red(Kind k) const
  {
    switch (k)
    {
    case KE:
    case KZ:
      return redE;
    case KT:
      return redT;
    case KC:
      return redC;
    case KM:
      return redM;
    default:
      return redP;
    }
  }
  const std::vector<Label> &full(Kind k) const
  {
    switch (k)
    {
    case KE:
    case KZ:
      return fullE;
    case KT:
      return fullT;
    case KC:
      return fullC;
    case KM:
      return fullM;
    default:
      return fullP;
    }
  }
};

inline void preorder(GNode &g, std::vector<GNode *> &v)
{
  v.push_back(&g);
  for (auto &k : g.kids)
    preorder(k, v);
}

struct Bounds
{
  int productNodes;    // reduced-label full product up to this many nodes
  int shapeNodes;      // default-label shapes (plain + pretty) up to this many nodes
  int sweepLeafNodes;  // single-position sweep of text/CDATA/comment/PI labels on shapes up to this many nodes
  int sweepElemNodes;  // single-position sweep of the full element-label alphabet on shapes up to ...
  int miniElemNodes;   // single-position sweep of the mini element alphabet (mutation base) up to ...
  int mutateProductNodes; // reduced product documents up to this many nodes join the mutation base set
  int limitProductNodes;  // reduced product documents up to this many nodes join the limit base set
};
inline Bounds boundsFor(bool thorough)
{
  if (thorough)
    return Bounds{4, 5, 3, 3, 3, 3, 3};
  return Bounds{3, 4, 3, 2, 2, 3, 2};
}

using DocSink = std::function<bool(Doc &)>; // false => stop (deadline)

class Families
{
public:
  Alphabets A;
  Shapes S;
  Bounds B;
  explicit Families(bool thorough) : B(boundsFor(thorough)) {}

  bool run(const DocSink &sink)
  {
    return charRefs(sink) && product(sink) && shapes(sink) && prologs(sink) && sweeps(sink) && limitFamily(sink) && hostile(sink);
  }

private:
  void setDefault(GNode &g)
  {
    std::vector<GNode *> v;
    preorder(g, v);
    for (auto *n : v)
      n->l = A.red(n->k)[0];
  }
  std::vector<GNode> rootsUpTo(int n)
  {
    std::vector<GNode> r;
    GNode z;
    z.k = KZ;
    r.push_back(z);
    for (int i = 1; i <= n; ++i)
      for (auto &g : S.exact(i))
        r.push_back(g);
    return r;
  }
  static int count(const GNode &g)
  {
    int c = 1;
    for (auto &k : g.kids)
      c += count(k);
    return c;
  }

  // F3: numeric character references at the UTF-8 length boundaries, in text and attribute values
  bool charRefs(const DocSink &sink)
  {
    const uint32_t cps[] = {0x9, 0xA, 0x20, 0x41, 0x7F, 0x80, 0xFF, 0x7FF, 0x800, 0x20AC, 0xD7FF, 0xE000, 0xFFFD, 0x10000, 0x1F600, 0x3FFFF, 0x40000, 0xFFFFF, 0x100000, 0x10FFFF};
    RenderOpt ro;
    for (uint32_t cp : cps)
    {
      char b[64];
      std::vector<std::string> forms;
      snprintf(b, sizeof b, "&#%u;", cp);
      forms.push_back(b);
      snprintf(b, sizeof b, "&#x%x;", cp);
      forms.push_back(b);
      snprintf(b, sizeof b, "&#x%X;", cp);
      forms.push_back(b);
      snprintf(b, sizeof b, "&#x0000000%X;", cp);
      forms.push_back(b);
      snprintf(b, sizeof b, "&#0000000000%u;", cp);
      forms.push_back(b);
      for (auto &f : forms)
      {
        for (int where = 0; where < 4; ++where)
        {
          GNode g;
          std::string ref = where == 1 ? "[" + f + "]" : f;
          if (where <= 1)
          {
            if (where == 0 && (cp == 0x9 || cp == 0xA || cp == 0x20))
              continue; // decoded text would be whitespace-only
            g.k = KE;
            g.l = A.redE[0];
            GNode t;
            t.k = KT;
            t.l = Alphabets::text(ref);
            g.kids.push_back(t);
          }
          else
          {
            g.k = KZ;
            g.l = A.redE[0];
            g.l.attrs.push_back(Alphabets::attr("x", ref, where == 2 ? '"' : '\''));
          }
          Doc d = render(g, ro, "charref");
          d.mutate = (&f == &forms[1]);
          d.limits = false;
          if (!sink(d))
            return false;
        }
      }
    }
    return true;
  }

  // F1: full product of the reduced label sets over all shapes
  bool product(const DocSink &sink)
  {
    RenderOpt ro;
    for (auto &root0 : rootsUpTo(B.productNodes))
    {
      GNode root = root0;
      std::vector<GNode *> pos;
      preorder(root, pos);
      std::vector<size_t> idx(pos.size(), 0);
      int nodes = int(pos.size());
      while (true)
      {
        for (size_t i = 0; i < pos.size(); ++i)
          pos[i]->l = A.red(pos[i]->k)[idx[i]];
        Doc d = render(root, ro, "product");
        d.mutate = nodes <= B.mutateProductNodes;
        d.limits = nodes <= B.limitProductNodes;
        if (!sink(d))
          return false;
        size_t i = 0;
        for (; i < pos.size(); ++i)
        {
          if (++idx[i] < A.red(pos[i]->k).size())
            break;
          idx[i] = 0;
        }
        if (i == pos.size())
          break;
      }
    }
    return true;
  }

  // F5: every shape with default labels, unformatted and in two pretty-printed layouts
  bool shapes(const DocSink &sink)
  {
    for (auto &root0 : rootsUpTo(B.shapeNodes))
    {
      GNode root = root0;
      setDefault(root);
      int nodes = count(root);
      for (int pretty = 0; pretty < 3; ++pretty)
      {
        RenderOpt ro;
        ro.pretty = pretty;
        Doc d = render(root, ro, pretty ? "shape-pretty" : "shape");
        d.mutate = nodes <= 4 && pretty < 2;
        d.limits = nodes <= 4 && pretty < 2;
        if (!sink(d))
          return false;
      }
    }
    return true;
  }

  // F4: prolog / epilog variants around small roots
  bool prologs(const DocSink &sink)
  {
    struct PV
    {
      std::string s;
      std::vector<Ev> ev;
      size_t tokens;
      size_t nameHi;
    };
    Ev preM{'M', "", {}, " pre ", " pre ", 0}, preP{'P', "pre-pi", {}, "d", "d", 0};
    Ev postM{'M', "", {}, " post ", " post ", 0}, postP{'P', "post", {}, "", "", 0};
    std::vector<PV> pro = {
      {"", {}, 0, 0},
      {"<?xml version=\"1.0\"?>", {}, 1, 3},
      {"<?xml version=\"1.0\" encoding=\"UTF-8\" standalone=\"yes\"?>\n", {}, 1, 3},
      {"<!DOCTYPE a>", {}, 1, 0},
      {"<?xml version='1.0'?>\n<!DOCTYPE a SYSTEM \"a.dtd\">\n", {}, 2, 3},
      {"<!DOCTYPE a PUBLIC \"-//X//Y\" 'http://x/y.dtd'>", {}, 1, 0},
      {"<!DOCTYPE a [<!ELEMENT a ANY> <!ENTITY e \"<b>'\">]>", {}, 1, 0},
      {"<!DOCTYPE a[ <!ELEMENT a ANY>\n<!NOTATION n SYSTEM \"[x>]\"> ]\n>", {}, 1, 0},
      {"<!-- pre --><?pre-pi d?>", {preM, preP}, 0, 0},
      {"<?xml version=\"1.0\"?><!-- pre -->\n<!DOCTYPE a>\n<?pre-pi d?>\n", {preM, preP}, 2, 3},
      {"\n  ", {}, 0, 0},
    };
    std::vector<PV> epi = {{"", {}, 0, 0}, {"\n", {}, 0, 0}, {"<!-- post -->", {postM}, 0, 0}, {"\n<?post?>\n", {postP}, 0, 0},
                           {" <!-- post --> <?post?> ", {postM, postP}, 0, 0}};
    std::vector<GNode> roots;
    for (auto &g0 : rootsUpTo(2))
    {
      GNode g = g0;
      setDefault(g);
      roots.push_back(g);
    }
    for (auto &p : pro)
      for (auto &e : epi)
        for (auto &g : roots)
        {
          RenderOpt ro;
          ro.prolog = p.s;
          ro.prologEv = p.ev;
          ro.prologTokens = p.tokens;
          ro.prologNameHi = p.nameHi;
          ro.epilog = e.s;
          ro.epilogEv = e.ev;
          Doc d = render(g, ro, "prolog");
          d.mutate = g.kids.empty() || g.kids[0].k == KT || g.kids[0].k == KE;
          d.limits = g.kids.empty() || g.kids[0].k == KT;
          if (!sink(d))
            return false;
        }
    return true;
  }

  // F2: single-position sweeps of the full alphabets (all other positions at their default label)
  bool sweeps(const DocSink &sink)
  {
    RenderOpt ro;
    int maxN = std::max(std::max(B.sweepLeafNodes, B.sweepElemNodes), B.miniElemNodes);
    for (auto &root0 : rootsUpTo(maxN))
    {
      GNode root = root0;
      setDefault(root);
      std::vector<GNode *> pos;
      preorder(root, pos);
      int nodes = int(pos.size());
      for (auto *p : pos)
      {
        Label saved = p->l;
        bool elem = p->k == KE || p->k == KZ;
        if (elem && nodes <= B.miniElemNodes)
          for (auto &l : A.miniE)
          {
            p->l = l;
            Doc d = render(root, ro, "sweep-elem-mini");
            d.mutate = true;
            d.limits = nodes <= 2;
            if (!sink(d))
              return false;
          }
        if (elem ? nodes <= B.sweepElemNodes : nodes <= B.sweepLeafNodes)
          for (auto &l : A.full(p->k))
          {
            p->l = l;
            Doc d = render(root, ro, elem ? "sweep-elem" : "sweep-leaf");
            d.mutate = !elem;
            d.limits = !elem && nodes <= 2;
            if (!sink(d))
              return false;
          }
        p->l = saved;
      }
    }
    return true;
  }

  // Limit family: nesting chains, attribute counts (incl. around the reserve(16) in readAttributes),
  // name lengths, text lengths.
  bool limitFamily(const DocSink &sink)
  {
    RenderOpt ro;
    auto emit = [&](GNode &g, bool mutate) -> bool
    {
      Doc d = render(g, ro, "limit-family");
      d.limits = true;
      d.mutate = mutate;
      return sink(d);
    };
    for (int depth = 1; depth <= 6; ++depth)
      for (int bottom = 0; bottom < 3; ++bottom) // innermost: empty / Z child / text child
      {
        GNode root;
        root.k = KE;
        root.l = A.redE[0];
        GNode *cur = &root;
        for (int i = 1; i < depth; ++i)
        {
          GNode c;
          c.k = KE;
          c.l = A.redE[size_t(i) % 3];
          cur->kids.push_back(c);
          cur = &cur->kids.back();
        }
        if (bottom == 1)
        {
          GNode z;
          z.k = KZ;
          z.l = A.redE[1];
          cur->kids.push_back(z);
        }
        else if (bottom == 2)
        {
          GNode t;
          t.k = KT;
          t.l = A.redT[0];
          cur->kids.push_back(t);
        }
        if (!emit(root, depth <= 4))
          return false;
      }
    for (int k : {0, 1, 2, 3, 4, 5, 15, 16, 17, 18, 33})
      for (int z = 0; z < 2; ++z)
      {
        GNode g;
        g.k = z ? KZ : KE;
        g.l.name = "a";
        for (int i = 0; i < k; ++i)
          g.l.attrs.push_back(Alphabets::attr("k" + std::to_string(i), std::to_string(i), i % 2 ? '\'' : '"'));
        if (!emit(g, k <= 3 || k == 17))
          return false;
      }
    for (int len = 1; len <= 6; ++len)
      for (int where = 0; where < 4; ++where) // element / empty element / attribute / PI target
      {
        std::string nm = std::string("abcdef").substr(0, size_t(len));
        GNode g;
        g.k = where == 1 ? KZ : KE;
        g.l.name = where <= 1 ? nm : "a";
        if (where == 2)
          g.l.attrs.push_back(Alphabets::attr(nm, "v", '"'));
        if (where == 3)
        {
          GNode p;
          p.k = KP;
          p.l = Alphabets::pi(nm, " ", "d");
          g.kids.push_back(p);
        }
        if (!emit(g, len <= 3))
          return false;
      }
    for (int len = 1; len <= 5; ++len)
      for (auto pre : {"", " ", "\n  "})
        for (int ent = 0; ent < 2; ++ent)
        {
          std::string t = std::string(pre) + (ent ? "&amp;" : "") + std::string("tuvwx").substr(0, size_t(len));
          GNode g;
          g.k = KE;
          g.l.name = "a";
          GNode c;
          c.k = KT;
          c.l = Alphabets::text(t);
          g.kids.push_back(c);
          if (!emit(g, len <= 2))
            return false;
          GNode z;
          z.k = KZ;
          z.l.name = "b";
          g.kids.push_back(z);
          GNode c2;
          c2.k = KT;
          c2.l = Alphabets::text("t" + t);
          g.kids.push_back(c2);
          if (!emit(g, false))
            return false;
        }
    return true;
  }

  // Hostile family: documents that use DTD-declared / undefined / external entities.  Not in the
  // supported subset: only the robustness oracle (incl. never-expanded) applies.
  bool hostile(const DocSink &sink)
  {
    for (auto s : {"<!DOCTYPE a [<!ENTITY xxe SYSTEM \"file:///etc/hostname\">]><a>&xxe;</a>",
                   "<!DOCTYPE a [<!ENTITY e \"EXPANDED\">]><a x=\"&e;\">&e;</a>",
                   "<a>&undefined;</a>",
                   "<a x='&nbsp;'/>",
                   "<!DOCTYPE a SYSTEM \"http://x/evil.dtd\"><a>&ext; &amp; &lt;</a>",
                   "<!DOCTYPE a [<!ENTITY % p SYSTEM \"http://x/p.dtd\"> %p;]><a>&lol;</a>",
                   "<a>&#x;&#;&#x110000;&#xD800;&#99999999999;&#0;</a>",
                   "<a x=\"&#x;\" y='&#4294967361;'>&amp</a>"})
    {
      Doc d;
      d.bytes = s;
      d.family = "hostile";
      d.wellFormed = false;
      d.mutate = true;
      if (!sink(d))
        return false;
    }
    return true;
  }
};

} // namespace c14

// C06: UDP keeps datagram boundaries and the peer-to-session mapping.
//
// Real code under test: Transport::udp() with the real UdpEngine (I/O thread, command queue, epoll
// loop, readFromListener / viaDo / connectDo / sendDo / flushListener / closeNow / runGc) over rt/simk
// UDP sockets.  Peers P1, P2 are raw simulated UDP sockets of the harness.
//
// Every operation history up to a depth over the alphabet
//   P1->L datagram (1 byte) | P2->L datagram (2 bytes) | P1->L datagram (65507 bytes) |
//   connectViaListener(L,P1) | connect(P1) | close(oldest open) | close(newest open) |
//   send(oldest open) | send(newest open) | send with the listener's sendto answering EAGAIN once |
//   idle expiry (clock advanced past idleTimeout)
// is enumerated (free mc_choose alternatives); each step runs to quiescence.  Both trigger modes.
//
// Reference model: per peer address, the open session that receives that peer's datagrams on the
// listener (created by implicit accept, or by the first connect-via-listener when none exists).
// Oracle clauses:
//   one-event-per-datagram   each datagram sent to the listener => exactly one data event with the complete payload
//   right-session            ... on the model's receiving session; an accept event iff the model has none
//   other-close-is-inert     closing a different session never changes which session receives (follows from the above)
//   one-datagram-per-send    each accepted send => at most one datagram at the peer, byte-identical, only at that session's peer
#include "mc.h"
#include "simk.h"
#include <iora/network/transport.hpp>
#include <iora/network/transport_impl.hpp>

#include <arpa/inet.h>
#include <netinet/in.h>
#include <sys/socket.h>
#include <unistd.h>

#include <map>
#include <set>
#include <sstream>

using namespace iora::network;

namespace
{
sockaddr_in addr(const char *ip, uint16_t port)
{
  sockaddr_in a{};
  a.sin_family = AF_INET;
  a.sin_port = htons(port);
  inet_pton(AF_INET, ip, &a.sin_addr);
  return a;
}

struct Ev
{
  char kind; // 'A' accept, 'C' connect, 'D' data, 'X' close
  SessionId sid;
  std::string data;
};

struct Sess
{
  SessionId sid;
  int peer;      // 1 or 2
  bool viaListener; // shares the listener socket (implicit accept or connectViaListener)
  bool open = true;
};

void history(int depth, bool edge)
{
  mc_label("main:udp");
  simk_cfg.udpQueue = 8;
  TransportConfig cfg;
  cfg.useEdgeTriggered = edge;
  cfg.enableHighResolutionTimers = false;
  cfg.idleTimeout = std::chrono::seconds(10);
  cfg.gcInterval = std::chrono::seconds(2);
  auto t = Transport::udp(cfg);
  std::vector<Ev> evs;
  t->onAccept([&](SessionId s, const TransportAddress &) { evs.push_back({'A', s, ""}); });
  t->onConnect([&](SessionId s, const TransportAddress &) { evs.push_back({'C', s, ""}); });
  t->onData([&](SessionId s, iora::core::BufferView d, std::chrono::steady_clock::time_point) { evs.push_back({'D', s, std::string((const char *)d.data(), d.size())}); });
  t->onClose([&](SessionId s, const TransportErrorInfo &) { evs.push_back({'X', s, ""}); });
  if (t->start().isErr())
    mc_violation("harness-internal", "start", "start failed");
  auto lr = t->addListener("127.0.0.1", 7000, TlsMode::None);
  if (lr.isErr())
    mc_violation("harness-internal", "listener", "addListener failed");
  ListenerId lid = lr.value();
  int p[3] = {-1, -1, -1};
  for (int i = 1; i <= 2; ++i)
  {
    p[i] = ::socket(AF_INET, SOCK_DGRAM | SOCK_NONBLOCK, 0);
    sockaddr_in a = addr("127.0.0.1", uint16_t(7000 + i));
    ::bind(p[i], (sockaddr *)&a, sizeof a);
  }
  sockaddr_in L = addr("127.0.0.1", 7000);
  mc_quiesce();

  std::vector<Sess> sess;                 // in creation order
  std::map<int, SessionId> receiving;     // peer -> receiving session (model)
  std::string hist;
  int counter = 0;
  int listenerFd = -1;
  {
    // find the listener's simulated fd: the only UDP socket bound to port 7000
    for (int fd = 1000; fd < 1256; ++fd)
      if (simk_is_sim(fd))
      {
        sockaddr_in a{};
        socklen_t l = sizeof a;
        if (::getsockname(fd, (sockaddr *)&a, &l) == 0 && ntohs(a.sin_port) == 7000)
          listenerFd = fd;
      }
  }
  auto findSess = [&](SessionId s) -> Sess *
  {
    for (auto &x : sess)
      if (x.sid == s)
        return &x;
    return nullptr;
  };
  size_t closeCursor = 0; // every close event is applied to the model exactly once
  auto applyCloses = [&](size_t)
  {
    for (size_t i = closeCursor; i < evs.size(); ++i)
      if (evs[i].kind == 'X')
        if (Sess *s = findSess(evs[i].sid))
        {
          if (!s->open)
            mc_violation("one-event-per-datagram", "double-close", "session " + std::to_string(s->sid) + " closed twice");
          s->open = false;
          for (auto it = receiving.begin(); it != receiving.end();)
            if (it->second == s->sid)
              it = receiving.erase(it);
            else
              ++it;
        }
    closeCursor = evs.size();
  };
  auto drainPeer = [&](int i, std::vector<std::string> &out)
  {
    std::vector<char> b(70000);
    for (;;)
    {
      ssize_t r = ::recv(p[i], b.data(), b.size(), 0);
      if (r < 0)
        break;
      out.emplace_back(b.data(), size_t(r));
    }
  };
  auto pickOpen = [&](bool newest) -> Sess *
  {
    Sess *r = nullptr;
    for (auto &x : sess)
      if (x.open)
      {
        if (!newest)
          return &x;
        r = &x;
      }
    return r;
  };

  for (int step = 0; step < depth; ++step)
  {
    int op = mc_choose(11, MC_FREE);
    size_t e0 = evs.size();
    switch (op)
    {
    case 0:
    case 1:
    case 8:
    {
      int who = op == 1 ? 2 : 1;
      size_t len = op == 0 ? 1 : op == 1 ? 2 : 65507;
      std::string pay(len, char('a' + (counter++ % 26)));
      pay[0] = char('A' + who);
      hist += op == 0 ? "1" : op == 1 ? "2" : "M";
      ssize_t r = ::sendto(p[who], pay.data(), pay.size(), 0, (sockaddr *)&L, sizeof L);
      if (r != ssize_t(pay.size()))
        mc_violation("harness-internal", "peer-sendto", "peer sendto failed");
      mc_quiesce();
      // exactly one data event with the complete payload
      int nData = 0, nAccept = 0;
      SessionId dataSid = 0, accSid = 0;
      for (size_t i = e0; i < evs.size(); ++i)
      {
        if (evs[i].kind == 'D')
        {
          ++nData;
          dataSid = evs[i].sid;
          if (evs[i].data != pay)
            mc_violation("one-event-per-datagram", "payload-altered:len" + std::to_string(len), "datagram of " + std::to_string(len) + " bytes delivered as " + std::to_string(evs[i].data.size()) + " bytes (hist " + hist + ")");
        }
        else if (evs[i].kind == 'A')
        {
          ++nAccept;
          accSid = evs[i].sid;
        }
      }
      if (nData != 1)
        mc_violation("one-event-per-datagram", nData == 0 ? "datagram-not-delivered" : "datagram-delivered-twice", "one datagram from P" + std::to_string(who) + " produced " + std::to_string(nData) + " data events (hist " + hist + ")");
      auto it = receiving.find(who);
      if (it != receiving.end())
      {
        if (nAccept)
          mc_violation("right-session", "accept-while-receiving-session-open", "P" + std::to_string(who) + "'s datagram triggered a new accept (sid " + std::to_string(accSid) + ") although session " + std::to_string(it->second) + " that receives this peer is still open (hist " + hist + ")");
        if (dataSid != it->second)
          mc_violation("right-session", "delivered-on-wrong-session", "P" + std::to_string(who) + "'s datagram delivered on session " + std::to_string(dataSid) + ", expected " + std::to_string(it->second) + " (hist " + hist + ")");
      }
      else
      {
        if (nAccept != 1)
          mc_violation("right-session", "no-accept-for-unknown-peer", "datagram from a peer without receiving session produced " + std::to_string(nAccept) + " accepts (hist " + hist + ")");
        if (dataSid != accSid)
          mc_violation("right-session", "delivered-on-wrong-session", "data delivered on a different session than the one just accepted");
        if (findSess(accSid))
          mc_violation("right-session", "session-id-reused", "accepted session id " + std::to_string(accSid) + " was used before");
        sess.push_back({accSid, who, true});
        receiving[who] = accSid;
      }
      break;
    }
    case 2:
    {
      hist += "v";
      auto r = t->connectViaListener(lid, "127.0.0.1", 7001);
      mc_quiesce();
      if (r.isOk())
      {
        bool announced = false;
        for (size_t i = e0; i < evs.size(); ++i)
          if (evs[i].kind == 'C' && evs[i].sid == r.value())
            announced = true;
        if (announced)
        {
          sess.push_back({r.value(), 1, true});
          if (!receiving.count(1))
            receiving[1] = r.value();
        }
      }
      break;
    }
    case 3:
    {
      hist += "c";
      auto r = t->connect("127.0.0.1", 7001, TlsMode::None);
      mc_quiesce();
      if (r.isOk())
      {
        bool announced = false;
        for (size_t i = e0; i < evs.size(); ++i)
          if (evs[i].kind == 'C' && evs[i].sid == r.value())
            announced = true;
        if (announced)
          sess.push_back({r.value(), 1, false});
      }
      break;
    }
    case 4:
    case 5:
    {
      hist += op == 4 ? "x" : "X";
      Sess *s = pickOpen(op == 5);
      if (s)
      {
        t->close(s->sid);
        mc_quiesce();
        applyCloses(e0);
        if (s->open)
          mc_violation("one-event-per-datagram", "close-not-reported", "close(" + std::to_string(s->sid) + ") produced no close event");
      }
      break;
    }
    case 6:
    case 7:
    case 9:
    {
      hist += op == 6 ? "s" : op == 7 ? "S" : "E";
      Sess *s = pickOpen(op != 6);
      if (!s)
        break;
      std::vector<std::string> junk;
      drainPeer(1, junk);
      drainPeer(2, junk);
      if (op == 9 && listenerFd >= 0)
        simk_udp_fail_sends(listenerFd, 1); // sendto answers EAGAIN once, then the socket is writable again
      std::string pay(3, char('a' + (counter++ % 26)));
      bool ok = t->send(s->sid, iora::core::BufferView{(const uint8_t *)pay.data(), pay.size()});
      mc_quiesce();
      if (op == 9)
        simk_udp_fail_sends(listenerFd, 0);
      mc_quiesce();
      std::vector<std::string> g1, g2;
      drainPeer(1, g1);
      drainPeer(2, g2);
      auto &mine = s->peer == 1 ? g1 : g2;
      auto &other = s->peer == 1 ? g2 : g1;
      if (!other.empty())
        mc_violation("one-datagram-per-send", "datagram-to-wrong-peer", "send on session " + std::to_string(s->sid) + " (peer P" + std::to_string(s->peer) + ") reached the other peer (hist " + hist + ")");
      if (mine.size() > 1)
        mc_violation("one-datagram-per-send", "send-duplicated-or-split", "one send produced " + std::to_string(mine.size()) + " datagrams (hist " + hist + ")");
      if (mine.size() == 1 && mine[0] != pay)
        mc_violation("one-datagram-per-send", "payload-altered", "datagram differs from the send");
      if (ok && mine.empty() && s->open)
      {
        applyCloses(e0);
        if (s->open)
          mc_violation("one-datagram-per-send", op == 9 ? "queued-datagram-never-flushed" : "accepted-send-lost", "send on open session " + std::to_string(s->sid) + " accepted but no datagram reached the peer (hist " + hist + ")");
      }
      applyCloses(e0);
      break;
    }
    case 10:
    {
      hist += "i";
      mc_quiesce(13ull * 1000000000ull); // past idleTimeout (10 s) and a GC tick (2 s)
      applyCloses(e0);
      break;
    }
    }
    applyCloses(e0);
  }
  mc_obs("hist=%s sessions=%zu", hist.c_str(), sess.size());
  t->stop();
  t.reset();
  for (int i = 1; i <= 2; ++i)
    ::close(p[i]);
  if (simk_open_fds() != 0)
    mc_violation("harness-internal", "fd-leak", std::to_string(simk_open_fds()) + " simulated descriptors left open");
}

// A burst of datagrams that are ALL pending when the engine wakes once: every one of them must be delivered while the
// session stays open (a per-wake read limit without re-arm strands the rest until some later datagram happens to arrive).
void burst(int n, bool edge, bool twoPeers)
{
  mc_label("main:udp-burst");
  simk_cfg.udpQueue = 128;
  TransportConfig cfg;
  cfg.useEdgeTriggered = edge;
  cfg.enableHighResolutionTimers = false;
  cfg.idleTimeout = std::chrono::seconds(30);
  cfg.gcInterval = std::chrono::seconds(10);
  auto t = Transport::udp(cfg);
  std::vector<Ev> evs;
  t->onAccept([&](SessionId s, const TransportAddress &) { evs.push_back({'A', s, ""}); });
  t->onData([&](SessionId s, iora::core::BufferView d, std::chrono::steady_clock::time_point) { evs.push_back({'D', s, std::string((const char *)d.data(), d.size())}); });
  t->onClose([&](SessionId s, const TransportErrorInfo &) { evs.push_back({'X', s, ""}); });
  if (t->start().isErr())
    mc_violation("harness-internal", "start", "start failed");
  if (t->addListener("127.0.0.1", 7000, TlsMode::None).isErr())
    mc_violation("harness-internal", "listener", "addListener failed");
  int p[2];
  for (int i = 0; i < 2; ++i)
  {
    p[i] = ::socket(AF_INET, SOCK_DGRAM | SOCK_NONBLOCK, 0);
    sockaddr_in a = addr("127.0.0.1", uint16_t(7001 + i));
    ::bind(p[i], (sockaddr *)&a, sizeof a);
  }
  sockaddr_in L = addr("127.0.0.1", 7000);
  mc_quiesce();
  std::vector<std::string> sent;
  for (int i = 0; i < n; ++i)
  {
    std::string pl = "d" + std::to_string(i);
    int from = twoPeers ? (i & 1) : 0;
    if (::sendto(p[from], pl.data(), pl.size(), 0, (sockaddr *)&L, sizeof L) != ssize_t(pl.size()))
      mc_violation("harness-internal", "burst-send", "simulated sendto failed");
    sent.push_back(pl);
  }
  mc_quiesce(5ull * 1000000ull);
  mc_quiesce(5ull * 1000000ull);
  std::multiset<std::string> got;
  size_t accepts = 0, closes = 0;
  for (auto &e : evs)
  {
    if (e.kind == 'D')
      got.insert(e.data);
    else if (e.kind == 'A')
      ++accepts;
    else if (e.kind == 'X')
      ++closes;
  }
  mc_obs("burst n=%d delivered=%zu accepts=%zu closes=%zu", n, got.size(), accepts, closes);
  size_t missing = 0, dup = 0;
  for (auto &pl : sent)
  {
    if (got.count(pl) == 0)
      ++missing;
    else if (got.count(pl) > 1)
      ++dup;
  }
  if (dup)
    mc_violation("one-event-per-datagram", "burst:duplicated", std::to_string(dup) + " of " + std::to_string(n) + " datagrams delivered more than once");
  if (missing && closes == 0)
    mc_violation("one-event-per-datagram", "burst:datagrams-never-delivered", std::to_string(missing) + " of " + std::to_string(n) +
                 " datagrams that were pending at one wake-up were never delivered although the session stayed open and the transport kept running");
  if (accepts != size_t(twoPeers ? 2 : 1))
    mc_violation("right-session", "burst:accept-count", std::to_string(accepts) + " accepts for " + std::to_string(twoPeers ? 2 : 1) + " peer(s)");
  for (int i = 0; i < 2; ++i)
    ::close(p[i]);
  t->stop();
  t.reset();
}
} // namespace

int main(int argc, char **argv)
{
  iora::core::Logger::setLevel(iora::core::Logger::Level::Fatal);
  bool thorough = false;
  for (int i = 1; i + 1 < argc; ++i)
    if (std::string(argv[i]) == "--tier" && std::string(argv[i + 1]) == "thorough")
      thorough = true;
  int depth = thorough ? 5 : 4;
  std::vector<McScenario> v;
  for (int edge = 1; edge >= 0; --edge)
  {
    McScenario m;
    m.name = edge ? "hist_et" : "hist_lt";
    m.body = [depth, edge]() { history(depth, edge != 0); };
    m.quick.S = 0;
    m.thorough.S = 0;
    m.horizon_s = 600;
    v.push_back(m);
  }
  for (int k = 0; k < 4; ++k)
  {
    McScenario m;
    bool edge = (k & 1) == 0, two = k >= 2;
    m.name = std::string("burst40_") + (edge ? "et" : "lt") + (two ? "_two_peers" : "");
    m.body = [edge, two]() { burst(40, edge, two); };
    m.quick.S = 0;
    m.quick.P = 1;
    m.thorough.S = 1;
    m.thorough.P = 2;
    m.horizon_s = 600;
    v.push_back(m);
  }
  return mc_main(argc, argv, "C06_udp", v);
}

// C15 (client / response side): HTTP/1.1 response framing is exact, segmentation-independent and bounded.
//
// Level: exploration (bounded-exhaustive response streams x exhaustive segmentation), engine bexh.
// Seam:   C15_client_drive.hpp (mirror of the executeRequest receive loop around the private
//         frameResponse / parseHeaderBlock / determineFraming / parseContentLength / advanceChunked).
// Oracle: C15_client_oracle.hpp + oracle/c15_client_ref.hpp (independent strict RFC 9112 framer).
//
// Families (each a full product over the dimensions printed in `bounds`):
//   A  status x header sets x {Content-Length spellings, no length (close-delimited), non-chunked
//      Transfer-Encoding} x bodies x surplus, for GET and HEAD
//   B  chunked: Transfer-Encoding spellings x bodies x every partition into <=3 chunks x chunk-size
//      spellings x chunk extensions x last-chunk spellings x trailers x surplus
//   C  invalid length information (must be rejected, never framed), caps {default, SIZE_MAX}
//   D  all single-byte substitutions over {CR LF : SP 0 f ; NUL 0xff} of a base set of A/B streams
//   E  never-terminated streams against lowered caps, fed in uniform segments of several sizes
// Segmentations per stream: unsplit, byte-at-a-time, EVERY single cut, every pair of cuts (pairs are
// limited to streams up to `pair_max_len` bytes; D uses singles only / cuts next to the mutation in
// the quick tier; E uses uniform segment sizes).
//
// Case format (exact, replayable):
//   C15c1 <GET|HEAD> cap=<default|max|N> [nc=1] seg=<unsplit|bytes|every:K|cuts:a[,b]> stream=<hex>
// All sigs carry the prefix "client:" (the server-side parts of C15 share clause names; known-finding
// matching is per (property, clause, sig)).
#include "C15_client_oracle.hpp"
#include "bexh.hpp"
#include <memory>
#include <unordered_set>

using namespace c15;
using c15ref::Verdict;

namespace
{

// ------------------------------------------------------------------------------------------------
// contexts
// ------------------------------------------------------------------------------------------------
struct Ctx
{
  bool head = false;
  uint64_t capSpec = 0; // 0 = library default, UINT64_MAX = raised to SIZE_MAX, else that many bytes
  bool neverComplete = false; // generator knows the stream is unterminated (family E, GET): part of the case text
  std::string capName() const
  {
    return capSpec == 0 ? "default" : capSpec == UINT64_MAX ? "max" : std::to_string(capSpec);
  }
};

struct Clients
{
  std::map<uint64_t, std::unique_ptr<HttpClient>> byCap;
  const HttpClient &get(uint64_t capSpec)
  {
    auto &p = byCap[capSpec];
    if (!p)
    {
      HttpClient::Config c;
      if (capSpec == UINT64_MAX)
        c.maxResponseBytes = SIZE_MAX;
      else if (capSpec != 0)
      {
        // effective cap = max(maxResponseBytes, jsonConfig.maxPayloadSize): lower both
        c.maxResponseBytes = size_t(capSpec);
        c.jsonConfig.maxPayloadSize = size_t(capSpec) / 2;
      }
      p.reset(new HttpClient(c));
    }
    return *p;
  }
  uint64_t effectiveCap(uint64_t capSpec)
  {
    const HttpClient &c = get(capSpec);
    return std::max(c._config.maxResponseBytes, c._config.jsonConfig.maxPayloadSize);
  }
};

struct Seg
{
  enum Kind
  {
    Unsplit,
    Bytes,
    Every,
    Cuts
  } kind = Unsplit;
  size_t every = 0;
  std::vector<size_t> cuts;
  std::string text() const
  {
    switch (kind)
    {
    case Unsplit: return "unsplit";
    case Bytes: return "bytes";
    case Every: return "every:" + std::to_string(every);
    default:
    {
      std::string s = "cuts:";
      for (size_t i = 0; i < cuts.size(); ++i)
        s += (i ? "," : "") + std::to_string(cuts[i]);
      return s;
    }
    }
  }
  size_t uniform() const { return kind == Bytes ? 1 : kind == Every ? every : 0; }
};

std::string caseText(const Ctx &c, const Seg &s, const std::string &streamHex)
{
  return std::string("C15c1 ") + (c.head ? "HEAD" : "GET") + " cap=" + c.capName() + (c.neverComplete ? " nc=1" : "") + " seg=" + s.text() +
         " stream=" + streamHex;
}

bool parseCase(const std::string &t, Ctx &c, Seg &s, std::string &stream)
{
  auto field = [&](const std::string &key) -> std::string
  {
    size_t p = t.find(" " + key + "=");
    if (p == std::string::npos)
      return "";
    p += key.size() + 2;
    size_t e = t.find_first_of(" \n", p);
    return t.substr(p, e == std::string::npos ? std::string::npos : e - p);
  };
  if (t.rfind("C15c1 ", 0) != 0)
    return false;
  c.head = t.compare(6, 4, "HEAD") == 0;
  std::string cap = field("cap");
  c.capSpec = cap == "default" ? 0 : cap == "max" ? UINT64_MAX : strtoull(cap.c_str(), nullptr, 10);
  c.neverComplete = field("nc") == "1";
  std::string sg = field("seg");
  if (sg == "unsplit")
    s.kind = Seg::Unsplit;
  else if (sg == "bytes")
    s.kind = Seg::Bytes;
  else if (sg.rfind("every:", 0) == 0)
  {
    s.kind = Seg::Every;
    s.every = strtoull(sg.c_str() + 6, nullptr, 10);
  }
  else if (sg.rfind("cuts:", 0) == 0)
  {
    s.kind = Seg::Cuts;
    std::string list = sg.substr(5);
    size_t a = 0;
    while (a < list.size())
    {
      size_t c = list.find(',', a);
      if (c == std::string::npos)
        c = list.size();
      s.cuts.push_back(strtoull(list.substr(a, c - a).c_str(), nullptr, 10));
      a = c + 1;
    }
  }
  else
    return false;
  stream = vr::unhex(field("stream"));
  return true;
}

// ------------------------------------------------------------------------------------------------
// evaluation of one stream under a segmentation plan
// ------------------------------------------------------------------------------------------------
struct Plan
{
  bool bytes = true;
  bool singles = true;          // every single cut
  bool pairs = false;           // every pair of cuts
  std::vector<size_t> nearCuts; // if !singles: only these cut offsets
  std::vector<size_t> every;    // uniform segment sizes
  bool skip = false;            // outside this part's window: not evaluated, not counted
  bool neverComplete = false;   // generator knows the stream is unterminated by construction
  const char *family = "?";
  const char *kind = "";
};

struct Intent // what the generator meant to encode (cross-check of the reference framer itself)
{
  bool present = false;
  int status = 0;
  std::string reason;
  std::vector<c15ref::Field> fields;
  std::string body;
  size_t consumed = 0;
  bool either = false;
};

struct Engine
{
  const vr::Shard &sh;
  vr::Report &rep;
  Clients clients;
  std::unordered_set<uint64_t> seen;
  uint64_t streamSeq = 0;
  uint64_t resumeStream = 0;
  bool stop = false;
  uint64_t pollTick = 0;

  Engine(const vr::Shard &s, vr::Report &r) : sh(s), rep(r)
  {
    if (sh.resumed)
      resumeStream = sh.resumeAfter >> 24;
  }

  static uint64_t fnv(const std::string &s, uint64_t h = 1469598103934665603ull)
  {
    for (unsigned char c : s)
    {
      h ^= c;
      h *= 1099511628211ull;
    }
    return h;
  }

  std::string regionsOf(const c15ref::Result &ref, const Seg &s)
  {
    if (s.kind == Seg::Bytes)
      return "bytewise";
    if (s.kind == Seg::Every)
      return "every:" + std::to_string(s.every);
    std::string o = "cut-in:";
    for (size_t i = 0; i < s.cuts.size(); ++i)
      o += (i ? "+" : "") + std::string(c15ref::regionAt(ref, s.cuts[i]));
    return o;
  }

  // returns findings of this run
  void runOne(const Ctx &ctx, const std::string &stream, const std::string &hexs, const c15ref::Result &ref, uint64_t cap,
              const Seg &seg, uint64_t segSeq, std::vector<Finding> &f, Driven &d)
  {
    std::string kase = caseText(ctx, seg, hexs);
    sh.begin((streamSeq << 24) | (segSeq & 0xffffff), kase);
    d = drive(clients.get(ctx.capSpec), ctx.head ? "HEAD" : "GET", stream, seg.cuts, seg.uniform());
    sh.end();
    ++rep.evaluations;
    judge(d, ref, stream.size(), seg.cuts, seg.uniform(), cap, f);
  }

  void eval(const Ctx &ctx, const std::string &stream, const Plan &plan, const Intent &intent = Intent())
  {
    ++streamSeq;
    if (stop || plan.skip)
      return;
    uint64_t h = fnv(stream, fnv(ctx.capName() + (ctx.head ? "H" : "G")));
    if (int(h % uint64_t(sh.W)) != sh.w)
      return;
    if (!seen.insert(h).second)
    {
      ++rep.counters["duplicate_streams_skipped"];
      return;
    }
    if (sh.resumed && streamSeq <= resumeStream)
      return; // evaluated (or crashed in) by an earlier incarnation of this worker
    if ((++pollTick & 63) == 0 && sh.timeUp())
    {
      stop = true;
      rep.exhaustive = false;
      rep.notes.push_back("deadline reached: enumeration stopped early");
      return;
    }
    const uint64_t cap = clients.effectiveCap(ctx.capSpec);
    c15ref::Result ref = c15ref::frame(stream, ctx.head, cap);
    if (stream.size() > cap && ref.verdict == Verdict::MustEqual)
    {
      // The cap bounds ALL received bytes (headers + body + whatever else the same reads carry), so a
      // valid message inside a stream longer than the cap may legitimately end in the limit error,
      // depending on where the reads fall.  Framing it is fine too - but then it must be exact.
      ref.verdict = Verdict::Either;
      ref.why = "ok:stream-exceeds-cap";
    }
    const std::string hexs = vr::hex(stream);
    ++rep.counters[std::string("streams_family_") + plan.family];
    ++rep.counters["streams"];
    switch (ref.verdict)
    {
    case Verdict::MustEqual: ++rep.counters["ref_must_equal"]; break;
    case Verdict::Either: ++rep.counters["ref_either"]; break;
    case Verdict::MustNotComplete:
      ++rep.counters[ref.why.rfind("truncated", 0) == 0 ? "ref_truncated" : "ref_bad_length"];
      break;
    case Verdict::DontCare: ++rep.counters["ref_dont_care"]; break;
    }
    // non-trivial: the reference frames a complete message that has a header field, a body, an
    // interim response or chunked coding -- or the stream carries invalid length information.
    bool nontrivial = false;
    if (ref.verdict == Verdict::MustEqual || ref.verdict == Verdict::Either)
      nontrivial = !ref.msg.fields.empty() || !ref.msg.body.empty() || ref.interim > 0 || ref.framing == "chunked";
    else if (ref.verdict == Verdict::MustNotComplete && ref.why.rfind("bad-length", 0) == 0)
      nontrivial = true;
    if (nontrivial)
      ++rep.distinct_nontrivial;

    Seg unsplit;
    // ---- reference self-check against the generator's intent ----
    if (intent.present)
    {
      std::string bad;
      if (!(ref.verdict == Verdict::MustEqual || ref.verdict == Verdict::Either))
        bad = "reference verdict " + ref.why;
      else if ((ref.verdict == Verdict::Either) != intent.either)
        bad = "reference strictness " + ref.why;
      else if (ref.msg.status != intent.status || ref.msg.reason != intent.reason || ref.msg.body != intent.body ||
               ref.consumed != intent.consumed || ref.msg.fields.size() != intent.fields.size())
        bad = "reference message differs from the generated one (status/reason/body/consumed/#fields)";
      else
        for (size_t i = 0; i < intent.fields.size(); ++i)
          if (ref.msg.fields[i].name != intent.fields[i].name || ref.msg.fields[i].value != intent.fields[i].value)
            bad = "reference field " + std::to_string(i) + " differs";
      if (!bad.empty())
        rep.violation("harness-internal", "client:reference-vs-generator", caseText(ctx, unsplit, hexs), bad);
    }

    // ---- unsplit ----
    std::vector<Finding> base;
    Driven d0;
    uint64_t segSeq = 0;
    runOne(ctx, stream, hexs, ref, cap, unsplit, segSeq++, base, d0);
    if (plan.neverComplete && d0.outcome == Outcome::Complete)
      base.push_back({"truncated-not-framed", std::string("never-terminated:") + plan.kind, "unterminated stream framed as complete"});
    for (auto &x : base)
      rep.violation(x.clause, "client:" + x.sig, caseText(ctx, unsplit, hexs), x.detail);
    switch (d0.outcome)
    {
    case Outcome::Complete: ++rep.counters["impl_complete"]; break;
    case Outcome::FramingError: ++rep.counters["impl_framing_error"]; break;
    case Outcome::Truncated: ++rep.counters["impl_truncated_at_eof"]; break;
    default: ++rep.counters["impl_foreign_exception"]; break;
    }
    if (d0.peakBuffered > rep.counters["max_buffered_bytes"])
      rep.counters["max_buffered_bytes"] = d0.peakBuffered;
    rep.sampleEvery(4099, caseText(ctx, unsplit, hexs).substr(0, 300) + " => ref " + ref.why + " / impl " + outcomeName(d0.outcome));

    bool segDependent = false;
    // Minimisation: single cuts are evaluated first; a byte-wise / uniform / two-cut segmentation that
    // fails a clause is reported only if no single cut of the same stream failed that clause (otherwise
    // the single cut is the minimal failing feature and is what the sig names).  Everything is still
    // evaluated and counted.
    std::set<std::string> failedBySingle;
    auto other = [&](const Seg &seg)
    {
      std::vector<Finding> f;
      Driven d;
      runOne(ctx, stream, hexs, ref, cap, seg, segSeq++, f, d);
      if (plan.neverComplete && d.outcome == Outcome::Complete)
        f.push_back({"truncated-not-framed", std::string("never-terminated:") + plan.kind, "unterminated stream framed as complete"});
      if (d.peakBuffered > rep.counters["max_buffered_bytes"])
        rep.counters["max_buffered_bytes"] = d.peakBuffered;
      if (ref.verdict == Verdict::DontCare &&
          (d.outcome != d0.outcome || (d.outcome == Outcome::Complete &&
                                       (d.resp.body != d0.resp.body || d.resp.statusCode != d0.resp.statusCode ||
                                        d.resp.headers != d0.resp.headers))))
        segDependent = true;
      const bool single = seg.kind == Seg::Cuts && seg.cuts.size() == 1;
      for (auto &x : f)
      {
        bool dup = false;
        for (auto &b : base)
          if (b.clause == x.clause && b.sig == x.sig)
            dup = true;
        if (dup)
          continue; // same defect already reported for the unsplit feed of this stream
        bool baseHasClause = false;
        for (auto &b : base)
          if (b.clause == x.clause)
            baseHasClause = true;
        const bool segOnly = !baseHasClause && (x.clause == "framed-equals-reference" || x.clause == "consumed-equals-reference");
        const std::string clause = segOnly ? "segmentation-independent" : x.clause;
        if (single)
          failedBySingle.insert(clause);
        else if (failedBySingle.count(clause))
        {
          ++rep.counters["multi_cut_failures_subsumed_by_a_single_cut"];
          continue;
        }
        std::string where = regionsOf(ref, seg);
        rep.violation(clause, "client:" + x.sig + "@" + where, caseText(ctx, seg, hexs),
                      (segOnly ? "unsplit feed is framed correctly, this segmentation is not: " : "") + x.detail);
      }
    };
    const size_t n = stream.size();
    if (plan.singles || plan.pairs)
    {
      for (size_t c = 1; c < n; ++c)
      {
        Seg s;
        s.kind = Seg::Cuts;
        s.cuts = {c};
        other(s);
      }
    }
    else
      for (size_t c : plan.nearCuts)
        if (c >= 1 && c < n)
        {
          Seg s;
          s.kind = Seg::Cuts;
          s.cuts = {c};
          other(s);
        }
    if (plan.bytes && n > 1)
    {
      Seg s;
      s.kind = Seg::Bytes;
      other(s);
    }
    for (size_t k : plan.every)
      if (k < n && !(k == 1 && plan.bytes))
      {
        Seg s;
        s.kind = Seg::Every;
        s.every = k;
        other(s);
      }
    if (plan.pairs)
    {
      ++rep.counters["streams_with_all_cut_pairs"];
      Seg s;
      s.kind = Seg::Cuts;
      s.cuts.resize(2);
      for (size_t a = 1; a + 1 < n; ++a)
        for (size_t b = a + 1; b < n; ++b)
        {
          s.cuts[0] = a;
          s.cuts[1] = b;
          other(s);
        }
    }
    if (segDependent)
      ++rep.counters["dontcare_streams_with_segmentation_dependent_outcome"];
    if (n > rep.counters["max_stream_len"])
      rep.counters["max_stream_len"] = n;
  }
};

// ------------------------------------------------------------------------------------------------
// generators
// ------------------------------------------------------------------------------------------------
struct Line // one header field line as spelled on the wire, plus what it means
{
  std::string raw, name, value;
};
Line L(const std::string &raw)
{
  Line l;
  l.raw = raw;
  size_t c = raw.find(':');
  l.name = raw.substr(0, c);
  l.value = c15ref::detail::trimOws(raw.substr(c + 1));
  return l;
}

struct StatusForm
{
  std::string prefix; // interim responses, verbatim
  std::string line;   // final status line without CRLF
  int status;
  std::string reason;
  int minor;
};

std::vector<StatusForm> statusForms(bool thorough)
{
  std::vector<StatusForm> v = {
    {"", "HTTP/1.1 200 OK", 200, "OK", 1},
    {"", "HTTP/1.1 204 No Content", 204, "No Content", 1},
    {"", "HTTP/1.1 304 Not Modified", 304, "Not Modified", 1},
    {"HTTP/1.1 100 Continue\r\n\r\n", "HTTP/1.1 200 OK", 200, "OK", 1},
  };
  if (thorough)
  {
    v.push_back({"HTTP/1.1 103 Early Hints\r\nLink: </s>\r\n\r\nHTTP/1.1 100 Continue\r\n\r\n", "HTTP/1.1 200 OK", 200, "OK", 1});
    v.push_back({"", "HTTP/1.0 200 OK", 200, "OK", 0});
    v.push_back({"", "HTTP/1.1 200 ", 200, "", 1});
    v.push_back({"", "HTTP/1.1 404 Not Found", 404, "Not Found", 1});
  }
  return v;
}

std::vector<std::vector<Line>> headerSets(bool thorough)
{
  std::vector<std::vector<Line>> v = {
    {},
    {L("Server: x")},
    {L("x-lower: v"), L("X-UPPER:V"), L("X-Tab:\tv\t ")},
    {L("X-Dup: 1"), L("X-Dup: 2")},
    {L("X-Content-Length: 9"), L("Transfer-Encoding-X: chunked"), L("X-TE: chunked")},
    {L("X-List: a, b,c"), L("Connection: keep-alive")},
  };
  if (thorough)
  {
    v.push_back({L("X-Empty:"), L("X-Empty2: ")});
    v.push_back({L("Location: http://h/p:1"), L("X-Sp: a  b")});
    v.push_back({L("Connection: close")});
    v.push_back({L("X-Obs: \xe9\xff")});
  }
  return v;
}

std::vector<std::string> bodies(bool thorough)
{
  std::vector<std::string> v = {"", "a", "hello", "0\r\n\r\n"};
  if (thorough)
  {
    v.push_back("\n");
    v.push_back("\r\n\r\nH");
  }
  return v;
}

const std::vector<std::string> &surpluses()
{
  static const std::vector<std::string> v = {"", "X", "\r\n", "HTTP/1.1 200 OK\r\nContent-Length: 1\r\n\r\nZ"};
  return v;
}

struct Built
{
  std::string stream;
  Intent intent;
};

// Assemble a response: status form, header lines (framing lines inserted before or after the set)
Built assemble(const StatusForm &sf, const std::vector<Line> &set, const std::vector<Line> &framing, bool framingFirst,
               const std::string &payload /* wire bytes after the header section */, const std::string &decodedBody,
               bool closeDelimited, bool either, const std::string &surplus)
{
  Built b;
  std::string s = sf.prefix + sf.line + "\r\n";
  std::vector<Line> all;
  if (framingFirst)
    all = framing;
  all.insert(all.end(), set.begin(), set.end());
  if (!framingFirst)
    all.insert(all.end(), framing.begin(), framing.end());
  for (auto &l : all)
  {
    s += l.raw + "\r\n";
    b.intent.fields.push_back({l.name, l.value});
  }
  s += "\r\n";
  s += payload;
  b.intent.present = true;
  b.intent.status = sf.status;
  b.intent.reason = sf.reason;
  b.intent.either = either;
  if (closeDelimited)
  {
    s += surplus; // indistinguishable from body
    b.intent.body = decodedBody + surplus;
    b.intent.consumed = s.size();
  }
  else
  {
    b.intent.body = decodedBody;
    b.intent.consumed = s.size();
    s += surplus;
  }
  b.stream = s;
  return b;
}

struct Limits
{
  size_t pairMinLen = 0; // pairs for streams with pairMinLen < length <= pairMaxLen
  size_t pairMaxLen = 0;
  bool pairsOnly = false; // the "pairs" part: nothing but (unsplit +) all cut pairs, streams outside the window skipped
};

Plan fullPlan(const char *family, size_t len, const Limits &lim)
{
  Plan p;
  p.family = family;
  p.pairs = len > lim.pairMinLen && len <= lim.pairMaxLen;
  if (lim.pairsOnly)
  {
    p.bytes = false;
    p.singles = false;
    p.skip = !p.pairs;
  }
  return p;
}

// Family A ----------------------------------------------------------------------------------------
void familyA(Engine &E, bool thorough, const Limits &lim, std::vector<std::pair<Ctx, std::string>> *baseSet)
{
  auto sfs = statusForms(thorough);
  auto sets = headerSets(thorough);
  auto bods = bodies(thorough);
  for (int head = 0; head < 2; ++head)
    for (auto &sf : sfs)
      for (size_t si = 0; si < sets.size(); ++si)
        for (int first = 0; first < 2; ++first)
        {
          if (sets[si].empty() && first)
            continue;
          for (auto &body : bods)
          {
            const bool rule1 = head || sf.status == 204 || sf.status == 304;
            const std::string N = std::to_string(body.size());
            struct Fr
            {
              std::vector<Line> lines;
              int kind; // 0 content-length, 1 none, 2 non-chunked transfer coding
              bool either;
            };
            std::vector<Fr> frs = {
              {{L("Content-Length: " + N)}, 0, false},
              {{L("content-length:" + N)}, 0, false},
              {{L("CONTENT-LENGTH: \t" + N + " \t")}, 0, false},
              {{L("Content-Length: 00" + N)}, 0, false},
              {{L("Content-Length: " + N), L("Content-Length: " + N)}, 0, true},
              {{L("Content-Length: " + N + ", " + N)}, 0, true},
              {{}, 1, false},
              {{L("Transfer-Encoding: gzip")}, 2, true},
              {{L("Transfer-Encoding: chunked, gzip")}, 2, true},
            };
            for (auto &fr : frs)
            {
              if (sf.minor == 0 && fr.kind == 2)
                continue; // Transfer-Encoding in an HTTP/1.0 message is faulty framing (DontCare), not a valid stream
              for (auto &sp : surpluses())
              {
                const bool closeDelim = !rule1 && fr.kind != 0;
                if (closeDelim && !sp.empty())
                  continue;
                // a bodiless response carries its length fields but no content
                std::string payload = rule1 ? "" : body;
                bool either = fr.either && !(rule1 && fr.kind == 2); // rule 1 ignores the coding altogether
                Built b = assemble(sf, sets[si], fr.lines, first != 0, payload, payload, closeDelim, either, sp);
                Ctx ctx;
                ctx.head = head != 0;
                E.eval(ctx, b.stream, fullPlan("A", b.stream.size(), lim), b.intent);
                if (baseSet && (sp.empty() || sp == "X") && si <= 2 && !first && &sf - &sfs[0] < 4)
                  baseSet->push_back({ctx, b.stream});
              }
            }
          }
        }
}

// Family B ----------------------------------------------------------------------------------------
std::string hexOf(size_t n, bool upper)
{
  char b[32];
  snprintf(b, sizeof b, upper ? "%zX" : "%zx", n);
  return b;
}

void familyB(Engine &E, bool thorough, const Limits &lim, std::vector<std::pair<Ctx, std::string>> *baseSet)
{
  std::vector<StatusForm> sfs = {{"", "HTTP/1.1 200 OK", 200, "OK", 1}, {"HTTP/1.1 100 Continue\r\n\r\n", "HTTP/1.1 200 OK", 200, "OK", 1}};
  std::vector<Line> tes = {L("Transfer-Encoding: chunked"), L("transfer-encoding: CHUNKED"), L("Transfer-Encoding: gzip, chunked"),
                           L("Transfer-Encoding:\tchunked ")};
  std::vector<std::vector<Line>> sets = {{}, {L("Server: x")}};
  std::vector<std::string> bods = {"", "a", "hello", "0\r\n\r\n"};
  if (thorough)
  {
    bods.push_back("0123456789");                 // 10 bytes: chunk size "a"/"A" (partitions into <=2 chunks only)
    bods.push_back("abcdefghijklmnopqrstuvwxyz"); // 26 bytes: chunk size "1a"/"1A" (one chunk only)
  }
  // chunk-size spelling: 0 plain lower, 1 leading zeros, 2 upper case
  std::vector<std::string> exts = {"", ";x", ";x=y", " ; x = \"q;\\\"\t\""};
  std::vector<std::string> lasts = {"0", "000", "0;x=y"};
  std::vector<std::string> trailers = {"", "X-T: v\r\n", "X-T: v\r\nContent-Length: 99\r\n"};
  if (!thorough)
  {
    exts = {"", ";x=y", " ; x = \"q;\\\"\t\""};
    lasts = {"0", "0;x=y"};
    trailers = {"", "X-T: v\r\nContent-Length: 99\r\n"};
  }
  for (int head = 0; head < 2; ++head)
    for (auto &sf : sfs)
      for (auto &te : tes)
        for (size_t si = 0; si < sets.size(); ++si)
          for (auto &body : bods)
          {
            // every composition of |body| into 1..3 positive parts (none for the empty body)
            std::vector<std::vector<size_t>> parts;
            const size_t n = body.size();
            if (n == 0)
              parts.push_back({});
            else
            {
              parts.push_back({n});
              for (size_t a = 1; a < n && n <= 10; ++a)
                parts.push_back({a, n - a});
              for (size_t a = 1; a < n && n <= 5; ++a)
                for (size_t b2 = 1; a + b2 < n; ++b2)
                  parts.push_back({a, b2, n - a - b2});
            }
            for (auto &pt : parts)
              for (int spell = 0; spell < 3; ++spell)
              {
                if (spell == 2)
                {
                  bool letters = false;
                  for (size_t x : pt)
                    if (hexOf(x, false) != hexOf(x, true))
                      letters = true;
                  if (!letters)
                    continue; // upper == lower for this partition
                }
                if (spell == 1 && pt.empty())
                  continue;
                for (auto &ext : exts)
                {
                  if (pt.empty() && !ext.empty())
                    continue; // no data chunk to decorate
                  for (auto &last : lasts)
                    for (auto &tr : trailers)
                      for (auto &sp : surpluses())
                      {
                        if (head && (!sp.empty() || &sf != &sfs[0] || si != 0))
                          continue; // HEAD: header-only response; keep a thin slice (rule 1 ignores the coding)
                        std::string payload;
                        size_t off = 0;
                        for (size_t x : pt)
                        {
                          payload += (spell == 1 ? "00" : "") + hexOf(x, spell == 2) + ext + "\r\n" + body.substr(off, x) + "\r\n";
                          off += x;
                        }
                        payload += last + "\r\n" + tr + "\r\n";
                        Built b = head ? assemble(sf, sets[si], {te}, true, "", "", false, false, sp)
                                       : assemble(sf, sets[si], {te}, true, payload, body, false, false, sp);
                        Ctx ctx;
                        ctx.head = head != 0;
                        E.eval(ctx, b.stream, fullPlan("B", b.stream.size(), lim), b.intent);
                        if (baseSet && !head && sp.empty() && &te == &tes[0] && si == 0 && spell == 0 && &sf == &sfs[0] &&
                            (pt.size() <= 2))
                          baseSet->push_back({ctx, b.stream});
                      }
                }
              }
          }
}

// Family C: invalid length information ----------------------------------------------------------
void familyC(Engine &E, bool thorough, const Limits &lim)
{
  std::vector<std::string> prefixes = {"", "HTTP/1.1 100 Continue\r\n\r\n"};
  std::vector<std::pair<std::string, std::string>> around = {{"", ""}, {"Server: x\r\n", ""}, {"", "Server: x\r\n"}};
  std::vector<std::string> clBlocks = {
    "Content-Length: 5\r\nContent-Length: 6\r\n",
    "Content-Length: 6\r\nContent-Length: 5\r\n",
    "Content-Length: 5\r\ncontent-length: 6\r\n",
    "Content-Length: 5abc\r\n",
    "Content-Length: +5\r\n",
    "Content-Length: -5\r\n",
    "Content-Length:  5 ,6\r\n",
    "Content-Length: 5, 6\r\n",
    "Content-Length: 6, 5\r\n",
    "Content-Length: 5, 5, 6\r\n",
    "Content-Length: 0x5\r\n",
    "Content-Length: 5 5\r\n",
    "Content-Length: 5.0\r\n",
    "Content-Length: 5e0\r\n",
    "Content-Length: \r\n",
    "Content-Length:\r\n",
    "Content-Length: ,\r\n",
    "Content-Length: 18446744073709551616\r\n",
    "Content-Length: 18446744073709551621\r\n",  // 2^64 + 5
    "Content-Length: 99999999999999999999999\r\n",
    "Content-Length: 5\r\nContent-Length: 18446744073709551621\r\n",
    "Content-Length: 5\r\nContent-Length: 5x\r\n",
    // Content-Length together with Transfer-Encoding
    "Content-Length: 5\r\nTransfer-Encoding: chunked\r\n",
    "Transfer-Encoding: chunked\r\nContent-Length: 5\r\n",
    "Content-Length: 15\r\nTransfer-Encoding: chunked\r\n", // 15 = length of the chunked payload below
    "Transfer-Encoding: gzip\r\nContent-Length: 5\r\n",
    "content-length: 5\r\ntransfer-encoding: Chunked\r\n",
    // valid-or-rejectable neighbours (reference says Either / MustEqual): keep the family honest
    "Content-Length: 5,\r\n",
    "Content-Length: 5\r\nContent-Length: 05\r\n",
    "Content-Length: 05\r\n",
  };
  std::vector<std::string> payloads = {"hello", "5\r\nhello\r\n0\r\n\r\n"};
  std::vector<uint64_t> caps = {0, UINT64_MAX};
  for (uint64_t cap : caps)
    for (auto &pre : prefixes)
      for (auto &ar : around)
        for (auto &blk : clBlocks)
          for (auto &pl : payloads)
          {
            std::string s = pre + "HTTP/1.1 200 OK\r\n" + ar.first + blk + ar.second + "\r\n" + pl;
            Ctx ctx;
            ctx.capSpec = cap;
            E.eval(ctx, s, fullPlan("C", s.size(), lim));
          }
  // chunk sizes
  std::vector<std::string> sizes = {"10000000000000000", "100000000000000000", "FFFFFFFFFFFFFFFFF", "00000000000000000000000005",
                                    "-5", "+5", "0x5", "5x", "5:", "g", "-", " 5", "5 5", "5,5", "ffffffffffffffec", "7FFFFFFFFFFFFFFF",
                                    "8000000000000000", "1000000", "1000001", "FFFFFFFF", "100000000"};
  for (unsigned k = 0; k < (thorough ? 96u : 48u); ++k)
  {
    char b[32];
    snprintf(b, sizeof b, "%llX", (unsigned long long)(UINT64_MAX - k));
    sizes.push_back(b);
  }
  std::vector<std::string> before = {"", "1\r\na\r\n"};
  std::vector<std::string> hdrs = {"Transfer-Encoding: chunked\r\n", "Server: x\r\nTransfer-Encoding: chunked\r\nX-A: b\r\n"};
  for (uint64_t cap : caps)
    for (auto &pre : prefixes)
      for (auto &hd : hdrs)
        for (auto &bf : before)
          for (auto &sz : sizes)
            for (int ext = 0; ext < 2; ++ext)
            {
              std::string s = pre + "HTTP/1.1 200 OK\r\n" + hd + "\r\n" + bf + sz + (ext ? ";x=y" : "") + "\r\nhello\r\n0\r\n\r\n";
              Ctx ctx;
              ctx.capSpec = cap;
              E.eval(ctx, s, fullPlan("C", s.size(), lim));
            }
}

// Family D: single-byte substitutions --------------------------------------------------------------
void familyD(Engine &E, bool thorough, const std::vector<std::pair<Ctx, std::string>> &baseSet)
{
  static const unsigned char alphabet[] = {'\r', '\n', ':', ' ', '0', 'f', ';', 0x00, 0xff};
  for (auto &bs : baseSet)
  {
    const std::string &orig = bs.second;
    for (size_t p = 0; p < orig.size(); ++p)
      for (unsigned char c : alphabet)
      {
        if ((unsigned char)orig[p] == c)
          continue;
        std::string m = orig;
        m[p] = char(c);
        Plan pl;
        pl.family = "D";
        pl.singles = thorough;
        if (!thorough)
          pl.nearCuts = {p, p + 1, p + 2};
        E.eval(bs.first, m, pl);
        if (E.stop)
          return;
      }
  }
}

// Family E: never-terminated streams against lowered caps ----------------------------------------
std::string repeatTo(const std::string &unit, size_t len)
{
  std::string s;
  while (s.size() < len)
    s += unit;
  s.resize(len);
  return s;
}

void familyE(Engine &E, bool thorough)
{
  std::vector<uint64_t> caps = {64, 256};
  if (thorough)
  {
    caps.push_back(1024);
    caps.push_back(4096);
  }
  for (uint64_t cap : caps)
  {
    const size_t Lmax = size_t(cap) + 20;
    const std::string H = "HTTP/1.1 200 OK\r\n";
    const std::string TE = H + "Transfer-Encoding: chunked\r\n\r\n";
    struct K
    {
      const char *kind;
      std::string stream;
    };
    std::vector<K> ks = {
      {"header-line", repeatTo(H + "X: " + std::string(Lmax, 'a'), Lmax)},
      {"status-line", repeatTo("HTTP/1.1 200 O" + std::string(Lmax, 'K'), Lmax)},
      {"header-lines", H + repeatTo("X: y\r\n", Lmax - H.size())},
      {"garbage", std::string(Lmax, 'X')},
      {"crlf", repeatTo("\r\n", Lmax)},
      {"cr", std::string(Lmax, '\r')},
      {"lf", std::string(Lmax, '\n')},
      {"nul", std::string(Lmax, '\0')},
      {"cl-at-cap", repeatTo(H + "Content-Length: " + std::to_string(cap) + "\r\n\r\n" + std::string(Lmax, 'b'), Lmax)},
      {"cl-over-cap", repeatTo(H + "Content-Length: " + std::to_string(cap + 1) + "\r\n\r\n" + std::string(Lmax, 'b'), Lmax)},
      {"close-delimited", repeatTo(H + "\r\n" + std::string(Lmax, 'b'), Lmax)},
      {"chunks", TE + repeatTo("1\r\na\r\n", Lmax - TE.size())},
      {"chunk-at-cap", repeatTo(TE + hexOf(size_t(cap), false) + "\r\n" + std::string(Lmax, 'b'), Lmax)},
      {"chunk-over-cap", repeatTo(TE + hexOf(size_t(cap) + 1, false) + "\r\n" + std::string(Lmax, 'b'), Lmax)},
      {"chunk-ext", repeatTo(TE + "1;" + std::string(Lmax, 'a'), Lmax)},
      {"chunk-hex", repeatTo(TE + std::string(Lmax, '1'), Lmax)},
      {"chunk-zeros", repeatTo(TE + std::string(Lmax, '0'), Lmax)},
      {"trailer-lines", TE + "0\r\n" + repeatTo("X: y\r\n", Lmax - TE.size() - 3)},
      {"trailer-line", repeatTo(TE + "0\r\nX: " + std::string(Lmax, 'y'), Lmax)},
      {"interim-spam", repeatTo("HTTP/1.1 100 Continue\r\n\r\n", 4 * Lmax)},
      {"interim-then-header-line", repeatTo("HTTP/1.1 100 Continue\r\n\r\n" + H + "X: " + std::string(Lmax, 'a'), Lmax + 25)},
    };
    for (int head = 0; head < 2; ++head)
      for (auto &k : ks)
      {
        // every prefix length from cap-8 upwards would be another family; the stream itself is fixed,
        // the segmentation varies
        // the stream is fixed; what varies is where the reads land relative to the cap
        Plan pl;
        pl.family = "E";
        pl.kind = k.kind;
        pl.neverComplete = !head; // (a HEAD response legitimately completes at the end of its header section)
        pl.every = {2, 3, 7, 8, 63, 64, 65, size_t(cap) - 1, size_t(cap), size_t(cap) + 1};
        pl.singles = true;
        Ctx ctx;
        ctx.head = head != 0;
        ctx.capSpec = cap;
        ctx.neverComplete = pl.neverComplete;
        E.eval(ctx, k.stream, pl);
      }
  }
}

} // namespace

// ------------------------------------------------------------------------------------------------
int main(int argc, char **argv)
{
  vr::Args args(argc, argv);
  const bool thorough = args.thorough();
  Limits lim;
  lim.pairsOnly = args.getInt("pairs-only", 0) != 0;
  lim.pairMinLen = size_t(args.getInt("pair-min-len", 0));
  lim.pairMaxLen = size_t(args.getInt("pair-max-len", thorough ? 80 : 56));
  const std::string partName = lim.pairsOnly ? "C15_client_pairs" : "C15_client";
  double deadline = double(args.getInt("deadline", thorough ? 1500 : 240));

  if (!args.replay.empty())
  {
    std::string text = vr::readFile(args.replay);
    Ctx ctx;
    Seg seg;
    std::string stream;
    if (!parseCase(text, ctx, seg, stream))
    {
      fprintf(stderr, "cannot parse case\n");
      return 2;
    }
    Clients cl;
    uint64_t cap = cl.effectiveCap(ctx.capSpec);
    c15ref::Result ref = c15ref::frame(stream, ctx.head, cap);
    if (stream.size() > cap && ref.verdict == Verdict::MustEqual)
    {
      ref.verdict = Verdict::Either;
      ref.why = "ok:stream-exceeds-cap";
    }
    printf("stream   : %s\n", vr::jstr(stream).c_str());
    printf("request  : %s   cap=%s (%llu)   segmentation=%s\n", ctx.head ? "HEAD" : "GET", ctx.capName().c_str(),
           (unsigned long long)cap, seg.text().c_str());
    printf("reference: verdict=%d why=%s framing=%s status=%d body=%s consumed=%zu interim=%d\n", int(ref.verdict), ref.why.c_str(),
           ref.framing.c_str(), ref.msg.status, vr::jstr(ref.msg.body).c_str(), ref.consumed, ref.interim);
    fflush(stdout);
    int bad = 0;
    auto show = [&](const Seg &s)
    {
      Driven d = drive(cl.get(ctx.capSpec), ctx.head ? "HEAD" : "GET", stream, s.cuts, s.uniform());
      printf("impl[%s]: outcome=%s %s mode=%s status=%d body=%s consumed=%zu fed=%zu forceEvict=%d peak=%zu\n", s.text().c_str(),
             outcomeName(d.outcome), d.what.c_str(), modeName(d.mode), d.resp.statusCode, vr::jstr(d.resp.body).c_str(), d.consumed,
             d.fedAtEnd, int(d.forceEvict), d.peakBuffered);
      std::vector<Finding> f;
      judge(d, ref, stream.size(), s.cuts, s.uniform(), cap, f);
      if (ctx.neverComplete && d.outcome == Outcome::Complete)
        f.push_back({"truncated-not-framed", "never-terminated", "unterminated stream framed as complete"});
      for (auto &x : f)
      {
        printf("  VIOLATES clause=%s sig=%s :: %s\n", x.clause.c_str(), x.sig.c_str(), x.detail.c_str());
        ++bad;
      }
      fflush(stdout);
    };
    // Evaluate in a child so that a hang or a sanitizer abort of the real code is reported, not suffered.
    fflush(nullptr);
    pid_t pid = fork();
    if (pid == 0)
    {
      Seg un;
      if (seg.kind != Seg::Unsplit)
        show(un);
      show(seg);
      fflush(nullptr);
      _exit(bad ? 1 : 0);
    }
    int st = 0;
    double t0 = vr::now_s();
    while (true)
    {
      pid_t r = waitpid(pid, &st, WNOHANG);
      if (r == pid)
        break;
      if (vr::now_s() - t0 > 20)
      {
        kill(pid, SIGKILL);
        waitpid(pid, &st, 0);
        printf("  VIOLATES clause=terminates sig=hang :: framing did not return within 20 s\n");
        return 1;
      }
      usleep(10000);
    }
    if (WIFEXITED(st) && (WEXITSTATUS(st) == 0 || WEXITSTATUS(st) == 1))
      return WEXITSTATUS(st);
    printf("  VIOLATES clause=no-crash-no-ub sig=crash :: child ended with status 0x%x (signal / sanitizer report above)\n", st);
    return 1;
  }

  std::string only = args.get("families", lim.pairsOnly ? "ABC" : "ABCDE");
  vr::run_sharded(args, partName, "exploration", 15.0, deadline,
                  [&](const vr::Shard &sh, vr::Report &rep)
                  {
                    rep.rule = "distinct (request method, cap, byte stream) cases for which the independent reference framer finds a "
                               "complete response having >=1 header field / a body / an interim response / chunked coding, or "
                               "invalid length information; evaluations = runs of the real framing code (one per segmentation)";
                    rep.bounds["families"] = only;
                    rep.bounds["request_methods"] = "GET, HEAD";
                    rep.bounds["status_forms"] = thorough ? "200, 204, 304, 100+200, 103+100+200, HTTP/1.0 200, 200 with empty reason, 404"
                                                          : "200, 204, 304, 100+200";
                    rep.bounds["body_lengths"] = thorough ? "0,1,5 (4+2 contents incl. CRLF/terminator look-alikes); chunked also 10 (<=2 chunks) and 26 (1 chunk)" : "0,1,5";
                    rep.bounds["chunking"] = "every composition of the body into <=3 chunks x size spelling {plain, leading zeros, upper "
                                             "hex} x extensions x last-chunk spellings x trailers";
                    rep.bounds["segmentations"] =
                      lim.pairsOnly ? "unsplit + every single cut + every pair of cuts, for streams of " + std::to_string(lim.pairMinLen + 1) + ".." +
                                        std::to_string(lim.pairMaxLen) + " bytes (plain build; shorter streams get their pairs in the ASan part)"
                                    : "unsplit, byte-at-a-time, every single cut; every pair of cuts for streams <= " +
                                        std::to_string(lim.pairMaxLen) + " bytes; family D: " +
                                        (thorough ? "every single cut" : "cuts at mutation offset +0/+1/+2") +
                                        "; family E: every single cut + uniform reads of 2,3,7,8,63,64,65,cap-1,cap,cap+1";
                    rep.bounds["mutation_alphabet"] = "CR LF ':' SP '0' 'f' ';' NUL 0xff at every offset of the base streams";
                    rep.bounds["caps"] = thorough ? "default(16MiB), SIZE_MAX, 64, 256, 1024, 4096" : "default(16MiB), SIZE_MAX, 64, 256";
                    rep.counters["dontcare_streams_with_segmentation_dependent_outcome"] += 0; // informational, see notes
                    rep.notes.push_back("informational counter dontcare_streams_with_segmentation_dependent_outcome: streams outside the strict "
                                        "grammar (reference verdict DontCare) whose accept/reject outcome or framed message differed between "
                                        "two segmentations; the statement demands segmentation independence for valid streams only, so this "
                                        "is counted, not reported");
                    rep.notes.push_back("observation (not a violation): interim 1xx responses are erased from the buffer before the cap is "
                                        "applied again, so a peer sending 1xx responses forever never trips maxResponseBytes; every read "
                                        "still returns and buffering stays <= cap + one 8192-byte read (family E kind interim-spam)");
                    Engine E(sh, rep);
                    std::vector<std::pair<Ctx, std::string>> base;
                    const bool wantD = only.find('D') != std::string::npos;
                    if (wantD)
                    {
                      // base set of the mutation family: enumerate A and B with a muted engine (evaluates nothing)
                      vr::Report scratch;
                      vr::Shard none;
                      none.w = -1;
                      Engine M(none, scratch);
                      // (the quick-tier product in both tiers: the thorough tier spends its budget on cuts, not on more bases)
                      familyA(M, false, lim, &base);
                      familyB(M, false, lim, &base);
                    }
                    if (only.find('A') != std::string::npos)
                      familyA(E, thorough, lim, nullptr);
                    if (only.find('B') != std::string::npos)
                      familyB(E, thorough, lim, nullptr);
                    if (only.find('C') != std::string::npos)
                      familyC(E, thorough, lim);
                    if (only.find('E') != std::string::npos)
                      familyE(E, thorough);
                    if (only.find('D') != std::string::npos)
                    {
                      rep.counters["max_mutation_base_streams"] = base.size();
                      familyD(E, thorough, base);
                    }
                  });
  return 0;
}

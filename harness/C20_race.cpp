// C20 part B — symlink swap race, explored exhaustively without threads (level: model_checking).
//
// The lookup (getStatic / getTemplate on the real library) runs in a forked child that is stopped by
// ptrace(2) at EVERY system call entry (PTRACE_SYSCALL + PTRACE_GET_SYSCALL_INFO).  Each stop between the
// BEGIN and END markers whose syscall is not pure memory management / thread plumbing
//     ignored: brk mmap munmap mremap mprotect madvise futex rt_sigprocmask rt_sigaction getpid gettid
//              clock_gettime gettimeofday getrandom sched_yield set_robust_list rseq
// is a numbered *step* of the lookup.  On the unchanged tree the steps are (strace-verified, and
// re-measured on every run into the `sys:<name>` counters):
//     newfstatat   status(candidate)                       std::filesystem::weakly_canonical
//     readlink x N one per path component                  glibc realpath(3) called by fs::canonical —
//                                                          issued from inside libc, hence invisible to
//                                                          symbol interposition (the reason this harness
//                                                          steps at the syscall boundary instead of
//                                                          interposing realpath/stat/open/read)
//     newfstatat   is_regular_file(resolved)
//     openat       readFile: O_RDONLY|O_NOFOLLOW|O_CLOEXEC
//     read x 2, close
//     newfstatat   is_regular_file(resolved + ".gz")  [getStatic]  (+ openat/read/read/close if present)
// Any other syscall that shows up is a step too (and is listed in the counters), so no file-system
// access of the lookup can be missed, whatever wrapper libstdc++/glibc used to reach the kernel.
//
// The attacker is a sequence of 1..2 (thorough: 1..3) *toggles* of one directory entry X between its
// benign state A and a malicious state B, each toggle being ONE atomic rename(2)/renameat2(2) of a
// prepared object, performed by the tracer while the child is stopped immediately before step k
// (swap), j > k (swap back), l > j (swap again).  For every scenario all k and all j are explored:
// that is every interleaving of a 1-2 step attacker with the lookup's syscall sequence.  The
// execution tree is walked by re-execution; after a toggle the lookup's own continuation (its step
// count) is re-measured, so the enumeration is complete also where the swap changes the path taken.
// Third toggles (thorough) are placed only before steps that can observe X (partial-order reduction:
// a toggle commutes with read/close on an open descriptor and with path syscalls on the root or its
// ancestors, because X lies strictly below the canonical root).  The independence claim is checked on
// the fully enumerated levels: a toggle before an independent step must give the same outcome as the
// toggle before the following step (`por_independence_checks`, mismatch = harness-internal violation).
// The lookup observes X at most four times (stat, readlink, stat, open), so 3 alternations from both
// start states realise every combination of "state of X seen by each observation".
//
//   kinds (X, A -> B)
//     leaf-target   X = canonical file T the name resolves to;   regular file -> symlink to SECRET
//     leaf-named    X = the entry named by the last component when that is a symlink (link_in);
//                                                                 inside symlink -> symlink to SECRET
//     gz-leaf       X = T + ".gz" (gzip variant read by getStatic); regular file -> symlink to SECRET
//     dir-exchange  X = real directory on T's canonical path;    directory <-> symlink to outside dir
//     dirlink-swap  X = symlink component inside the name (dirlink_in); -> symlink to outside dir
//   start: A (benign first, attacker swaps in B) or B (malicious first, attacker swaps in A)
//   modes: dir-cached-cold, dir-cached-warm (entry cached by an earlier lookup), dir-perreq, ext
//
// Oracle = part A's: bytes returned (and gzip bytes) are the content of a regular file inside the root.
// The statement's concurrency clause covers the file named by the FINAL path component, so leaf-target,
// leaf-named and gz-leaf are judged; dir-exchange / dirlink-swap (intermediate components — documented
// in assets.hpp l.35-38 as outside v1 scope) are explored and only counted (`residual_*` counters).
#include "C20_common.hpp"
#include "bexh.hpp"
#include <sched.h>
#include <signal.h>
#include <sys/ptrace.h>
#include <sys/syscall.h>
#include <sys/uio.h>
#include <sys/wait.h>

using namespace c20;
using iora::web::Assets;

namespace
{

const unsigned long MARK_BEGIN = 0xC20B, MARK_END = 0xC20E;

bool ignoredSys(long nr)
{
  switch (nr)
  {
  case SYS_brk:
  case SYS_mmap:
  case SYS_munmap:
  case SYS_mremap:
  case SYS_mprotect:
  case SYS_madvise:
  case SYS_futex:
  case SYS_rt_sigprocmask:
  case SYS_rt_sigaction:
  case SYS_getpid:
  case SYS_gettid:
  case SYS_clock_gettime:
  case SYS_gettimeofday:
  case SYS_getrandom:
  case SYS_sched_yield:
  case SYS_set_robust_list:
#ifdef SYS_rseq
  case SYS_rseq:
#endif
    return true;
  }
  return false;
}

std::string sysName(long nr)
{
  switch (nr)
  {
#define N(x)    \
  case SYS_##x: \
    return #x;
    N(newfstatat)
    N(openat) N(read) N(close) N(fstat) N(statx) N(readlinkat) N(getcwd) N(faccessat) N(pread64) N(lseek) N(write)
      N(getdents64) N(fcntl) N(ioctl)
#ifdef SYS_readlink
        N(readlink) N(stat) N(lstat) N(open) N(access)
#endif
#undef N
  }
  return "sys" + std::to_string(nr);
}

// index of the path argument, or -1
int pathArg(long nr)
{
  switch (nr)
  {
  case SYS_newfstatat:
  case SYS_openat:
  case SYS_statx:
  case SYS_readlinkat:
  case SYS_faccessat:
    return 1;
#ifdef SYS_readlink
  case SYS_readlink:
  case SYS_stat:
  case SYS_lstat:
  case SYS_open:
  case SYS_access:
    return 0;
#endif
  }
  return -1;
}

std::string peekString(pid_t pid, unsigned long addr)
{
  std::string out;
  char buf[256];
  for (int round = 0; round < 20; ++round)
  {
    // never cross a page boundary in one read (process_vm_readv fails on the whole iovec otherwise)
    size_t room = 4096 - ((addr + out.size()) & 4095);
    size_t want = room < sizeof buf ? room : sizeof buf;
    struct iovec l = {buf, want}, r = {(void *)(addr + out.size()), want};
    ssize_t n = process_vm_readv(pid, &l, 1, &r, 1, 0);
    if (n <= 0)
      break;
    for (ssize_t i = 0; i < n; ++i)
    {
      if (!buf[i])
        return out;
      out.push_back(buf[i]);
    }
  }
  return out;
}

struct StepRec
{
  long nr = 0;
  long rval = 0;
  std::string path;
  int togglesBefore = 0;
};

struct Run
{
  bool ok = false; // child delivered a result
  bool crashed = false;
  int crashSig = 0;
  Lookup res;
  std::vector<StepRec> steps;
  int togglesDone = 0;
  std::vector<uint64_t> prefixHashes;
};

uint64_t mix(uint64_t h, uint64_t v)
{
  h ^= v + 0x9e3779b97f4a7c15ULL + (h << 6) + (h >> 2);
  h *= 0x100000001b3ULL;
  return h;
}

void putStr(std::string &o, const std::string &s)
{
  uint32_t n = uint32_t(s.size());
  o.append((const char *)&n, 4);
  o += s;
}
bool getStr(const std::string &in, size_t &p, std::string &s)
{
  if (p + 4 > in.size())
    return false;
  uint32_t n;
  memcpy(&n, in.data() + p, 4);
  p += 4;
  if (p + n > in.size())
    return false;
  s.assign(in, p, n);
  p += n;
  return true;
}

// Runs fn() in a traced child; toggle(i) is called by the tracer immediately before step toggleAt[i].
Run runTraced(const std::function<Lookup()> &fn, const std::vector<int> &toggleAt, const std::function<void(int)> &toggle,
              bool wantPaths)
{
  Run run;
  int pfd[2];
  if (pipe(pfd) != 0)
    die("pipe", "");
  fflush(nullptr);
  pid_t pid = fork();
  if (pid < 0)
    die("fork", "");
  if (pid == 0)
  {
    close(pfd[0]);
    if (ptrace(PTRACE_TRACEME, 0, 0, 0) != 0)
      _exit(42);
    raise(SIGSTOP);
    syscall(SYS_write, -1L, nullptr, MARK_BEGIN);
    Lookup l = fn();
    syscall(SYS_write, -1L, nullptr, MARK_END);
    std::string o;
    o.push_back(l.status);
    putStr(o, l.bytes);
    o.push_back(l.hasGz ? 1 : 0);
    putStr(o, l.gz);
    size_t off = 0;
    while (off < o.size())
    {
      ssize_t n = write(pfd[1], o.data() + off, o.size() - off);
      if (n <= 0)
        _exit(43);
      off += size_t(n);
    }
    _exit(0);
  }
  close(pfd[1]);
  int st = 0;
  if (waitpid(pid, &st, 0) != pid || !WIFSTOPPED(st))
  {
    fprintf(stderr, "C20_race: child did not stop (ptrace unavailable?) status=%x\n", st);
    close(pfd[0]);
    return run;
  }
  if (ptrace(PTRACE_SETOPTIONS, pid, 0, PTRACE_O_TRACESYSGOOD | PTRACE_O_EXITKILL) != 0)
    die("PTRACE_SETOPTIONS", "");
  bool in = false, detached = false, lastCounted = false;
  size_t nextToggle = 0;
  uint64_t h = 1469598103934665603ULL;
  long sig = 0;
  for (;;)
  {
    if (ptrace(PTRACE_SYSCALL, pid, 0, sig) != 0)
      break;
    sig = 0;
    if (waitpid(pid, &st, 0) != pid)
      break;
    if (WIFEXITED(st))
      break;
    if (WIFSIGNALED(st))
    {
      run.crashed = true;
      run.crashSig = WTERMSIG(st);
      break;
    }
    if (!WIFSTOPPED(st))
      continue;
    if (WSTOPSIG(st) != (SIGTRAP | 0x80))
    {
      sig = WSTOPSIG(st); // deliver the signal (e.g. SIGSEGV/SIGABRT of a sanitizer)
      continue;
    }
    struct __ptrace_syscall_info info;
    memset(&info, 0, sizeof info);
    if (ptrace(PTRACE_GET_SYSCALL_INFO, pid, sizeof info, &info) <= 0)
      die("PTRACE_GET_SYSCALL_INFO", "");
    if (info.op == PTRACE_SYSCALL_INFO_ENTRY)
    {
      long nr = long(info.entry.nr);
      lastCounted = false;
      if (nr == SYS_write && int(info.entry.args[0]) == -1 && info.entry.args[1] == 0)
      {
        if (info.entry.args[2] == MARK_BEGIN)
          in = true;
        else if (info.entry.args[2] == MARK_END)
        {
          ptrace(PTRACE_DETACH, pid, 0, 0);
          detached = true;
          break;
        }
        continue;
      }
      if (!in || ignoredSys(nr))
        continue;
      int tb = 0;
      while (nextToggle < toggleAt.size() && toggleAt[nextToggle] == int(run.steps.size()))
      {
        toggle(int(nextToggle));
        ++nextToggle;
        ++tb;
        h = mix(h, 0xA77AC0ULL + nextToggle);
      }
      StepRec s;
      s.nr = nr;
      s.togglesBefore = tb;
      if (wantPaths)
      {
        int pa = pathArg(nr);
        if (pa >= 0)
          s.path = peekString(pid, info.entry.args[pa]);
      }
      run.steps.push_back(s);
      lastCounted = true;
    }
    else if (info.op == PTRACE_SYSCALL_INFO_EXIT)
    {
      if (lastCounted && !run.steps.empty())
      {
        StepRec &s = run.steps.back();
        s.rval = long(info.exit.rval);
        long cls = s.rval < 0 ? s.rval : (s.rval == 0 ? 0 : 1); // >0 collapsed: fd numbers / byte counts
        h = mix(mix(h, uint64_t(s.nr)), uint64_t(cls));
        run.prefixHashes.push_back(h);
      }
      lastCounted = false;
    }
  }
  run.togglesDone = int(nextToggle);
  std::string in_;
  char buf[8192];
  ssize_t n;
  while ((n = read(pfd[0], buf, sizeof buf)) > 0)
    in_.append(buf, size_t(n));
  close(pfd[0]);
  if (!detached && !WIFEXITED(st) && !WIFSIGNALED(st))
    kill(pid, SIGKILL);
  if (!(WIFEXITED(st) || WIFSIGNALED(st)) || detached)
  {
    waitpid(pid, &st, 0);
    if (WIFSIGNALED(st))
    {
      run.crashed = true;
      run.crashSig = WTERMSIG(st);
    }
  }
  if (!in_.empty())
  {
    size_t p = 0;
    run.res.status = in_[p++];
    std::string g;
    if (getStr(in_, p, run.res.bytes) && p < in_.size())
    {
      run.res.hasGz = in_[p++] != 0;
      if (getStr(in_, p, run.res.gz))
        run.ok = true;
    }
  }
  return run;
}

// ---- scenarios ------------------------------------------------------------------------------

enum Kind
{
  LEAF_TARGET = 0,
  LEAF_NAMED = 1,
  GZ_LEAF = 2,
  DIR_EXCHANGE = 3,
  DIRLINK_SWAP = 4
};
const char *kindName[] = {"leaf-target", "leaf-named", "gz-leaf", "dir-exchange", "dirlink-swap"};
const char *modeName[] = {"dir-cached-cold", "dir-cached-warm", "dir-perreq", "ext"};
bool residualKind(int k) { return k == DIR_EXCHANGE || k == DIRLINK_SWAP; }

struct Scenario
{
  int mode, op;
  std::string name;
  int kind, sub; // sub: which directory for dir-exchange (0 = parent of T, 1 = grandparent)
  int start;     // 0 = A (benign), 1 = B (malicious)
  std::string text() const
  {
    return std::string("mode=") + modeName[mode] + " op=" + (op == 0 ? "getStatic" : "getTemplate") + " kind=" +
           kindName[kind] + (kind == DIR_EXCHANGE ? std::to_string(sub) : "") + " start=" + (start ? "B" : "A") +
           " name=" + name;
  }
};

// An object that can be (re)created at a path: regular file with content, or symlink with target.
struct Obj
{
  bool isLink = false;
  std::string data; // content or link target
  void make(const std::string &p) const
  {
    if (isLink)
      mkSymlink(data, p);
    else
      writeRaw(p, data);
  }
};

struct Toggler
{
  int kind = 0;
  std::string X, stage;
  Obj A, B;          // file kinds
  std::string xchg;  // dir-exchange: staged counterpart
  bool applicable = false;
  // original layout state of X, restored at the end of the scenario
  int origType = 0; // 0 absent, 1 regular, 2 symlink, 3 directory
  std::string origData;

  bool isB() const
  {
    struct stat st;
    if (::lstat(X.c_str(), &st) != 0)
      return false;
    if (kind == DIR_EXCHANGE)
      return S_ISLNK(st.st_mode);
    if (!S_ISLNK(st.st_mode))
      return false;
    char buf[PATH_MAX];
    ssize_t n = ::readlink(X.c_str(), buf, sizeof buf);
    return n > 0 && std::string(buf, size_t(n)) == B.data;
  }
  void exchange() const
  {
    if (syscall(SYS_renameat2, AT_FDCWD, xchg.c_str(), AT_FDCWD, X.c_str(), RENAME_EXCHANGE) != 0)
      die("renameat2(RENAME_EXCHANGE)", X);
  }
  // Put X into state `start` and stage the objects for up to `maxToggles` toggles.
  void reset(int start, int maxToggles) const
  {
    if (kind == DIR_EXCHANGE)
    {
      if (isB() != (start == 1))
        exchange();
      return;
    }
    ::unlink(X.c_str());
    (start ? B : A).make(X);
    for (int i = 0; i < maxToggles; ++i)
    {
      std::string s = stage + "/tg" + std::to_string(i);
      ::unlink(s.c_str());
      bool toB = ((start + i) % 2) == 0; // from A the first toggle installs B, from B it installs A
      (toB ? B : A).make(s);
    }
  }
  void toggle(int i) const
  {
    if (kind == DIR_EXCHANGE)
    {
      exchange();
      return;
    }
    std::string s = stage + "/tg" + std::to_string(i);
    if (::rename(s.c_str(), X.c_str()) != 0)
      die("rename(staged,X)", X);
  }
  void recordOriginal()
  {
    struct stat st;
    origType = 0;
    if (::lstat(X.c_str(), &st) != 0)
      return;
    if (S_ISLNK(st.st_mode))
    {
      char buf[PATH_MAX];
      ssize_t n = ::readlink(X.c_str(), buf, sizeof buf);
      origType = 2;
      origData.assign(buf, n > 0 ? size_t(n) : 0);
    }
    else if (S_ISREG(st.st_mode))
    {
      origType = 1;
      origData = vr::readFile(X);
    }
    else
      origType = 3;
  }
  void restoreOriginal(int maxToggles) const
  {
    if (kind == DIR_EXCHANGE)
    {
      if (isB())
        exchange();
      return;
    }
    ::unlink(X.c_str());
    if (origType == 1)
      writeRaw(X, origData);
    else if (origType == 2)
      mkSymlink(origData, X);
    for (int i = 0; i < maxToggles; ++i)
      ::unlink((stage + "/tg" + std::to_string(i)).c_str());
  }
};

struct Env
{
  Tree t;
  Alphabet A;
  std::unique_ptr<Assets> cold, warm, perreq;
  bool verbose = false;
  int depth = 2;     // max number of attacker toggles
  int fullDepth = 2; // up to this many toggles: every syscall position; beyond: partial-order reduced
};

std::string dirnameOf(const std::string &p) { return p.substr(0, p.rfind('/')); }

// Builds the toggler of a scenario from the OS view of the benign tree.
Toggler makeToggler(Env &e, const Scenario &sc)
{
  Toggler g;
  g.kind = sc.kind;
  g.stage = e.t.stage;
  const std::string &rootCanon = sc.op == 0 ? e.t.staticRoot : e.t.templRoot;
  std::string T = osRealpath(rootCanon + "/" + sc.name);
  struct stat st;
  if (T.empty() || ::lstat(T.c_str(), &st) != 0 || !S_ISREG(st.st_mode) || !insideCompwise(rootCanon, T))
    return g;
  switch (sc.kind)
  {
  case LEAF_TARGET:
    g.X = T;
    g.A = Obj{false, T};
    g.B = Obj{true, e.t.secret};
    g.applicable = true;
    break;
  case LEAF_NAMED:
  {
    std::string E = rootCanon + "/" + sc.name;
    if (::lstat(E.c_str(), &st) == 0 && S_ISLNK(st.st_mode))
    {
      char buf[PATH_MAX];
      ssize_t n = ::readlink(E.c_str(), buf, sizeof buf);
      g.X = E;
      g.A = Obj{true, std::string(buf, n > 0 ? size_t(n) : 0)};
      g.B = Obj{true, e.t.secret};
      g.applicable = true;
    }
    break;
  }
  case GZ_LEAF:
    if (sc.op == 0)
    {
      g.X = T + ".gz";
      g.A = Obj{false, g.X};
      e.t.contents.insert(g.X); // content of the benign gzip variant == its canonical path (inside)
      g.B = Obj{true, e.t.secret};
      g.applicable = true;
    }
    break;
  case DIR_EXCHANGE:
  {
    std::string P = dirnameOf(T);
    if (sc.sub == 1 && P != rootCanon)
      P = dirnameOf(P);
    if (P != rootCanon && insideCompwise(rootCanon, P))
    {
      // the outside directory must offer the same remainder (a.txt, sub/a.txt ...)
      std::string remainder = T.substr(P.size());
      if (::lstat((e.t.outside + remainder).c_str(), &st) == 0 && S_ISREG(st.st_mode))
      {
        g.X = P;
        g.xchg = e.t.stage + "/xchg";
        ::unlink(g.xchg.c_str());
        mkSymlink(e.t.outside, g.xchg);
        g.applicable = true;
      }
    }
    break;
  }
  case DIRLINK_SWAP:
  {
    // first proper prefix of the name that is a symlink
    std::string cur = rootCanon;
    size_t i = 0;
    for (;;)
    {
      size_t j = sc.name.find('/', i);
      if (j == std::string::npos)
        break; // last component: not an intermediate
      std::string seg = sc.name.substr(i, j - i);
      cur += "/" + seg;
      if (!seg.empty() && ::lstat(cur.c_str(), &st) == 0 && S_ISLNK(st.st_mode))
      {
        char buf[PATH_MAX];
        ssize_t n = ::readlink(cur.c_str(), buf, sizeof buf);
        g.X = cur;
        g.A = Obj{true, std::string(buf, n > 0 ? size_t(n) : 0)};
        g.B = Obj{true, e.t.outside};
        g.applicable = true;
        break;
      }
      i = j + 1;
    }
    break;
  }
  }
  if (g.applicable)
    g.recordOriginal();
  return g;
}

std::string showPath(const Tree &t, const std::string &p)
{
  if (p.compare(0, t.base.size(), t.base) == 0)
    return "{BASE}" + p.substr(t.base.size());
  if (!p.empty() && t.base.compare(0, p.size(), p) == 0 && (t.base.size() == p.size() || t.base[p.size()] == '/'))
    return "{BASE-prefix:" + std::to_string(comps(p).size()) + "}";
  return p;
}

std::string traceText(const Tree &t, const Run &run)
{
  std::string o;
  for (size_t i = 0; i < run.steps.size(); ++i)
  {
    const StepRec &s = run.steps[i];
    for (int k = 0; k < s.togglesBefore; ++k)
      o += " <<TOGGLE>>";
    o += " " + std::to_string(i) + ":" + sysName(s.nr);
    if (!s.path.empty())
      o += "(" + showPath(t, s.path) + ")";
    o += s.rval < 0 ? "=-" + std::to_string(-s.rval) : (s.rval == 0 ? "=0" : "=+");
  }
  return o;
}

struct Explorer
{
  Env &e;
  vr::Report &r;
  const vr::Shard *sh = nullptr;
  const Scenario *sc = nullptr;
  Toggler g;
  std::function<Lookup()> fn;
  std::string rootCanon;
  std::set<uint64_t> states;
  uint64_t runs = 0;
  int maxSteps = 0;
  bool stop = false;

  Run one(const std::vector<int> &at, bool wantPaths)
  {
    g.reset(sc->start, e.depth);
    Run run = runTraced(fn, at, [&](int i) { g.toggle(i); }, wantPaths || e.verbose);
    ++runs;
    ++r.evaluations;
    ++r.traces;
    if (run.togglesDone > 0)
      ++r.distinct_nontrivial;
    ++r.counters["executions_with_toggles:" + std::to_string(run.togglesDone)];
    r.transitions += run.steps.size() + uint64_t(run.togglesDone);
    for (uint64_t h : run.prefixHashes)
      states.insert(h);
    maxSteps = std::max(maxSteps, int(run.steps.size()));
    for (const StepRec &s : run.steps)
      ++r.counters["sys:" + sysName(s.nr)];
    std::string at_;
    for (size_t i = 0; i < at.size(); ++i)
      at_ += (i ? "," : "") + std::to_string(at[i]);
    // `name=` must stay last for parsing: put toggles before it
    std::string kase = sc->text();
    kase.insert(kase.find(" name="), " toggles=" + (at_.empty() ? std::string("-") : at_));
    lastCase = kase;
    if (e.verbose)
      printf("  run toggles=[%s] steps=%zu status=%c bytes=%s%s%s\n   %s\n", at_.c_str(), run.steps.size(), run.res.status,
             vr::jstr(e.t.rel(run.res.bytes)).c_str(), run.res.hasGz ? " gzip=" : "",
             run.res.hasGz ? vr::jstr(e.t.rel(run.res.gz)).c_str() : "", traceText(e.t, run).c_str());
    if (run.crashed || !run.ok)
    {
      r.violation(run.crashed ? "no-crash-no-ub" : "harness-internal", run.crashed ? "crash-in-lookup" : "no-result-from-child",
                  kase, run.crashed ? "lookup child died with signal " + std::to_string(run.crashSig) : "child produced no result");
      lastBad = true;
      return run;
    }
    if (int(at.size()) != run.togglesDone)
      r.violation("harness-internal", "toggle-not-injected", kase, "a scheduled toggle position was never reached");
    ++r.counters[run.res.status == 'F' ? "found" : "refused"];
    Verdict v = judge(e.t, run.res, rootCanon, "");
    lastBad = v.bad;
    if (v.bad)
    {
      std::string before;
      for (size_t i = 0; i < run.steps.size(); ++i)
        for (int k = 0; k < run.steps[i].togglesBefore; ++k)
          before += (before.empty() ? "" : ",") + sysName(run.steps[i].nr);
      // The tree of toggle vectors is walked depth-first, so the violating executions of a scenario are
      // collected and the MINIMAL one (fewest toggles, then smallest positions) is reported at its end.
      Cand c;
      c.at = at;
      c.kase = kase;
      if (residualKind(sc->kind))
      {
        ++r.counters[std::string("residual_outside_content_returned:") + kindName[sc->kind]];
        if (sc->mode == 0 && sc->op == 0 && sc->start == 0 && sc->sub == 0 && sc->name == "sub/a.txt")
        {
          c.detail = std::string("intermediate-component swap (outside the statement's final-component clause; documented "
                                 "residual, assets.hpp l.35-38) returns outside content, minimal example: ") +
                     kase + " (toggle before " + before + "): " + v.detail;
          if (!haveNote || c.better(bestNote))
            bestNote = c;
          haveNote = true;
        }
      }
      else
      {
        ++badRuns;
        std::string last = before.empty() ? "none" : before.substr(before.rfind(',') == std::string::npos ? 0 : before.rfind(',') + 1);
        c.clause = v.clause;
        c.sig = std::string("race:") + (sc->op == 0 ? "getStatic" : "getTemplate") + ":" + modeName[sc->mode] + ":" +
                kindName[sc->kind] + ":start=" + (sc->start ? "B" : "A") + ":toggles=" + std::to_string(run.togglesDone) +
                ":last-toggle-before=" + last + (v.viaGzip ? ":gzip-sidecar" : "") + ":to=" + v.where;
        c.detail = v.detail + " ; trace:" + traceText(e.t, run);
        if (!haveBad || c.better(bestBad))
          bestBad = c;
        haveBad = true;
      }
    }
    return run;
  }
  struct Cand
  {
    std::vector<int> at;
    std::string clause, sig, kase, detail;
    bool better(const Cand &o) const { return at.size() != o.at.size() ? at.size() < o.at.size() : at < o.at; }
  };
  bool lastBad = false;
  bool haveBad = false, haveNote = false;
  Cand bestBad, bestNote;
  uint64_t badRuns = 0;
  std::string lastCase;
  void flush()
  {
    if (haveBad)
    {
      r.violation(bestBad.clause, bestBad.sig, bestBad.kase, bestBad.detail);
      if (badRuns > 1)
        r.counters["further_violating_interleavings"] += badRuns - 1; // same scenario, less simple than the one reported
    }
    if (haveNote)
      r.notes.push_back(bestNote.detail);
  }

  // A step is independent of every toggle (commutes with it) if it cannot observe the toggled entry X:
  //  - read/close on an already open descriptor (a rename never changes an inode's content), or
  //  - a path syscall whose path is the configured root or one of its ancestors (X lies strictly
  //    below the canonical root, so resolving such a path never visits X).
  // Toggling before an independent step k is equivalent to toggling before step k+1.
  bool independent(const StepRec &s) const
  {
    if (s.nr == SYS_read || s.nr == SYS_close)
      return true;
    if (s.path.empty() || s.path[0] != '/')
      return false;
    std::vector<std::string> pc = comps(s.path), rc = comps(rootCanon);
    if (pc.size() > rc.size())
      return false;
    for (size_t i = 0; i < pc.size(); ++i)
      if (pc[i] != rc[i])
        return false;
    return true;
  }

  // Levels 1..fullDepth: a toggle before EVERY step.  Levels above: only vectors whose positions all
  // precede dependent steps (sound by commutation; the independence claim itself is cross-checked on
  // the full levels: a toggle before an independent step must give the same outcome as before the next).
  void rec(std::vector<int> &at, std::vector<char> &dep, const Run &parent)
  {
    int level = int(at.size()) + 1;
    if (level > e.depth)
      return;
    bool reduced = level > e.fullDepth;
    if (reduced)
      for (char d : dep)
        if (!d)
          return;
    int from = at.empty() ? 0 : at.back() + 1;
    bool havePrev = false, prevIndep = false;
    Lookup prev;
    for (int k = from; k < int(parent.steps.size()) && !stop; ++k)
    {
      if (sh && sh->timeUp())
      {
        stop = true;
        r.exhaustive = false;
        r.notes.push_back("deadline reached: exploration stopped early");
        return;
      }
      bool indep = independent(parent.steps[size_t(k)]);
      if (reduced && indep)
      {
        ++r.counters["por_pruned_positions"];
        havePrev = false;
        continue;
      }
      at.push_back(k);
      dep.push_back(indep ? 0 : 1);
      Run run = one(at, true);
      if (havePrev && prevIndep)
      {
        ++r.counters["por_independence_checks"];
        if (prev.status != run.res.status || prev.bytes != run.res.bytes || prev.hasGz != run.res.hasGz || prev.gz != run.res.gz)
          r.violation("harness-internal", "por-independence-broken", lastCase,
                      "toggle before an 'independent' step gave a different outcome than before the next step");
      }
      rec(at, dep, run);
      at.pop_back();
      dep.pop_back();
      havePrev = true;
      prevIndep = indep;
      prev = run.res;
    }
  }
};

void setupEnv(Env &e, const std::string &baseDir)
{
  e.t.build(baseDir, 2);
  e.cold.reset(new Assets(Assets::fromDirectory(e.t.root)));
  e.warm.reset(new Assets(Assets::fromDirectory(e.t.root)));
  e.perreq.reset(new Assets(Assets::fromDirectory(e.t.root, true)));
  // warm-up: first SHA-256 initialises libcrypto (reads openssl.cnf ...); keep that out of the traces
  writeRaw(e.t.staticRoot + "/warmup.bin", "warmup");
  Assets w = Assets::fromDirectory(e.t.root, true);
  doGetStatic(w, "warmup.bin");
  ::unlink((e.t.staticRoot + "/warmup.bin").c_str());
}

std::vector<Scenario> scenarios(bool thorough)
{
  std::vector<std::string> names = {"a.txt", "sub/a.txt", "link_in", "dirlink_in/a.txt", "./sub//a.txt"};
  if (thorough)
  {
    names.push_back("sub/link_in");
    names.push_back("sub/sub/a.txt");
    names.push_back(".../a.txt");
    names.push_back("dirlink_in/link_in");
    names.push_back("sub/dirlink_in/sub/a.txt");
  }
  std::vector<Scenario> out;
  for (const std::string &n : names)
    for (int op = 0; op < 2; ++op)
      for (int mode = 0; mode < 4; ++mode)
      {
        if (mode == 3 && op == 1)
          continue; // embedded getTemplate never touches the file system
        for (int kind = 0; kind < 5; ++kind)
          for (int sub = 0; sub < (kind == DIR_EXCHANGE && thorough ? 2 : 1); ++sub)
            for (int start = 0; start < 2; ++start)
              out.push_back(Scenario{mode, op, n, kind, sub, start});
      }
  return out;
}

// Explores one scenario completely.  Returns false if it is not applicable to the tree.
bool exploreScenario(Env &e, vr::Report &r, const vr::Shard *sh, const Scenario &sc, const std::vector<int> *only)
{
  Explorer x{e, r};
  x.sh = sh;
  x.sc = &sc;
  x.g = makeToggler(e, sc);
  if (!x.g.applicable)
    return false;
  if (sc.kind == DIR_EXCHANGE && sc.sub == 1 && x.g.X == makeToggler(e, Scenario{sc.mode, sc.op, sc.name, sc.kind, 0, sc.start}).X)
    return false; // grandparent == parent case already covered
  x.rootCanon = sc.op == 0 ? e.t.staticRoot : e.t.templRoot;
  std::unique_ptr<ExtRegistry> er;
  std::unique_ptr<Assets> ext;
  Assets *a = nullptr;
  switch (sc.mode)
  {
  case 0:
    a = e.cold.get();
    break;
  case 1:
    a = e.warm.get();
    break;
  case 2:
    a = e.perreq.get();
    break;
  default:
    er.reset(new ExtRegistry(e.t.staticRoot, sc.name));
    ext.reset(new Assets(Assets::fromEmbedded(er->reg)));
    a = ext.get();
  }
  const std::string name = sc.name;
  const int op = sc.op;
  x.fn = [a, name, op]() { return op == 0 ? doGetStatic(*a, name) : doGetTemplate(*a, name); };
  if (sc.mode == 1)
  {
    x.g.reset(0, e.depth); // benign
    Lookup l = x.fn();     // populate the cache in this (parent) process; children inherit it
    if (l.status != 'F')
      ++r.counters["vacuous_warmup_refused"]; // refusal is always acceptable; only counted (0 = non-vacuous)
  }
  if (only)
  {
    Run run = x.one(*only, true);
    (void)run;
  }
  else
  {
    Run base = x.one({}, true);
    if (sc.start == 0 && base.res.status != 'F')
      ++r.counters["vacuous_benign_baseline_refused"]; // refusal is always acceptable; only counted (0 = non-vacuous)
    if (r.samples.size() < r.max_samples && sc.kind == LEAF_TARGET && sc.start == 0 && sc.name == "sub/a.txt")
    {
      Run logged = x.one({}, true);
      r.sample(sc.text() + " baseline trace:" + traceText(e.t, logged));
    }
    std::vector<int> at;
    std::vector<char> dep;
    x.rec(at, dep, base);
  }
  x.flush();
  x.g.restoreOriginal(e.depth);
  if (sc.mode == 1)
    e.warm->reload();
  r.states += x.states.size();
  std::string key = std::string(sc.op == 0 ? "getStatic " : "getTemplate ") + sc.name;
  r.counters["interleavings:" + key] += x.runs;
  uint64_t &ms = r.counters["max_steps:" + key];
  ms = std::max<uint64_t>(ms, uint64_t(x.maxSteps));
  uint64_t &mk = r.counters[std::string("max_steps_kind:") + kindName[sc.kind]];
  mk = std::max<uint64_t>(mk, uint64_t(x.maxSteps));
  ++r.counters["scenarios"];
  ++r.counters[std::string("scenarios:") + kindName[sc.kind]];
  if (x.lastBad && only)
    return true;
  return true;
}


} // namespace

int main(int argc, char **argv)
{
  vr::Args args(argc, argv);
  const int depth = int(args.getInt("depth", args.thorough() ? 3 : 2));
  const int fullDepth = int(args.getInt("full-depth", 2));
  const double deadline = double(args.getInt("deadline", 0));
  const std::string scratch = scratchRoot(args) + "/" + std::to_string(getpid());

  if (!args.replay.empty())
  {
    std::string kase = vr::readFile(args.replay);
    auto field = [&](const std::string &k) -> std::string
    {
      size_t p = kase.find(k + "=");
      if (p == std::string::npos)
        return "";
      size_t q = kase.find(' ', p);
      return kase.substr(p + k.size() + 1, q == std::string::npos ? std::string::npos : q - p - k.size() - 1);
    };
    size_t pn = kase.find(" name=");
    if (pn == std::string::npos)
    {
      fprintf(stderr, "unparsable case\n");
      return 2;
    }
    Scenario sc{0, 0, kase.substr(pn + 6), 0, 0, 0};
    std::string m = field("mode"), o = field("op"), k = field("kind"), s = field("start"), tg = field("toggles");
    for (int i = 0; i < 4; ++i)
      if (m == modeName[i])
        sc.mode = i;
    sc.op = o == "getStatic" ? 0 : 1;
    for (int i = 0; i < 5; ++i)
      if (k.rfind(kindName[i], 0) == 0)
      {
        sc.kind = i;
        if (k.size() > strlen(kindName[i]))
          sc.sub = atoi(k.c_str() + strlen(kindName[i]));
      }
    sc.start = s == "B" ? 1 : 0;
    std::vector<int> at;
    if (tg != "-" && !tg.empty())
    {
      size_t i = 0;
      while (i < tg.size())
      {
        at.push_back(atoi(tg.c_str() + i));
        size_t c = tg.find(',', i);
        if (c == std::string::npos)
          break;
        i = c + 1;
      }
    }
    Env e;
    e.verbose = true;
    e.depth = std::max<int>(depth, int(at.size()));
    setupEnv(e, scratch + "/replay");
    vr::Report r("C20_race", "model_checking");
    printf("replay %s\n", vr::jstr(kase).c_str());
    bool app = exploreScenario(e, r, nullptr, sc, &at);
    if (!app)
      printf("scenario not applicable to the tree\n");
    for (const vr::Violation &v : r.violations)
      printf("  %s / %s : %s\n", v.clause.c_str(), v.sig.c_str(), v.detail.c_str());
    for (const std::string &n : r.notes)
      printf("  note: %s\n", n.c_str());
    printf("%s\n", r.violation_total ? "VIOLATION reproduced" : "no violation");
    rmTree(scratch);
    return r.violation_total ? 1 : 0;
  }

  mkdirP(scratch);
  const std::vector<Scenario> all = scenarios(args.thorough());
  vr::run_sharded(
    args, "C20_race", "model_checking", 120.0, deadline,
    [&](const vr::Shard &sh, vr::Report &r)
    {
      // tracer and tracee alternate strictly (ptrace ping-pong): keeping both on one CPU turns every
      // hand-over into a local context switch instead of a cross-CPU wake-up
      if (!args.kv.count("no-pin"))
      {
        long ncpu = sysconf(_SC_NPROCESSORS_ONLN);
        cpu_set_t cs;
        CPU_ZERO(&cs);
        CPU_SET(int((long(sh.w) * (ncpu > 0 ? ncpu : 1)) / sh.W), &cs);
        sched_setaffinity(0, sizeof cs, &cs);
      }
      Env e;
      e.depth = depth;
      e.fullDepth = fullDepth;
      setupEnv(e, scratch + "/w" + std::to_string(sh.w));
      r.rule = "executions in which at least one attacker toggle was injected between two system calls of the lookup "
               "(every execution except the per-scenario baseline)";
      r.bounds["attacker"] = "alternating atomic toggles (rename / renameat2 RENAME_EXCHANGE) of ONE directory entry, 1.." +
                             std::to_string(depth) + " toggles; up to " + std::to_string(std::min(depth, fullDepth)) +
                             " toggles at every syscall position of the lookup" +
                             (depth > fullDepth ? ", more toggles only at positions before steps that can observe the entry "
                                                  "(partial-order reduction; independent steps: read/close, path syscalls on the "
                                                  "root or its ancestors)"
                                                : "");
      r.bounds["scheduling_points"] = "every syscall entry of the lookup (ptrace), except brk/mmap/munmap/mremap/mprotect/"
                                      "madvise/futex/rt_sig*/getpid/gettid/clock_gettime/gettimeofday/getrandom/sched_yield/"
                                      "set_robust_list/rseq";
      r.bounds["kinds"] = "leaf-target, leaf-named, gz-leaf (judged); dir-exchange, dirlink-swap (intermediate: counted only)";
      r.bounds["modes"] = "dir-cached-cold, dir-cached-warm, dir-perreq, ext";
      r.bounds["start_states"] = "A (benign), B (malicious)";
      std::string ns;
      std::set<std::string> seenN;
      for (const Scenario &s : all)
        if (seenN.insert(s.name).second)
          ns += (ns.empty() ? "" : " ") + s.name;
      r.bounds["names"] = ns;
      for (uint64_t i = 0; i < all.size(); ++i)
      {
        if (!sh.mine(i))
          continue;
        if (sh.timeUp())
        {
          r.exhaustive = false;
          r.notes.push_back("deadline reached: exploration stopped early");
          break;
        }
        sh.begin(i, all[i].text());
        if (!exploreScenario(e, r, &sh, all[i], nullptr))
          ++r.counters["scenarios_not_applicable"];
        sh.end();
      }
      e.cold.reset();
      e.warm.reset();
      e.perreq.reset();
      rmTree(e.t.base);
    });
  rmTree(scratch);
  ::rmdir(scratchRoot(args).c_str());
  return 0;
}

// C17: the HTTP client transmits a non-idempotent request at most once.
//
// Real code under test: iora::network::HttpClient (performRequest retry loop, executeRequest, connection
// reuse / eviction) with its own Transport and TcpEngine on the rt/simk kernel.  The server is a script
// on simulated sockets (a harness thread with its own simulated epoll loop) that, per connection
// attempt, applies one fault from an enumerated plan and counts, per logical request, the connections
// on which any byte of it arrived.
//
// Enumerated (free choices): method x retry budget x fault of attempt 1 (kind x position: every byte
// offset of the request / of the response in thorough, {0,1,mid,len-1,len} in quick) x fault of attempt 2
// (reduced menu in quick); sequences of two requests on a kept-alive connection with a close signal /
// surplus / failure in between; two concurrent callers on one client.
//
// Oracle clauses:
//   at-most-once        non-idempotent method: at most ONE attempt put >= 1 byte on the wire
//   attempt-budget      idempotent method: at most budget+1 attempts (connections opened or refused)
//   framing-not-retried a deterministic framing error (malformed status line, Content-Length together with
//                       Transfer-Encoding, two different Content-Length) is reported after exactly one attempt
//   no-reuse-after-fault a connection that saw a failure, a close signal or surplus bytes never carries a later request
//   bounded-wait        an attempt against a silent peer fails no later than connect + request timeout (virtual time)
//   no-interleaving     bytes of concurrent callers never interleave on one connection
//   result-truthful     success is returned only if some attempt delivered a complete well-formed response
#include "mc.h"
#include "simk.h"
#include <iora/network/http_client.hpp>

#include <arpa/inet.h>
#include <netinet/in.h>
#include <sys/epoll.h>
#include <sys/socket.h>
#include <unistd.h>

#include <map>
#include <sstream>
#include <thread>

using namespace iora::network;

namespace
{
sockaddr_in addr(const char *ip, uint16_t port)
{
  sockaddr_in a{};
  a.sin_family = AF_INET;
  a.sin_port = htons(port);
  inet_pton(AF_INET, ip, &a.sin_addr);
  return a;
}

enum FaultKind
{
  FK_OK = 0,          // read the request, send a proper response
  FK_REFUSE,          // connect refused (asynchronously)
  FK_BLACKHOLE,       // connect never completes (connect timeout)
  FK_RST_AFTER_P,     // read exactly p request bytes, then RST          (pos = p)
  FK_FIN_AFTER_P,     // read exactly p request bytes, then FIN
  FK_RESP_CUT_RST,    // full request, first q response bytes, then RST   (pos = q)
  FK_RESP_CUT_FIN,    // full request, first q response bytes, then FIN
  FK_MALFORMED_STATUS, // full request, "HTP/1.1 200 OK" status line
  FK_CL_AND_TE,       // full request, Content-Length together with Transfer-Encoding: chunked
  FK_TWO_CL,          // full request, two different Content-Length fields
  FK_SILENCE,         // full request, then nothing (request timeout)
  FK_SURPLUS,         // proper response followed by surplus bytes
  FK_CONN_CLOSE,      // proper response with Connection: close (server keeps the socket open)
  FK_HTTP10,          // HTTP/1.0 response without keep-alive
  FK_SECOND_REQ_DROP, // first request on the connection answered properly; the SECOND complete request is read in full and the
                      // connection is then closed without a byte of response (pos: 0 = FIN, 1 = RST) - a reused keep-alive connection dying
  FK_FRAMING_X,       // full request, one of the malformed responses in FRAMING_X (pos = variant): each is a deterministic
                      // framing/parse violation of the response, whatever the client calls it internally
  FK_KINDS,
  FK_BIG_BODY = FK_KINDS // NOT in the general menu: a proper response whose 300-byte body exceeds the (shrunk) synchronous receive
                         // buffer of the client's transport - used only by the scenario sync_buffer_overflow
};
const char *faultName(int k)
{
  static const char *n[] = {"ok", "refuse", "blackhole", "rst@req", "fin@req", "rst@resp", "fin@resp", "bad-status", "cl+te", "two-cl", "silence", "surplus", "conn-close", "http10", "second-req-drop", "framing-x", "big-body"};
  return n[k];
}
struct Fault
{
  int kind = FK_OK;
  int pos = 0;
};

const std::string RESP_OK = "HTTP/1.1 200 OK\r\nContent-Length: 2\r\n\r\nhi";

struct FramingX
{
  const char *name;
  const char *wire;
};
const FramingX FRAMING_X[] = {
  {"unsupported-version", "HTTP/2.0 200 OK\r\nContent-Length: 2\r\n\r\nhi"},
  {"status-code-not-numeric", "HTTP/1.1 2x0 OK\r\nContent-Length: 2\r\n\r\nhi"},
  {"obs-fold", "HTTP/1.1 200 OK\r\nX-A: 1\r\n folded\r\nContent-Length: 2\r\n\r\nhi"},
  {"header-without-colon", "HTTP/1.1 200 OK\r\nBadHeaderLine\r\nContent-Length: 2\r\n\r\nhi"},
  {"content-length-garbage", "HTTP/1.1 200 OK\r\nContent-Length: 2x\r\n\r\nhi"},
  {"content-length-list-differs", "HTTP/1.1 200 OK\r\nContent-Length: 2, 3\r\n\r\nhi!"},
  {"content-length-empty", "HTTP/1.1 200 OK\r\nContent-Length: \r\n\r\nhi"},
  {"chunk-size-garbage", "HTTP/1.1 200 OK\r\nTransfer-Encoding: chunked\r\n\r\nzz\r\nhi\r\n0\r\n\r\n"},
};
const int N_FRAMING_X = int(sizeof FRAMING_X / sizeof FRAMING_X[0]);

struct Conn
{
  int fd = -1;
  int ordinal = 0; // accepted-connection ordinal (1-based)
  std::string in;  // everything received
  Fault fault;
  bool faulted = false; // saw a failure / close signal / surplus: must not be reused
  bool closed = false;
  size_t requestsSeen = 0; // complete requests parsed so far
  size_t answered = 0;
};

struct Server
{
  int lfd = -1, ep = -1;
  std::vector<Conn> conns;
  std::vector<Fault> plan;      // fault per ACCEPTED connection ordinal (refuse/blackhole handled by simk)
  size_t nextPlan = 0;
  bool stop = false;
  std::string violation, violationSig, violationClause;
  int evfd = -1;
  // per logical request id (header X-Req): set of connection ordinals that carried >= 1 byte of it
  std::map<std::string, std::set<int>> carriedOn;
};

// number of complete requests in a byte stream + detection of interleaving (each request must be a clean
// "METHOD path HTTP/1.1 ... \r\n\r\n [body of Content-Length]" unit)
size_t completeRequests(const std::string &s, std::vector<std::string> *ids, bool *malformed)
{
  size_t pos = 0, n = 0;
  while (pos < s.size())
  {
    size_t he = s.find("\r\n\r\n", pos);
    if (he == std::string::npos)
      break;
    std::string head = s.substr(pos, he - pos);
    size_t sp = head.find(' ');
    std::string m = head.substr(0, sp == std::string::npos ? 0 : sp);
    if (m != "GET" && m != "POST" && m != "PUT" && m != "PATCH" && m != "DELETE" && m != "HEAD")
    {
      if (malformed)
        *malformed = true;
      return n;
    }
    size_t cl = 0;
    size_t c = head.find("Content-Length: ");
    if (c != std::string::npos)
      cl = size_t(atoi(head.c_str() + c + 16));
    if (he + 4 + cl > s.size())
      break;
    if (ids)
    {
      size_t x = head.find("X-Req: ");
      ids->push_back(x == std::string::npos ? "?" : head.substr(x + 7, head.find("\r\n", x) == std::string::npos ? std::string::npos : head.find("\r\n", x) - x - 7));
    }
    ++n;
    pos = he + 4 + cl;
  }
  return n;
}

void serverCloseConn(Server &sv, Conn &c, bool rst)
{
  if (c.closed)
    return;
  if (rst)
  {
    struct linger l = {1, 0};
    ::setsockopt(c.fd, SOL_SOCKET, SO_LINGER, &l, sizeof l);
  }
  ::epoll_ctl(sv.ep, EPOLL_CTL_DEL, c.fd, nullptr);
  ::close(c.fd);
  c.closed = true;
  c.faulted = true;
}

void note(Server &sv, const char *clause, const std::string &sig, const std::string &detail)
{
  if (sv.violation.empty())
  {
    sv.violationClause = clause;
    sv.violationSig = sig;
    sv.violation = detail;
  }
}

void serverOnReadable(Server &sv, Conn &c)
{
  // read according to the fault: some faults read an exact number of bytes
  for (;;)
  {
    size_t want = 4096;
    if ((c.fault.kind == FK_RST_AFTER_P || c.fault.kind == FK_FIN_AFTER_P) && c.requestsSeen == 0)
    {
      if (c.in.size() >= size_t(c.fault.pos))
        break;
      want = size_t(c.fault.pos) - c.in.size();
    }
    char b[4096];
    ssize_t r = ::recv(c.fd, b, want, 0);
    if (r > 0)
    {
      size_t before = c.in.size();
      c.in.append(b, size_t(r));
      // which logical request do these bytes belong to?  (the X-Req header may not be complete yet:
      // attribute to the request whose bytes are in flight = index requestsSeen on this connection)
      (void)before;
    }
    else
    {
      if (r == 0 && !c.closed)
      {
        ::epoll_ctl(sv.ep, EPOLL_CTL_DEL, c.fd, nullptr);
        ::close(c.fd);
        c.closed = true;
      }
      break;
    }
  }
  if (c.closed)
    return;
  if (c.faulted && completeRequests(c.in, nullptr, nullptr) > c.answered)
  {
    note(sv, "no-reuse-after-fault", std::string("request-on-connection-after:") + faultName(c.fault.kind),
         "a later request arrived on connection #" + std::to_string(c.ordinal) + " which had seen '" + faultName(c.fault.kind) + "'");
  }
  if ((c.fault.kind == FK_RST_AFTER_P || c.fault.kind == FK_FIN_AFTER_P) && c.requestsSeen == 0 && c.in.size() >= size_t(c.fault.pos))
  {
    serverCloseConn(sv, c, c.fault.kind == FK_RST_AFTER_P);
    return;
  }
  bool mal = false;
  size_t n = completeRequests(c.in, nullptr, &mal);
  if (mal)
    note(sv, "no-interleaving", "request-stream-not-well-formed", "connection #" + std::to_string(c.ordinal) + " carried bytes that are not a sequence of well-formed requests: '" + c.in.substr(0, 120) + "'");
  while (c.answered < n && !c.closed)
  {
    c.requestsSeen = n;
    // only the FIRST request on a connection gets the planned fault; later ones get a proper response
    int k = c.answered == 0 ? c.fault.kind : FK_OK;
    if (c.fault.kind == FK_SECOND_REQ_DROP)
    {
      if (c.answered == 0)
        k = FK_OK;
      else
      {
        c.answered++;
        serverCloseConn(sv, c, c.fault.pos == 1);
        return;
      }
    }
    std::string out;
    bool closeAfter = false, rst = false;
    switch (k)
    {
    case FK_OK:
      out = RESP_OK;
      break;
    case FK_RESP_CUT_RST:
    case FK_RESP_CUT_FIN:
      out = RESP_OK.substr(0, size_t(c.fault.pos));
      closeAfter = true;
      rst = k == FK_RESP_CUT_RST;
      break;
    case FK_MALFORMED_STATUS:
      out = "HTP/1.1 200 OK\r\nContent-Length: 2\r\n\r\nhi";
      c.faulted = true;
      break;
    case FK_CL_AND_TE:
      out = "HTTP/1.1 200 OK\r\nContent-Length: 2\r\nTransfer-Encoding: chunked\r\n\r\n2\r\nhi\r\n0\r\n\r\n";
      c.faulted = true;
      break;
    case FK_TWO_CL:
      out = "HTTP/1.1 200 OK\r\nContent-Length: 2\r\nContent-Length: 3\r\n\r\nhi!";
      c.faulted = true;
      break;
    case FK_SILENCE:
      c.faulted = true;
      break;
    case FK_SURPLUS:
      out = RESP_OK + "SURPLUS";
      c.faulted = true;
      break;
    case FK_CONN_CLOSE:
      out = "HTTP/1.1 200 OK\r\nConnection: close\r\nContent-Length: 2\r\n\r\nhi";
      c.faulted = true;
      break;
    case FK_HTTP10:
      out = "HTTP/1.0 200 OK\r\nContent-Length: 2\r\n\r\nhi";
      c.faulted = true;
      break;
    case FK_FRAMING_X:
      out = FRAMING_X[c.fault.pos % N_FRAMING_X].wire;
      c.faulted = true;
      break;
    case FK_BIG_BODY:
      out = "HTTP/1.1 200 OK\r\nContent-Length: 300\r\n\r\n" + std::string(300, 'x');
      c.faulted = true;
      break;
    }
    if (!out.empty())
      ::send(c.fd, out.data(), out.size(), 0);
    c.answered++;
    if (closeAfter)
      serverCloseConn(sv, c, rst);
  }
}

void serverLoop(Server &sv)
{
  mc_label("server");
  epoll_event evs[8];
  while (!sv.stop)
  {
    int n = ::epoll_wait(sv.ep, evs, 8, -1);
    for (int i = 0; i < n; ++i)
    {
      int fd = evs[i].data.fd;
      if (fd == sv.evfd)
      {
        uint64_t v;
        (void)!::read(sv.evfd, &v, 8);
        continue;
      }
      if (fd == sv.lfd)
      {
        for (;;)
        {
          int cfd = ::accept4(sv.lfd, nullptr, nullptr, SOCK_NONBLOCK);
          if (cfd < 0)
            break;
          Conn c;
          c.fd = cfd;
          c.ordinal = int(sv.conns.size()) + 1;
          c.fault = sv.nextPlan < sv.plan.size() ? sv.plan[sv.nextPlan] : Fault{};
          sv.nextPlan++;
          sv.conns.push_back(c);
          simk_set_rcvbuf(cfd, 8192);
          epoll_event e{};
          e.events = EPOLLIN;
          e.data.fd = cfd;
          ::epoll_ctl(sv.ep, EPOLL_CTL_ADD, cfd, &e);
          Conn &cc = sv.conns.back();
          if ((cc.fault.kind == FK_RST_AFTER_P || cc.fault.kind == FK_FIN_AFTER_P) && cc.fault.pos == 0)
            serverCloseConn(sv, cc, cc.fault.kind == FK_RST_AFTER_P);
        }
        continue;
      }
      for (auto &c : sv.conns)
        if (c.fd == fd && !c.closed)
          serverOnReadable(sv, c);
    }
  }
  mc_label("server:done");
}

void serverStart(Server &sv, std::thread &th)
{
  sv.conns.reserve(16);
  sv.lfd = ::socket(AF_INET, SOCK_STREAM | SOCK_NONBLOCK, 0);
  sockaddr_in a = addr("127.0.0.1", 8080);
  ::bind(sv.lfd, (sockaddr *)&a, sizeof a);
  ::listen(sv.lfd, 16);
  sv.ep = ::epoll_create1(0);
  sv.evfd = ::eventfd(0, EFD_NONBLOCK);
  epoll_event e{};
  e.events = EPOLLIN;
  e.data.fd = sv.lfd;
  ::epoll_ctl(sv.ep, EPOLL_CTL_ADD, sv.lfd, &e);
  e.data.fd = sv.evfd;
  ::epoll_ctl(sv.ep, EPOLL_CTL_ADD, sv.evfd, &e);
  th = std::thread([&sv]() { serverLoop(sv); });
}
void serverStop(Server &sv, std::thread &th)
{
  sv.stop = true;
  uint64_t one = 1;
  (void)!::write(sv.evfd, &one, 8);
  th.join();
  for (auto &c : sv.conns)
    if (!c.closed)
      ::close(c.fd);
  ::close(sv.lfd);
  ::close(sv.ep);
  ::close(sv.evfd);
}

const char *METHODS[] = {"GET", "POST", "PUT", "PATCH", "DELETE"};
bool idempotent(const std::string &m) { return m == "GET" || m == "PUT" || m == "DELETE" || m == "HEAD"; }

struct CallResult
{
  bool ok = false;
  int status = 0;
  std::string error;
  bool framingError = false;
  uint64_t durNs = 0;
};

CallResult doCall(HttpClient &cl, const std::string &method, const std::string &id, int retries)
{
  CallResult r;
  uint64_t t0 = mc_now_ns(), d0 = mc_deviation_ns();
  std::map<std::string, std::string> h{{"X-Req", id}};
  std::string url = "http://127.0.0.1:8080/x";
  try
  {
    HttpClient::Response resp;
    if (method == "GET")
      resp = cl.get(url, h, retries);
    else if (method == "POST")
      resp = cl.post(url, "body", h, retries);
    else if (method == "DELETE")
      resp = cl.deleteRequest(url, h, retries);
    else
      resp = cl.performRequest(method, url, "body", h, retries); // PUT / PATCH (private helper; -fno-access-control)
    r.ok = true;
    r.status = resp.statusCode;
  }
  catch (const HttpFramingError &e)
  {
    r.framingError = true;
    r.error = e.what();
  }
  catch (const std::exception &e)
  {
    r.error = e.what();
  }
  r.durNs = (mc_now_ns() - t0) - (mc_deviation_ns() - d0);
  return r;
}

int requestLen(const std::string &method)
{
  // length of the request the client builds (Host, User-Agent, Connection, X-Req, optional body)
  std::string body = method == "GET" || method == "DELETE" ? "" : "body";
  std::ostringstream rq;
  rq << method << " /x HTTP/1.1\r\nHost: 127.0.0.1\r\nUser-Agent: Iora-HttpClient/1.0\r\nConnection: keep-alive\r\nX-Req: r1\r\n";
  if (!body.empty())
    rq << "Content-Length: " << body.size() << "\r\n";
  rq << "\r\n" << body;
  return int(rq.str().size());
}

int choosePos(int len, bool allPositions)
{
  if (!allPositions)
  {
    int idx = mc_choose(5, MC_FREE);
    int opts[5] = {0, 1, len / 2, len - 1, len};
    return opts[idx];
  }
  // every position 0..len as a two-level free choice (the recorder caps a point at 20 options)
  int tens = mc_choose(len / 16 + 1, MC_FREE);
  int ones = mc_choose(16, MC_FREE);
  int p = tens * 16 + ones;
  return p > len ? len : p;
}

Fault chooseFault(int menu, int reqLen, bool allPositions)
{
  // menu 0: full, menu 1: reduced {ok, refuse, rst after full request}
  Fault f;
  if (menu == 1)
  {
    int k = mc_choose(3, MC_FREE);
    f.kind = k == 0 ? FK_OK : k == 1 ? FK_REFUSE : FK_RST_AFTER_P;
    f.pos = reqLen;
    return f;
  }
  f.kind = mc_choose(FK_KINDS - 1, MC_FREE); // every kind except FK_SECOND_REQ_DROP (meaningful only on a reused connection)
  if (f.kind >= FK_SECOND_REQ_DROP)
    f.kind++;
  if (f.kind == FK_RST_AFTER_P || f.kind == FK_FIN_AFTER_P)
    f.pos = choosePos(reqLen, allPositions);
  else if (f.kind == FK_RESP_CUT_RST || f.kind == FK_RESP_CUT_FIN)
    f.pos = choosePos(int(RESP_OK.size()) - 1, allPositions);
  else if (f.kind == FK_FRAMING_X)
    f.pos = mc_choose(N_FRAMING_X, MC_FREE);
  return f;
}

std::unique_ptr<HttpClient> makeClient()
{
  HttpClient::Config cfg;
  cfg.connectTimeout = std::chrono::milliseconds(100);
  cfg.requestTimeout = std::chrono::milliseconds(200);
  cfg.reuseConnections = true;
  return std::make_unique<HttpClient>(cfg);
}

// ---------------------------------------------------------------- single request under a fault plan
void single(bool allPositions, int secondMenu)
{
  mc_label("main:single");
  simk_cfg.tcpRcvBuf = 8192;
  simk_cfg.shortIo = false;
  mc_set_sleep_quantum(1000000000ull); // back-off sleeps (100..499 ms + random jitter) all become 1 s
  std::string method = METHODS[mc_choose(5, MC_FREE)];
  int retries = mc_choose(3, MC_FREE);
  int rl = requestLen(method);
  Fault f1 = chooseFault(0, rl, allPositions);
  Fault f2 = retries >= 1 ? chooseFault(secondMenu, rl, false) : Fault{};
  Fault f3{};
  Server sv;
  // connect-level faults are injected in simk in attempt order; accepted connections take the remaining plan
  std::vector<Fault> attempts{f1, f2, f3};
  std::vector<int> script;
  for (auto &f : attempts)
  {
    if (f.kind == FK_REFUSE)
      script.push_back(SIMK_REFUSE_ASYNC);
    else if (f.kind == FK_BLACKHOLE)
      script.push_back(SIMK_BLACKHOLE);
    else
    {
      script.push_back(0);
      sv.plan.push_back(f);
    }
  }
  simk_connect_script(8080, script.data(), int(script.size()));
  std::thread th;
  serverStart(sv, th);
  auto cl = makeClient();
  CallResult r = doCall(*cl, method, "r1", retries);
  mc_quiesce(50ull * 1000000ull);
  serverStop(sv, th);
  // ---- oracle ----
  std::string plan = method + " retries=" + std::to_string(retries) + " [" + faultName(f1.kind) + "@" + std::to_string(f1.pos) + "," + faultName(f2.kind) + "@" + std::to_string(f2.pos) + "]";
  mc_obs("%s -> %s %d %s", plan.c_str(), r.ok ? "ok" : (r.framingError ? "framing-error" : "error"), r.status, r.error.substr(0, 60).c_str());
  if (!sv.violation.empty())
    mc_violation(sv.violationClause.c_str(), sv.violationSig, sv.violation + " (" + plan + ")");
  int wireAttempts = 0, conns = int(sv.conns.size());
  for (auto &c : sv.conns)
    if (!c.in.empty())
      ++wireAttempts;
  int connectFaults = 0;
  for (auto &f : attempts)
    if (f.kind == FK_REFUSE || f.kind == FK_BLACKHOLE)
      ++connectFaults;
  if (!idempotent(method) && wireAttempts > 1)
    mc_violation("at-most-once", std::string("non-idempotent-sent-twice:after:") + faultName(f1.kind), method + " reached the wire on " + std::to_string(wireAttempts) + " connections (" + plan + ")");
  if (idempotent(method) && conns > retries + 1)
    mc_violation("attempt-budget", "more-attempts-than-budget", method + " opened " + std::to_string(conns) + " connections with a retry budget of " + std::to_string(retries) + " (" + plan + ")");
  bool framingFault = f1.kind == FK_MALFORMED_STATUS || f1.kind == FK_CL_AND_TE || f1.kind == FK_TWO_CL;
  // the malformed-response variants: the statement demands only that they are not retried (a lenient client may accept one)
  if (f1.kind == FK_FRAMING_X && conns > 1)
    mc_violation("framing-not-retried", std::string("framing-error-retried:") + FRAMING_X[f1.pos % N_FRAMING_X].name,
                 "malformed response '" + std::string(FRAMING_X[f1.pos % N_FRAMING_X].name) + "' led to " + std::to_string(conns) + " attempts (" + plan + ")");
  if (framingFault && (conns > 1 || r.ok))
    mc_violation("framing-not-retried", std::string("framing-error-retried-or-accepted:") + faultName(f1.kind), "deterministic framing error '" + std::string(faultName(f1.kind)) + "' led to " + std::to_string(conns) + " attempts, result " + (r.ok ? "ok" : "error") + " (" + plan + ")");
  // bounded wait: every attempt is bounded by connect (100 ms) + request (200 ms) timeouts; back-off sleeps are 1 s each
  uint64_t bound = uint64_t(retries + 1) * 300ull * 1000000ull + uint64_t(retries) * 1000ull * 1000000ull + 50ull * 1000000ull;
  if (r.durNs > bound)
    mc_violation("bounded-wait", std::string("call-exceeded-timeouts:") + faultName(f1.kind), "the call took " + std::to_string(r.durNs / 1000000ull) + " ms of virtual time, bound " + std::to_string(bound / 1000000ull) + " ms (" + plan + ")");
  // success only if some attempt delivered a complete proper response
  if (r.ok)
  {
    bool someGood = false;
    size_t idx = 0;
    for (auto &c : sv.conns)
    {
      Fault pf = idx < sv.plan.size() ? sv.plan[idx] : Fault{};
      ++idx;
      if (c.answered > 0 && (pf.kind == FK_OK || pf.kind == FK_SURPLUS || pf.kind == FK_CONN_CLOSE || pf.kind == FK_HTTP10))
        someGood = true;
    }
    if (!someGood)
      mc_violation("result-truthful", "success-without-complete-response", "the client returned success although no attempt delivered a complete response (" + plan + ")");
  }
  cl.reset();
  mc_quiesce();
}

// ---------------------------------------------------------------- response larger than the synchronous receive buffer
// The transport reports the overflow of its synchronous receive buffer as a distinct, sticky error; for the HTTP client
// that is a deterministic failure of this response (re-sending yields the same response), so it must not be retried and
// a non-idempotent request must not be sent again.  The buffer bound (1 MiB by default, not configurable through
// HttpClient::Config) is shrunk to 64 bytes on the client's own transport object so that a 300-byte body overflows it.
void syncBufferOverflow()
{
  mc_label("main:overflow");
  simk_cfg.tcpRcvBuf = 8192;
  simk_cfg.shortIo = false;
  mc_set_sleep_quantum(1000000000ull);
  std::string method = METHODS[mc_choose(5, MC_FREE)];
  int retries = mc_choose(3, MC_FREE);
  Server sv;
  Fault big;
  big.kind = FK_BIG_BODY;
  sv.plan = {big, Fault{}, Fault{}};
  int script[3] = {0, 0, 0};
  simk_connect_script(8080, script, 3);
  std::thread th;
  serverStart(sv, th);
  auto cl = makeClient();
  cl->ensureInitialized();
  cl->_transport->_impl->config.maxSyncReceiveBuffer = 64;
  CallResult r = doCall(*cl, method, "r1", retries);
  mc_quiesce(50ull * 1000000ull);
  serverStop(sv, th);
  std::string plan = method + " retries=" + std::to_string(retries) + " [big-body]";
  mc_obs("%s -> %s %d %s", plan.c_str(), r.ok ? "ok" : (r.framingError ? "framing-error" : "error"), r.status, r.error.substr(0, 60).c_str());
  int wireAttempts = 0, conns = int(sv.conns.size());
  for (auto &c : sv.conns)
    if (!c.in.empty())
      ++wireAttempts;
  if (!idempotent(method) && wireAttempts > 1)
    mc_violation("at-most-once", "non-idempotent-sent-twice:after:big-body", method + " reached the wire on " + std::to_string(wireAttempts) + " connections (" + plan + ")");
  if (conns > 1)
    mc_violation("framing-not-retried", "framing-error-retried:sync-buffer-overflow", "a response that overflowed the synchronous receive buffer led to " + std::to_string(conns) + " attempts (" + plan + ")");
  if (!sv.violation.empty())
    mc_violation(sv.violationClause.c_str(), sv.violationSig, sv.violation + " (" + plan + ")");
  cl.reset();
  mc_quiesce();
}

// ---------------------------------------------------------------- two requests on one client (reuse rules)
void sequence()
{
  mc_label("main:sequence");
  simk_cfg.tcpRcvBuf = 8192;
  simk_cfg.shortIo = false;
  mc_set_sleep_quantum(1000000000ull);
  static const int kinds[] = {FK_OK, FK_SURPLUS, FK_CONN_CLOSE, FK_HTTP10, FK_RESP_CUT_FIN, FK_SILENCE, FK_MALFORMED_STATUS, FK_RST_AFTER_P};
  int k1 = kinds[mc_choose(8, MC_FREE)];
  std::string m1 = METHODS[mc_choose(2, MC_FREE)], m2 = METHODS[mc_choose(2, MC_FREE)];
  Server sv;
  Fault f;
  f.kind = k1;
  f.pos = k1 == FK_RESP_CUT_FIN ? 10 : requestLen(m1);
  sv.plan.push_back(f);
  std::thread th;
  serverStart(sv, th);
  auto cl = makeClient();
  CallResult r1 = doCall(*cl, m1, "r1", 0);
  mc_quiesce(10ull * 1000000ull);
  CallResult r2 = doCall(*cl, m2, "r2", 0);
  mc_quiesce(50ull * 1000000ull);
  serverStop(sv, th);
  std::string plan = m1 + " then " + m2 + " first-exchange=" + faultName(k1);
  mc_obs("%s -> %d %d conns=%zu", plan.c_str(), int(r1.ok), int(r2.ok), sv.conns.size());
  if (!sv.violation.empty())
    mc_violation(sv.violationClause.c_str(), sv.violationSig, sv.violation + " (" + plan + ")");
  if (k1 == FK_OK && r1.ok && r2.ok && sv.conns.size() != 1)
    mc_obs("note: healthy keep-alive connection was not reused");
  if (k1 != FK_OK && sv.conns.size() >= 1 && sv.conns[0].requestsSeen > 1)
    mc_violation("no-reuse-after-fault", std::string("second-request-on-faulted-connection:") + faultName(k1), "the second request travelled on the connection that had seen '" + std::string(faultName(k1)) + "' (" + plan + ")");
  if (!r2.ok && k1 != FK_OK)
  {
    // the second request must be able to succeed on a fresh connection (the server answers properly)
    if (sv.conns.size() >= 2 && sv.conns[1].answered >= 1)
      mc_violation("result-truthful", "second-request-failed-despite-proper-response", "request 2 got a proper response on a fresh connection but the client reported '" + r2.error.substr(0, 80) + "' (" + plan + ")");
  }
  cl.reset();
  mc_quiesce();
}


// ---------------------------------------------------------------- a reused keep-alive connection dies under the second request
// First exchange healthy (connection cached).  The second request travels on the cached connection; the server reads it
// COMPLETELY and drops the connection without a byte of response.  The request has reached the wire, so a
// non-idempotent method must not be sent again whatever the retry budget; an idempotent one at most budget+1 times.
void sequenceSecondDrop()
{
  mc_label("main:sequence2");
  simk_cfg.tcpRcvBuf = 8192;
  simk_cfg.shortIo = false;
  mc_set_sleep_quantum(1000000000ull);
  std::string m2 = METHODS[mc_choose(5, MC_FREE)];
  int retries = mc_choose(3, MC_FREE);
  int rst = mc_choose(2, MC_FREE);
  Server sv;
  Fault f;
  f.kind = FK_SECOND_REQ_DROP;
  f.pos = rst;
  sv.plan.push_back(f);
  std::thread th;
  serverStart(sv, th);
  auto cl = makeClient();
  CallResult r1 = doCall(*cl, "GET", "r1", 0);
  mc_quiesce(10ull * 1000000ull);
  CallResult r2 = doCall(*cl, m2, "r2", retries);
  mc_quiesce(50ull * 1000000ull);
  serverStop(sv, th);
  std::string plan = "GET then " + m2 + " retries=" + std::to_string(retries) + " second request dropped by " + (rst ? "RST" : "FIN") + " after it was read in full";
  // on how many connections did a byte of the second request arrive?
  int carried = 0;
  for (auto &c : sv.conns)
    if (c.in.find("X-Req: r2") != std::string::npos)
      ++carried;
  mc_obs("%s -> r1=%d r2=%d conns=%zu r2-on=%d", plan.c_str(), int(r1.ok), int(r2.ok), sv.conns.size(), carried);
  if (!sv.violation.empty())
    mc_violation(sv.violationClause.c_str(), sv.violationSig, sv.violation + " (" + plan + ")");
  if (!r1.ok)
    mc_violation("result-truthful", "first-request-failed-against-healthy-server", "request 1 failed: " + r1.error.substr(0, 80));
  if (!idempotent(m2) && carried > 1)
    mc_violation("at-most-once", "non-idempotent-sent-twice:after:reused-connection-dropped", m2 + " reached the wire on " + std::to_string(carried) + " connections (" + plan + ")");
  if (idempotent(m2) && carried > retries + 1)
    mc_violation("attempt-budget", "more-attempts-than-budget:reused-connection-dropped", m2 + " was sent on " + std::to_string(carried) + " connections with a retry budget of " + std::to_string(retries) + " (" + plan + ")");
  cl.reset();
  mc_quiesce();
}

// ---------------------------------------------------------------- two concurrent callers on one client
void concurrent()
{
  mc_label("main:concurrent");
  simk_cfg.tcpRcvBuf = 8192;
  simk_cfg.shortIo = false;
  mc_set_sleep_quantum(1000000000ull);
  Server sv;
  std::thread th;
  serverStart(sv, th);
  auto cl = makeClient();
  CallResult ra, rb;
  std::thread a([&]() { mc_label("A:get"); ra = doCall(*cl, "GET", "ra", 0); mc_label("A:done"); });
  std::thread b([&]() { mc_label("B:post"); rb = doCall(*cl, "POST", "rb", 0); mc_label("B:done"); });
  a.join();
  b.join();
  mc_quiesce(50ull * 1000000ull);
  serverStop(sv, th);
  mc_obs("concurrent -> %d %d conns=%zu", int(ra.ok), int(rb.ok), sv.conns.size());
  if (!sv.violation.empty())
    mc_violation(sv.violationClause.c_str(), sv.violationSig, sv.violation);
  if (!ra.ok || !rb.ok)
    mc_violation("result-truthful", "concurrent-call-failed-against-healthy-server", "a concurrent call failed against a healthy server: A='" + ra.error.substr(0, 60) + "' B='" + rb.error.substr(0, 60) + "'");
  for (auto &c : sv.conns)
  {
    bool mal = false;
    std::vector<std::string> ids;
    size_t n = completeRequests(c.in, &ids, &mal);
    if (mal || (n == 0 && !c.in.empty()))
      mc_violation("no-interleaving", "request-stream-not-well-formed", "connection #" + std::to_string(c.ordinal) + " carried interleaved / malformed request bytes");
  }
  cl.reset();
  mc_quiesce();
}
} // namespace

int main(int argc, char **argv)
{
  iora::core::Logger::setLevel(iora::core::Logger::Level::Fatal);
  bool thorough = false;
  for (int i = 1; i + 1 < argc; ++i)
    if (std::string(argv[i]) == "--tier" && std::string(argv[i + 1]) == "thorough")
      thorough = true;
  std::vector<McScenario> v;
  {
    McScenario m;
    m.name = "single";
    m.body = [thorough]() { single(thorough, thorough ? 0 : 1); };
    m.quick.S = 0;
    m.thorough.S = 0;
    m.horizon_s = 120;
    m.weight = 6;
    v.push_back(m);
  }
  {
    McScenario m;
    m.name = "sync_buffer_overflow";
    m.body = []() { syncBufferOverflow(); };
    m.quick.S = 0;
    m.thorough.S = 0;
    m.horizon_s = 120;
    v.push_back(m);
  }
  {
    McScenario m;
    m.name = "sequence";
    m.body = []() { sequence(); };
    m.quick.S = 0;
    m.thorough.S = 0;
    m.horizon_s = 120;
    v.push_back(m);
  }
  {
    McScenario m;
    m.name = "sequence_second_drop";
    m.body = []() { sequenceSecondDrop(); };
    m.quick.S = 0;
    m.thorough.S = 0;
    m.horizon_s = 120;
    v.push_back(m);
  }
  {
    McScenario m;
    m.name = "concurrent";
    m.body = []() { concurrent(); };
    m.quick.P = 1;
    m.quick.S = 1;
    m.quick.total = 1;
    m.thorough.P = 2;
    m.thorough.S = 1;
    m.thorough.total = 2;
    m.horizon_s = 120;
    m.weight = 2;
    v.push_back(m);
  }
  return mc_main(argc, argv, "C17_http_client", v);
}

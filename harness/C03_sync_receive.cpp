// C03: synchronous receive is a lossless ordered stream that drains before EOF.
//
// Seam: the REAL Transport (Impl::readModes / receiveBuffers / onData / onClose handlers,
// receiveSync, setReadMode) over harness/scripted_engine.hpp.
//
// Part (i)  "hist_*": every operation history up to a depth over the alphabet
//     arrive 1 byte | arrive 2 bytes | receiveSync(len 1|2|4, timeout 0|5ms) | setReadMode(Sync|Async|Disabled)
//     | peer close | late receive
//   with maxSyncReceiveBuffer = 3 so that overflow is reachable.  The history is chosen by free
//   mc_choose() alternatives, so the explorer enumerates ALL sequences; each step runs to
//   quiescence under the default schedule.
// Part (ii) "race_*": the I/O thread delivering [data, data, close] while an application thread is
//   parked in receiveSync / runs the Sync->Async flush / a second thread attempts a concurrent
//   receive, under every interleaving within the deviation bounds.
//
// Reference model (stated in terms of the property):
//   E = bytes that arrived while the session was in Sync or Async mode, in arrival order (bytes that
//       arrive in Disabled mode, and bytes at/after the first arrival that would exceed the buffer
//       bound, are not part of E);   O = bytes observed (receiveSync results + callback deliveries).
//   prefix            O is always a prefix of E (order, exactly-once, nothing foreign)
//   eof-after-drain   PeerClosed only when every byte of E has been observed
//   overflow-sticky   once the bound was exceeded the reader gets BufferOverflow after the bytes buffered
//                     before it, on every later call — never a later byte without the error
//   no-false-timeout  a receive does not time out while bytes are buffered for it
//   lossless          after the session closed and the reader drained, O == E
// (Bytes buffered in Sync mode stay readable by receiveSync after a switch to Disabled, and a later switch
//  to Async - from Sync or from Disabled - must hand them to the callback before any later arrival.)
#include "mc.h"
#include "scripted_engine.hpp"

#include <sstream>

using namespace iora::network;
using vh::ScriptedEngine;

namespace
{
struct Ref
{
  ReadMode mode = ReadMode::Async;
  std::string E, O;
  size_t syncBuffered = 0; // bytes accepted in Sync mode and not yet consumed
  bool overflowed = false;
  bool closed = false;
  bool ambiguousDisabled = false; // unused: kept false (a receive in Disabled mode may return earlier-buffered bytes; both outcomes are prefix-consistent)
  size_t maxBuf = 3;
};

struct World
{
  std::shared_ptr<Transport> t;
  ScriptedEngine *eng = nullptr;
  Ref ref;
  SessionId sid = 0;
  bool sawPeerClosed = false;
};

void observe(World &w, const std::string &bytes, const char *via)
{
  Ref &r = w.ref;
  r.O += bytes;
  if (r.O.size() > r.E.size() || r.E.compare(0, r.O.size(), r.O) != 0)
    mc_violation("prefix", std::string("observed-not-prefix-of-arrived:via-") + via,
                 "arrived(E)='" + r.E + "' observed(O)='" + r.O + "' (last chunk '" + bytes + "' via " + via + ")");
}

std::unique_ptr<World> makeWorld(size_t maxBuf)
{
  auto w = std::make_unique<World>();
  auto eng = std::make_unique<ScriptedEngine>();
  w->eng = eng.get();
  TransportConfig cfg;
  cfg.maxSyncReceiveBuffer = maxBuf;
  w->ref.maxBuf = maxBuf;
  w->t = test::TransportEngineInjector::withEngine(std::move(eng), cfg);
  World *wp = w.get();
  w->t->onData(
    [wp](SessionId, iora::core::BufferView d, std::chrono::steady_clock::time_point)
    {
      std::string b((const char *)d.data(), d.size());
      // the delivery is a visible event whose order against deliveries on other threads matters: make the instant
      // just before it a scheduling point (otherwise the window between the Transport releasing its lock and the
      // callback body has no point at which another thread can be run)
      mc_yield_point("data-callback");
      mc_obs("cb '%s'", b.c_str());
      observe(*wp, b, "callback");
    });
  // the reference is updated on the I/O thread at the instant the event is handed to the Transport
  w->eng->beforeDeliver = [wp](const vh::Event &e)
  {
    Ref &r = wp->ref;
    if (e.kind == vh::Event::InjData && !r.closed)
    {
      // mode in force: read under the Transport's own lock discipline is not needed here because in the
      // history part every step runs to quiescence; the race part uses only Sync/Async (see below)
      if (r.mode == ReadMode::Async)
        r.E += e.bytes;
      else if (r.mode == ReadMode::Sync)
      {
        if (r.overflowed)
          ; // after the bound was exceeded nothing later may be read without the error
        else if (r.syncBuffered + e.bytes.size() > r.maxBuf)
          r.overflowed = true;
        else
        {
          r.E += e.bytes;
          r.syncBuffered += e.bytes.size();
        }
      }
    }
    else if (e.kind == vh::Event::InjClose)
      r.closed = true;
  };
  w->t->start();
  w->sid = w->eng->allocSid();
  w->eng->injectAccept(w->sid);
  mc_quiesce();
  return w;
}

// One receiveSync call + oracle.  Returns the error code (None on success).
TransportError doRecv(World &w, size_t len, int timeoutMs, const char *who)
{
  Ref &r = w.ref;
  char buf[8];
  size_t n = len;
  size_t bufferedBefore = r.syncBuffered;
  bool overflowBefore = r.overflowed;
  auto res = w.t->receiveSync(w.sid, buf, n, std::chrono::milliseconds(timeoutMs));
  if (res.isOk())
  {
    std::string b(buf, res.value());
    mc_obs("%s recv(%zu,%d)=ok '%s'", who, len, timeoutMs, b.c_str());
    if (b.size() > len || b.empty())
      mc_violation("prefix", "bad-length", "receiveSync returned " + std::to_string(b.size()) + " bytes for a buffer of " + std::to_string(len));
    if (r.syncBuffered >= b.size())
      r.syncBuffered -= b.size();
    else
      r.syncBuffered = 0;
    observe(w, b, "receiveSync");
    return TransportError::None;
  }
  TransportError c = res.error().code;
  mc_obs("%s recv(%zu,%d)=err %d", who, len, timeoutMs, int(c));
  if (c == TransportError::PeerClosed)
  {
    w.sawPeerClosed = true;
    if (!r.closed)
      mc_violation("eof-after-drain", "peerclosed-without-close", "PeerClosed reported but the session was not closed");
    if (r.O != r.E && !r.ambiguousDisabled && r.mode != ReadMode::Disabled)
      mc_violation("eof-after-drain", "peerclosed-before-drain", "PeerClosed with undelivered bytes: E='" + r.E + "' O='" + r.O + "'");
  }
  else if (c == TransportError::BufferOverflow)
  {
    if (!r.overflowed)
      mc_violation("overflow-sticky", "overflow-without-cause", "BufferOverflow reported but the bound was never exceeded");
    if (r.O != r.E && !r.ambiguousDisabled)
      mc_violation("overflow-sticky", "overflow-before-buffered-bytes", "BufferOverflow before the bytes buffered earlier were returned: E='" + r.E + "' O='" + r.O + "'");
  }
  else if (c == TransportError::Timeout)
  {
    if (bufferedBefore > 0 && r.mode == ReadMode::Sync)
      mc_violation("no-false-timeout", "timeout-with-buffered-bytes", "receiveSync timed out although " + std::to_string(bufferedBefore) + " byte(s) were buffered");
    if (overflowBefore && r.mode == ReadMode::Sync)
      mc_violation("overflow-sticky", "timeout-instead-of-overflow", "receiveSync timed out although the buffer bound had been exceeded");
  }
  return c;
}

// ---------------------------------------------------------------- part (i): histories
void history(int depth)
{
  mc_label("main:history");
  auto wp = makeWorld(3);
  World &w = *wp;
  Ref &r = w.ref;
  std::string hist;
  bool lateDone = false;
  for (int step = 0; step < depth; ++step)
  {
    // alphabet, simplest first
    // 0 arrive1  1 recv(4,0)  2 mode Sync  3 mode Async  4 arrive2  5 recv(1,0)  6 recv(2,5ms)  7 close  8 mode Disabled
    int op = mc_choose(9, MC_FREE);
    static int counter = 0;
    char nm[32];
    switch (op)
    {
    case 0:
    case 4:
    {
      if (r.closed)
      {
        hist += "-";
        break;
      }
      std::string b;
      for (int k = 0; k < (op == 0 ? 1 : 2); ++k)
        b.push_back(char('a' + (counter++ % 26)));
      hist += op == 0 ? "a" : "A";
      w.eng->injectData(w.sid, b);
      mc_quiesce();
      break;
    }
    case 1:
      hist += "r";
      doRecv(w, 4, 0, "app");
      break;
    case 5:
      hist += "1";
      doRecv(w, 1, 0, "app");
      break;
    case 6:
      hist += "t";
      doRecv(w, 2, 5, "app");
      break;
    case 2:
    case 3:
    case 8:
    {
      ReadMode m = op == 2 ? ReadMode::Sync : op == 3 ? ReadMode::Async : ReadMode::Disabled;
      hist += op == 2 ? "S" : op == 3 ? "Y" : "D";
      bool flush = (r.mode != ReadMode::Async && m == ReadMode::Async); // any switch back to Async hands over buffered bytes first
      bool ok = w.t->setReadMode(w.sid, m);
      snprintf(nm, sizeof nm, "mode %d=%d", int(m), int(ok));
      mc_obs("%s", nm);
      if (ok)
      {
        if (!r.closed)
          r.mode = m;
        if (flush)
          r.syncBuffered = 0; // flushed bytes were observed through the callback
      }
      break;
    }
    case 7:
      hist += "c";
      if (!r.closed)
      {
        w.eng->injectClose(w.sid);
        mc_quiesce();
        // after close the Transport forgets the mode; a later setReadMode starts from Async
        if (r.mode == ReadMode::Async)
          ;
      }
      break;
    }
    (void)lateDone;
  }
  mc_obs("hist=%s", hist.c_str());
  // ---- epilogue: close (if still open) and drain; then O must equal E ----
  bool modeWasSyncAtClose = r.mode == ReadMode::Sync;
  if (!r.closed)
  {
    w.eng->injectClose(w.sid);
    mc_quiesce();
  }
  bool sawOverflow = false;
  for (int i = 0; i < 8; ++i)
  {
    TransportError c = doRecv(w, 4, 0, "drain");
    if (c == TransportError::PeerClosed)
      break;
    if (c == TransportError::BufferOverflow)
    {
      if (sawOverflow)
        break; // sticky: seen twice in a row
      sawOverflow = true;
      continue;
    }
    if (c == TransportError::Timeout)
      break;
    if (sawOverflow && c == TransportError::None)
      mc_violation("overflow-sticky", "bytes-after-overflow-error", "receiveSync returned bytes after it had reported BufferOverflow");
  }
  if (r.overflowed && modeWasSyncAtClose && !sawOverflow && !r.ambiguousDisabled)
    mc_violation("overflow-sticky", "overflow-never-reported", "the buffer bound was exceeded in Sync mode but the draining reader never got BufferOverflow (hist " + hist + ")");
  if (!r.ambiguousDisabled && r.O != r.E)
    mc_violation("lossless", r.O.size() < r.E.size() ? "bytes-lost" : "mismatch", "after close+drain: arrived E='" + r.E + "' observed O='" + r.O + "' (hist " + hist + ")");
  w.t->stop();
  w.t.reset();
}

// ---------------------------------------------------------------- part (ii): races
// Only Sync/Async modes and a large bound, so every arrived byte must be observed exactly once.
void race(int variant)
{
  mc_label("main:race");
  auto wp = makeWorld(64);
  World &w = *wp;
  Ref &r = w.ref;
  // E is everything the peer sends here (no Disabled, no overflow): make the reference mode-independent
  w.eng->beforeDeliver = [&](const vh::Event &e)
  {
    if (e.kind == vh::Event::InjData && !r.closed)
      r.E += e.bytes;
    else if (e.kind == vh::Event::InjClose)
      r.closed = true;
  };
  r.mode = ReadMode::Sync;
  w.t->setReadMode(w.sid, ReadMode::Sync);
  std::thread feeder(
    [&]()
    {
      mc_label("feeder");
      w.eng->injectData(w.sid, "ab");
      if (variant != 4)
        w.eng->injectData(w.sid, "c");
      if (variant != 3 && variant != 4)
        w.eng->injectClose(w.sid);
      mc_label("feeder:done");
    });
  std::thread second;
  if (variant == 2)
    second = std::thread(
      [&]()
      {
        mc_label("app2:receiveSync");
        char b[4];
        size_t n = 4;
        auto res = w.t->receiveSync(w.sid, b, n, std::chrono::milliseconds(10));
        if (res.isOk())
        {
          std::string s(b, res.value());
          mc_obs("app2 recv ok '%s'", s.c_str());
          observe(w, s, "receiveSync2");
        }
        else
          mc_obs("app2 recv err %d", int(res.error().code));
        mc_label("app2:done");
      });
  mc_label("app:receiveSync");
  if (variant == 0 || variant == 2)
  {
    // parked reader with small buffers
    for (int i = 0; i < 6; ++i)
    {
      TransportError c = doRecv(w, 2, 20, "app");
      if (c == TransportError::PeerClosed)
        break;
    }
  }
  std::thread late;
  if (variant == 4)
  {
    // "ab" has arrived and been delivered; a further arrival is injected WHILE the application flushes: it must
    // reach the callback after the flushed byte
    doRecv(w, 1, 20, "app");
    mc_quiesce();
    late = std::thread(
      [&]()
      {
        mc_label("late-arrival");
        w.eng->injectData(w.sid, "c");
        mc_label("late-arrival:done");
      });
    mc_label("app:setReadMode");
    bool ok = w.t->setReadMode(w.sid, ReadMode::Async);
    mc_obs("flush=%d", int(ok));
    r.syncBuffered = 0;
  }
  else if (variant == 1 || variant == 3)
  {
    // one receive, then flush the rest to the callback while data keeps arriving
    doRecv(w, 1, 20, "app");
    mc_label("app:setReadMode");
    bool ok = w.t->setReadMode(w.sid, ReadMode::Async);
    mc_obs("flush=%d", int(ok));
    r.syncBuffered = 0;
  }
  mc_label("app:join");
  feeder.join();
  if (second.joinable())
    second.join();
  if (late.joinable())
    late.join();
  mc_quiesce();
  if (variant == 3 || variant == 4)
  {
    w.eng->injectClose(w.sid);
    mc_quiesce();
  }
  // drain whatever is left (tombstone path)
  for (int i = 0; i < 6; ++i)
  {
    TransportError c = doRecv(w, 4, 0, "drain");
    if (c != TransportError::None)
      break;
  }
  if (r.O != r.E)
    mc_violation("lossless", r.O.size() < r.E.size() ? "bytes-lost" : "mismatch", "race variant " + std::to_string(variant) + ": arrived E='" + r.E + "' observed O='" + r.O + "'");
  w.t->stop();
  w.t.reset();
}
} // namespace

int main(int argc, char **argv)
{
  iora::core::Logger::setLevel(iora::core::Logger::Level::Fatal);
  std::vector<McScenario> v;
  {
    McScenario m;
    m.name = "hist";
    int qd = 4, td = 6;
    m.body = [qd, td]()
    {
      // depth is carried by the tier through an env var set in main()
      const char *d = getenv("C03_DEPTH");
      history(d ? atoi(d) : qd);
    };
    m.quick = McBounds{};
    m.quick.S = 0;
    m.thorough = m.quick;
    m.horizon_s = 60;
    m.weight = 6;
    v.push_back(m);
  }
  const char *names[] = {"race_parked_reader", "race_flush", "race_two_readers", "race_flush_open", "race_flush_late_arrival"};
  for (int k = 0; k < 5; ++k)
  {
    McScenario m;
    m.name = names[k];
    m.body = [k]() { race(k); };
    m.quick.P = 2;
    m.quick.T = 1;
    m.quick.S = 1;
    m.quick.total = 2;
    m.thorough.P = 3;
    m.thorough.T = 1;
    m.thorough.S = 2;
    m.thorough.total = 3;
    m.horizon_s = 60;
    v.push_back(m);
  }
  // tier-dependent history depth
  bool thorough = false;
  for (int i = 1; i + 1 < argc; ++i)
    if (std::string(argv[i]) == "--tier" && std::string(argv[i + 1]) == "thorough")
      thorough = true;
  if (!getenv("C03_DEPTH"))
    setenv("C03_DEPTH", thorough ? "6" : "5", 1); // depth 7 (4.8 M histories) does not finish inside the thorough budget; depth 6 does
  return mc_main(argc, argv, "C03_sync_receive", v);
}

// C15 client side, part 2: faithfulness of the seam.
//
// The main part (C15_client.cpp) drives the private framing functions through a MIRROR of the
// executeRequest receive loop.  This part sends a curated subset of the same kinds of streams through
// the REAL HttpClient::get()/head() -> performRequest -> executeRequest -> Transport over a loopback
// TCP socket (a raw server thread writes the exact response bytes in the exact segments, TCP_NODELAY,
// a short pause between segments, then closes) and checks
//   mirror-equals-executeRequest : outcome class (response / HttpFramingError / closed-before-complete)
//                                  and status, reason, header map, body equal what the mirror produced
//   framed-equals-reference      : and equal the independent reference framer where it says MustEqual
// Segment boundaries on a real socket are best-effort (the kernel may coalesce), which cannot change
// the expected result because the result must not depend on segmentation in the first place.
// Transport-level failures unrelated to the peer's bytes (connect failure, timeout) are retried and,
// if persistent, reported as inconclusive (exhaustive=false), never as a violation.
//
// Case format: C15e1 <GET|HEAD> cap=<default|N> cuts=<a,b,...|-> stream=<hex>
#include "C15_client_oracle.hpp"
#include "bexh.hpp"
#include <arpa/inet.h>
#include <atomic>
#include <netinet/in.h>
#include <netinet/tcp.h>
#include <sys/socket.h>
#include <thread>
#include <unistd.h>

using namespace c15;
using c15ref::Verdict;

namespace
{

struct Case
{
  bool head = false;
  uint64_t cap = 0; // 0 default
  std::vector<size_t> cuts;
  std::string stream;
  std::string text() const
  {
    std::string c = "-";
    if (!cuts.empty())
    {
      c.clear();
      for (size_t i = 0; i < cuts.size(); ++i)
        c += (i ? "," : "") + std::to_string(cuts[i]);
    }
    return std::string("C15e1 ") + (head ? "HEAD" : "GET") + " cap=" + (cap ? std::to_string(cap) : "default") + " cuts=" + c +
           " stream=" + vr::hex(stream);
  }
};

bool parseCase(const std::string &t, Case &c)
{
  if (t.rfind("C15e1 ", 0) != 0)
    return false;
  auto field = [&](const std::string &key) -> std::string
  {
    size_t p = t.find(" " + key + "=");
    if (p == std::string::npos)
      return "";
    p += key.size() + 2;
    size_t e = t.find_first_of(" \n", p);
    return t.substr(p, e == std::string::npos ? std::string::npos : e - p);
  };
  c.head = t.compare(6, 4, "HEAD") == 0;
  std::string cap = field("cap");
  c.cap = cap == "default" ? 0 : strtoull(cap.c_str(), nullptr, 10);
  std::string cu = field("cuts");
  if (cu != "-")
  {
    size_t a = 0;
    while (a < cu.size())
    {
      size_t k = cu.find(',', a);
      if (k == std::string::npos)
        k = cu.size();
      c.cuts.push_back(strtoull(cu.substr(a, k - a).c_str(), nullptr, 10));
      a = k + 1;
    }
  }
  c.stream = vr::unhex(field("stream"));
  return true;
}

// One-connection-at-a-time raw server.
struct RawServer
{
  int lfd = -1;
  uint16_t port = 0;
  bool start()
  {
    lfd = ::socket(AF_INET, SOCK_STREAM, 0);
    if (lfd < 0)
      return false;
    int one = 1;
    ::setsockopt(lfd, SOL_SOCKET, SO_REUSEADDR, &one, sizeof one);
    sockaddr_in a{};
    a.sin_family = AF_INET;
    a.sin_addr.s_addr = htonl(INADDR_LOOPBACK);
    a.sin_port = 0;
    if (::bind(lfd, (sockaddr *)&a, sizeof a) < 0 || ::listen(lfd, 8) < 0)
      return false;
    socklen_t l = sizeof a;
    ::getsockname(lfd, (sockaddr *)&a, &l);
    port = ntohs(a.sin_port);
    return true;
  }
  // serve exactly one exchange on the calling thread
  void serveOne(const Case &c)
  {
    timeval tv{};
    tv.tv_sec = 20;
    ::setsockopt(lfd, SOL_SOCKET, SO_RCVTIMEO, &tv, sizeof tv);
    int cs = ::accept(lfd, nullptr, nullptr);
    if (cs < 0)
      return;
    int one = 1;
    ::setsockopt(cs, IPPROTO_TCP, TCP_NODELAY, &one, sizeof one);
    tv.tv_sec = 10;
    ::setsockopt(cs, SOL_SOCKET, SO_RCVTIMEO, &tv, sizeof tv);
    std::string req;
    char buf[4096];
    while (req.find("\r\n\r\n") == std::string::npos)
    {
      ssize_t n = ::recv(cs, buf, sizeof buf, 0);
      if (n <= 0)
        break;
      req.append(buf, size_t(n));
    }
    size_t off = 0;
    std::vector<size_t> ends = c.cuts;
    ends.push_back(c.stream.size());
    for (size_t e : ends)
    {
      while (off < e)
      {
        ssize_t n = ::send(cs, c.stream.data() + off, e - off, MSG_NOSIGNAL);
        if (n <= 0)
        {
          off = c.stream.size();
          break;
        }
        off += size_t(n);
      }
      if (e != c.stream.size())
        std::this_thread::sleep_for(std::chrono::milliseconds(4));
    }
    ::shutdown(cs, SHUT_WR);
    // wait for the client to close (or give up after a while) so that the FIN never races the data
    tv.tv_sec = 2;
    ::setsockopt(cs, SOL_SOCKET, SO_RCVTIMEO, &tv, sizeof tv);
    while (::recv(cs, buf, sizeof buf, 0) > 0)
    {
    }
    ::close(cs);
  }
};

struct Real
{
  enum Kind
  {
    Response,
    FramingError,
    ClosedEarly,
    Inconclusive
  } kind = Inconclusive;
  HttpClient::Response resp;
  std::string what;
};

HttpClient::Config configFor(uint64_t cap)
{
  HttpClient::Config c;
  c.connectTimeout = std::chrono::milliseconds(5000);
  c.requestTimeout = std::chrono::milliseconds(15000);
  if (cap)
  {
    c.maxResponseBytes = size_t(cap);
    c.jsonConfig.maxPayloadSize = size_t(cap) / 2;
  }
  return c;
}

// One real client per cap configuration, reused for all exchanges (reuseConnections=false: every
// request opens its own connection, so exchanges are independent); building and tearing down a
// Transport + DnsClient per exchange costs ~0.25 s each.
HttpClient &realClient(uint64_t cap, bool reset = false)
{
  static std::map<uint64_t, std::unique_ptr<HttpClient>> m;
  auto &p = m[cap];
  if (!p || reset)
  {
    HttpClient::Config cfg = configFor(cap);
    cfg.reuseConnections = false;
    p.reset(new HttpClient(cfg));
  }
  return *p;
}

Real runReal(RawServer &srv, const Case &c, bool freshClient)
{
  Real r;
  std::thread server([&] { srv.serveOne(c); });
  {
    HttpClient &client = realClient(c.cap, freshClient);
    std::string url = "http://127.0.0.1:" + std::to_string(srv.port) + "/x";
    try
    {
      r.resp = c.head ? client.head(url) : client.get(url);
      r.kind = Real::Response;
    }
    catch (const HttpFramingError &e)
    {
      r.kind = Real::FramingError;
      r.what = e.what();
    }
    catch (const std::exception &e)
    {
      r.what = e.what();
      r.kind = r.what == "Connection closed before receiving complete HTTP response" ? Real::ClosedEarly : Real::Inconclusive;
    }
  }
  server.join();
  return r;
}

std::vector<Case> cases(bool thorough)
{
  const std::string H = "HTTP/1.1 200 OK\r\n";
  std::vector<std::pair<std::string, uint64_t>> streams = {
    // valid: Content-Length
    {H + "Content-Length: 5\r\n\r\nhello", 0},
    {H + "content-length:5\r\nX-A: b\r\n\r\nhelloSURPLUS", 0},
    {H + "CONTENT-LENGTH: \t0 \t\r\n\r\n", 0},
    {H + "Content-Length: 5, 5\r\n\r\nhello", 0},
    {H + "Content-Length: 5\r\nContent-Length: 5\r\n\r\n0\r\n\r\n", 0},
    {"HTTP/1.1 404 Not Found\r\nX-Dup: 1\r\nX-Dup: 2\r\nContent-Length: 1\r\n\r\n\n", 0},
    // valid: bodiless
    {"HTTP/1.1 204 No Content\r\nServer: x\r\n\r\n", 0},
    {"HTTP/1.1 304 Not Modified\r\nContent-Length: 5\r\n\r\n", 0},
    {"HTTP/1.1 204 No Content\r\n\r\nX", 0},
    // valid: interim
    {"HTTP/1.1 100 Continue\r\n\r\n" + H + "Content-Length: 1\r\n\r\na", 0},
    {"HTTP/1.1 103 Early Hints\r\nLink: </s>\r\n\r\nHTTP/1.1 100 Continue\r\n\r\n" + H + "Transfer-Encoding: chunked\r\n\r\n1\r\na\r\n0\r\n\r\n", 0},
    // valid: chunked
    {H + "Transfer-Encoding: chunked\r\n\r\n5\r\nhello\r\n0\r\n\r\n", 0},
    {H + "transfer-encoding: CHUNKED\r\n\r\n2;x=y\r\nhe\r\n003 ; x = \"q;\\\"\"\r\nllo\r\n000;z\r\nX-T: v\r\nContent-Length: 99\r\n\r\n", 0},
    {H + "Transfer-Encoding: gzip, chunked\r\n\r\n5\r\n0\r\n\r\n\r\n0\r\n\r\nHTTP/1.1 200 OK\r\nContent-Length: 1\r\n\r\nZ", 0},
    {H + "Transfer-Encoding: chunked\r\n\r\n0\r\n\r\n", 0},
    {H + "Transfer-Encoding: chunked\r\n\r\nA\r\n0123456789\r\n1a\r\nabcdefghijklmnopqrstuvwxyz\r\n0\r\n\r\n", 0},
    // valid: close-delimited
    {H + "\r\nhello", 0},
    {H + "Server: x\r\n\r\n", 0},
    {"HTTP/1.0 200 OK\r\n\r\n\r\n\r\nH", 0},
    {H + "Transfer-Encoding: gzip\r\n\r\nraw", 0},
    {H + "Transfer-Encoding: chunked, gzip\r\n\r\n5\r\nhello\r\n0\r\n\r\n", 0},
    // invalid length information
    {H + "Content-Length: 5\r\nContent-Length: 6\r\n\r\nhello!", 0},
    {H + "Content-Length: 5abc\r\n\r\nhello", 0},
    {H + "Content-Length: +5\r\n\r\nhello", 0},
    {H + "Content-Length: -5\r\n\r\nhello", 0},
    {H + "Content-Length:  5 ,6\r\n\r\nhello!", 0},
    {H + "Content-Length: 18446744073709551621\r\n\r\nhello", 0},
    {H + "Content-Length: 5\r\nTransfer-Encoding: chunked\r\n\r\n5\r\nhello\r\n0\r\n\r\n", 0},
    {H + "Transfer-Encoding: chunked\r\n\r\nFFFFFFFFFFFFFFEC\r\nhello\r\n0\r\n\r\n", 0},
    {H + "Transfer-Encoding: chunked\r\n\r\nFFFFFFFFFFFFFFFF\r\nhello\r\n0\r\n\r\n", 0},
    {H + "Transfer-Encoding: chunked\r\n\r\n10000000000000000\r\nhello\r\n0\r\n\r\n", 0},
    {H + "Transfer-Encoding: chunked\r\n\r\n-5\r\nhello\r\n0\r\n\r\n", 0},
    // truncated / malformed
    {H + "Content-Length: 9\r\n\r\nhello", 0},
    {H + "Transfer-Encoding: chunked\r\n\r\n5\r\nhel", 0},
    {H + "Transfer-Encoding: chunked\r\n\r\n5\r\nhello\r\n0\r\nX-T: v\r\n", 0},
    {H + "Content-Length: 5", 0},
    {H + "Transfer-Encoding: chunked\r\n\r\n5\nhello\r\n0\r\n\r\n", 0},
    {"HTTP/2.0 200 OK\r\n\r\n", 0},
    {"garbage\r\n\r\n", 0},
    {H + " folded: x\r\n\r\n", 0},
    // lowered cap
    {H + "X: " + std::string(300, 'a'), 256},
    {H + "\r\n" + std::string(300, 'b'), 256},
    {H + "Content-Length: 257\r\n\r\n", 256},
    {H + "Content-Length: 100\r\n\r\n" + std::string(100, 'b'), 256},
    {H + "Transfer-Encoding: chunked\r\n\r\n" + std::string(300, '1'), 256},
  };
  std::vector<Case> out;
  for (auto &s : streams)
    for (int head = 0; head < 2; ++head)
    {
      const size_t n = s.first.size();
      std::vector<std::vector<size_t>> segs = {{}};
      size_t he = s.first.find("\r\n\r\n");
      if (he != std::string::npos && he + 3 < n)
        segs.push_back({he + 3}); // inside the header terminator
      if (n > 6)
        segs.push_back({n / 3, 2 * n / 3});
      if (thorough && n <= 80)
      {
        std::vector<size_t> all;
        for (size_t i = 1; i < n; ++i)
          all.push_back(i);
        segs.push_back(all); // byte at a time
      }
      if (head && s.second)
        continue;
      for (auto &sg : segs)
      {
        Case c;
        c.head = head != 0;
        c.cap = s.second;
        c.cuts = sg;
        c.stream = s.first;
        out.push_back(c);
      }
    }
  return out;
}

// evaluate one case; returns number of findings
int evaluate(RawServer &srv, const Case &c, vr::Report &rep, bool verbose)
{
  HttpClient mirrorClient(configFor(c.cap));
  const uint64_t cap = std::max(mirrorClient._config.maxResponseBytes, mirrorClient._config.jsonConfig.maxPayloadSize);
  Driven d = drive(mirrorClient, c.head ? "HEAD" : "GET", c.stream, c.cuts);
  c15ref::Result ref = c15ref::frame(c.stream, c.head, cap);
  if (c.stream.size() > cap && ref.verdict == Verdict::MustEqual)
    ref.verdict = Verdict::Either;
  Real r;
  for (int attempt = 0; attempt < 3; ++attempt)
  {
    r = runReal(srv, c, attempt > 0);
    if (r.kind != Real::Inconclusive)
      break;
    ++rep.counters["e2e_transport_retries"];
  }
  ++rep.evaluations;
  ++rep.traces;
  if (verbose)
    printf("mirror: %s %s status=%d body=%s | real: kind=%d %s status=%d body=%s | ref: %s\n", outcomeName(d.outcome), d.what.c_str(),
           d.resp.statusCode, vr::jstr(d.resp.body).c_str(), int(r.kind), r.what.c_str(), r.resp.statusCode,
           vr::jstr(r.resp.body).c_str(), ref.why.c_str());
  if (r.kind == Real::Inconclusive)
  {
    ++rep.counters["e2e_inconclusive"];
    rep.exhaustive = false;
    rep.notes.push_back("inconclusive exchange (transport-level failure, not a framing result): " + r.what);
    return 0;
  }
  int bad = 0;
  const std::string fr = ref.framing.empty() ? "undetermined" : ref.framing;
  auto viol = [&](const std::string &clause, const std::string &sig, const std::string &detail)
  {
    rep.violation(clause, "client:e2e:" + sig, c.text(), detail);
    if (verbose)
      printf("  VIOLATES clause=%s sig=%s :: %s\n", clause.c_str(), sig.c_str(), detail.c_str());
    ++bad;
  };
  Outcome realAs = r.kind == Real::Response ? Outcome::Complete : r.kind == Real::FramingError ? Outcome::FramingError : Outcome::Truncated;
  if (realAs != d.outcome)
    viol("mirror-equals-executeRequest", fr + ":outcome",
         std::string("mirror: ") + outcomeName(d.outcome) + " (" + d.what + "), executeRequest: " + outcomeName(realAs) + " (" + r.what + ")");
  else if (realAs == Outcome::Complete &&
           (r.resp.statusCode != d.resp.statusCode || r.resp.statusText != d.resp.statusText || r.resp.body != d.resp.body ||
            r.resp.headers != d.resp.headers || r.resp.httpVersion != d.resp.httpVersion))
    viol("mirror-equals-executeRequest", fr + ":message",
         "mirror body " + vr::jstr(d.resp.body) + " status " + std::to_string(d.resp.statusCode) + "; executeRequest body " +
           vr::jstr(r.resp.body) + " status " + std::to_string(r.resp.statusCode));
  // the real result against the reference, independently of the mirror
  Driven asDriven;
  asDriven.outcome = realAs;
  asDriven.resp = r.resp;
  asDriven.what = r.what;
  if (ref.verdict == Verdict::MustNotComplete && realAs == Outcome::Complete)
    viol(ref.why.rfind("truncated", 0) == 0 ? "truncated-not-framed" : "invalid-length-rejected", ref.why.substr(ref.why.find(':') + 1),
         "executeRequest returned a response (status " + std::to_string(r.resp.statusCode) + ", body " + vr::jstr(r.resp.body) + ") for: " + ref.why);
  if (ref.verdict == Verdict::MustEqual || ref.verdict == Verdict::Either)
  {
    if (realAs == Outcome::Complete)
    {
      std::string detail, what = diffMessage(asDriven, ref, detail);
      if (!what.empty())
        viol("framed-equals-reference", fr + ":" + what, "executeRequest: " + detail);
    }
    else if (!(ref.verdict == Verdict::Either && realAs == Outcome::FramingError))
      viol("framed-equals-reference", fr + ":outcome=" + outcomeName(realAs), "executeRequest failed (" + r.what + ") on a valid response");
  }
  if (realAs == Outcome::Complete)
    ++rep.counters["e2e_responses"];
  else if (realAs == Outcome::FramingError)
    ++rep.counters["e2e_framing_errors"];
  else
    ++rep.counters["e2e_closed_early"];
  if (ref.verdict == Verdict::MustEqual || ref.verdict == Verdict::Either || (ref.verdict == Verdict::MustNotComplete))
    ++rep.distinct_nontrivial;
  return bad;
}

} // namespace

int main(int argc, char **argv)
{
  vr::Args args(argc, argv);
  iora::core::Logger::setLevel(iora::core::Logger::Level::Fatal);
  RawServer srv;
  if (!srv.start())
  {
    fprintf(stderr, "cannot listen on loopback\n");
    return 2;
  }
  if (!args.replay.empty())
  {
    Case c;
    if (!parseCase(vr::readFile(args.replay), c))
    {
      fprintf(stderr, "cannot parse case\n");
      return 2;
    }
    vr::Report rep("C15_client_e2e");
    printf("case: %s %s\n", c.head ? "HEAD" : "GET", vr::jstr(c.stream).c_str());
    return evaluate(srv, c, rep, true) ? 1 : 0;
  }
  vr::Report rep("C15_client_e2e", "exploration");
  rep.rule = "exchanges through the real HttpClient::get/head over a loopback socket whose outcome is determined by the peer's bytes "
             "(response, framing error or closed-before-complete) and for which the reference framer has a definite verdict";
  rep.bounds["streams"] = "45 curated response streams (valid CL / bodiless / interim / chunked / close-delimited, invalid lengths, truncated, "
                          "malformed, lowered cap) x {GET, HEAD} x {unsplit, cut inside the header terminator, two cuts" +
                          std::string(args.thorough() ? ", byte-at-a-time for streams <= 80 bytes}" : "}");
  double t0 = vr::now_s();
  double deadline = double(args.getInt("deadline", 300));
  auto cs = cases(args.thorough());
  size_t i = 0;
  for (auto &c : cs)
  {
    if (vr::now_s() - t0 > deadline)
    {
      rep.exhaustive = false;
      rep.notes.push_back("deadline reached after " + std::to_string(i) + " of " + std::to_string(cs.size()) + " exchanges");
      break;
    }
    evaluate(srv, c, rep, false);
    if (i % 37 == 0)
      rep.sample(c.text().substr(0, 200));
    ++i;
  }
  rep.write(args.out + ".json");
  realClient(0).cleanup();
  fflush(nullptr);
  _exit(0); // skip static destruction order games between the clients map and iora's singletons
}

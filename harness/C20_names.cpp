// C20 part A — names x layouts x modes, bounded-exhaustive (level: exploration).
//
// Every name of the generator in C20_common.hpp (all sequences of <= 4 (thorough: 5) segments over the
// 15-segment alphabet, separator variants, absolute-path extras) is looked up with
//   modes  : dir-cached  = Assets::fromDirectory(root)            (per-path cache)
//            dir-perreq  = Assets::fromDirectory(root, true)      (per-request disk read)
//            ext         = Assets::fromEmbedded(registry) with EXTERNAL_DIR = <root>/static and the
//                          name under test as the (only) externalized path
//            (thorough adds dir-cached-symroot: root handed over as a symlinked, slash-terminated path,
//             and ext-symdir: EXTERNAL_DIR given as a symlink with a trailing slash)
//   ops    : getStatic, getTemplate
//   steps  : L1  first lookup on the pristine tree
//            and, when the OS says the name resolves to a regular file T inside the root:
//            M1  second lookup after T was replaced by a symlink to SECRET      (same Assets object)
//            M2  second lookup after the *named* entry (when it is itself a symlink, e.g. link_in)
//                was replaced by a symlink to SECRET
//            M3  second lookup after T's parent directory was replaced by a symlink to an outside
//                directory holding a file of the same name
//            L3  lookup after everything was restored (cache may now be populated / stale)
// on a real scratch tree.  Oracle (independent of the library, uses the OS): if a lookup returns
// content, the bytes (and the gzip variant's bytes) must be the content of a regular file whose
// canonical path lies component-wise inside the configured root; as every file's content is its
// own realpath(3), this is decided from the returned bytes.  Refusal is always acceptable; how many
// lookups succeed is only counted (non-vacuity).  Stale-but-inside content is acceptable too: the
// statement is about containment, not freshness.
#include "C20_common.hpp"
#include "bexh.hpp"

using namespace c20;
using iora::web::Assets;

namespace
{

struct OsRes
{
  bool applicable = false; // false: name holds a NUL byte (not expressible as an OS path)
  bool regular = false;
  bool inside = false;
  std::string canon;
};

OsRes osResolve(const std::string &rootCanon, const std::string &name)
{
  OsRes o;
  if (name.find('\0') != std::string::npos)
    return o;
  o.applicable = true;
  o.canon = osRealpath(rootCanon + "/" + name);
  if (o.canon.empty())
    return o;
  struct stat st;
  if (::lstat(o.canon.c_str(), &st) == 0 && S_ISREG(st.st_mode))
  {
    o.regular = true;
    o.inside = insideCompwise(rootCanon, o.canon);
  }
  return o;
}

// First segment of `name` at which OS resolution leaves the root ("none" if it never does).
std::string escapeVia(const Alphabet &A, const std::string &rootCanon, const std::string &name, const std::string &bytes)
{
  if (name.find('\0') != std::string::npos)
    return "nul-byte";
  if (!name.empty() && name[0] == '/' && osRealpath(name) == bytes)
    return "absolute-path";
  std::string cur = rootCanon;
  size_t i = 0;
  for (;;)
  {
    size_t j = name.find('/', i);
    std::string seg = name.substr(i, j == std::string::npos ? std::string::npos : j - i);
    cur += "/" + seg;
    std::string rp = osRealpath(cur);
    if (rp.empty())
      return "unresolvable:" + A.display(seg);
    if (rp != rootCanon && !insideCompwise(rootCanon, rp))
      return A.display(seg);
    if (j == std::string::npos)
      break;
    i = j + 1;
  }
  return "none";
}

struct ModeDef
{
  const char *name;
  int kind; // 0 dir-cached, 1 dir-perreq, 2 ext
  bool sym;
};

struct Env
{
  Tree t;
  Alphabet A;
  std::vector<ModeDef> modes;
  std::vector<std::unique_ptr<Assets>> dirObjs; // per mode (null for ext)
  std::string extDirPlain, extDirSym;
  bool verbose = false;
};

void must(bool ok, const char *what, const std::string &p)
{
  if (!ok)
    die(what, p);
}

Lookup look(Env &e, size_t mi, int op, const std::string &name)
{
  const ModeDef &m = e.modes[mi];
  if (m.kind == 2)
  {
    ExtRegistry er(m.sym ? e.extDirSym : e.extDirPlain, name);
    Assets a = Assets::fromEmbedded(er.reg);
    return op == 0 ? doGetStatic(a, name) : doGetTemplate(a, name);
  }
  return op == 0 ? doGetStatic(*e.dirObjs[mi], name) : doGetTemplate(*e.dirObjs[mi], name);
}

const char *opName(int op) { return op == 0 ? "getStatic" : "getTemplate"; }

std::string caseText(const ModeDef &m, int op, const std::string &rawName)
{
  return std::string("mode=") + m.name + " op=" + opName(op) + " name=" + rawName;
}

// Evaluates one (mode, op, name) sub-case: all its steps.  Returns number of violations.
int evalSub(Env &e, vr::Report &r, size_t mi, int op, const std::string &rawName, const std::string &name,
            const OsRes &os, const std::string &rootCanon)
{
  const ModeDef &m = e.modes[mi];
  const bool usesFs = !(m.kind == 2 && op == 1);
  std::string embeddedOk;
  if (m.kind == 2)
  {
    if (op == 1 && (name == "a.txt" || name == "sub/a.txt"))
      embeddedOk = "EMBEDDED-TEMPLATE:" + name;
    if (op == 0 && name == "embedded-only.bin")
      embeddedOk = "EMBEDDED-STATIC:" + name;
  }
  int bad = 0;
  const std::string kase = caseText(m, op, rawName);
  auto step = [&](const char *stepName, const char *via)
  {
    Lookup l = look(e, mi, op, name);
    ++r.evaluations;
    ++r.counters["lookups"];
    ++r.counters[std::string("lookups_") + stepName];
    ++r.counters[l.status == 'F' ? "found" : l.status == 'R' ? "refused_rejected" : "refused_notfound"];
    if (l.status == 'F')
      ++r.counters[std::string("found_") + stepName];
    if (l.status == 'F' && l.hasGz)
      ++r.counters["found_with_gzip_variant"];
    Verdict v = judge(e.t, l, rootCanon, embeddedOk);
    if (e.verbose)
      printf("  %-3s status=%c bytes=%s%s%s -> %s\n", stepName, l.status, vr::jstr(e.t.rel(l.bytes)).c_str(),
             l.hasGz ? " gzip=" : "", l.hasGz ? vr::jstr(e.t.rel(l.gz)).c_str() : "", v.bad ? v.detail.c_str() : "ok");
    if (v.bad)
    {
      ++bad;
      std::string viaTok = v.viaGzip ? "gzip-sidecar" : via ? via : escapeVia(e.A, rootCanon, name, l.bytes);
      std::string sig = std::string(opName(op)) + ":" + m.name + ":" + stepName + ":via=" + viaTok + ":to=" + v.where;
      r.violation(v.clause, sig, kase, std::string("step ") + stepName + ": " + v.detail);
    }
    return l;
  };

  Lookup l1 = step("L1", nullptr);
  if (usesFs && os.applicable)
  {
    if (os.regular && os.inside)
    {
      ++r.counters["subcases_os_target_inside"];
      if (l1.status == 'F')
      {
        ++r.counters["L1_found_of_os_inside"];
        if (l1.bytes != os.canon)
          ++r.counters["L1_found_differs_from_os_target"];
      }
    }
    else if (os.regular)
    {
      ++r.counters["subcases_os_target_outside"];
      if (l1.status != 'F')
        ++r.counters["os_target_outside_refused"];
    }
    else if (l1.status == 'F')
      ++r.counters["L1_found_without_os_target"];
  }
  if (l1.status == 'F' && (r.counters["found_L1"] % 997) == 1)
    r.sample(kase + " -> " + e.t.rel(l1.bytes));

  if (usesFs && os.applicable && os.regular && os.inside)
  {
    const std::string &T = os.canon;
    const std::string saveT = e.t.stage + "/saveT", saveE = e.t.stage + "/saveE", saveP = e.t.stage + "/saveP";
    // M1: leaf -> symlink to SECRET
    must(::rename(T.c_str(), saveT.c_str()) == 0, "rename(T,save)", T);
    mkSymlink(e.t.secret, T);
    step("M1", "replaced-leaf");
    must(::rename(saveT.c_str(), T.c_str()) == 0, "rename(save,T)", T);
    // M2: named entry is a symlink -> replace it
    std::string E = rootCanon + "/" + name;
    struct stat st;
    if (::lstat(E.c_str(), &st) == 0 && S_ISLNK(st.st_mode))
    {
      must(::rename(E.c_str(), saveE.c_str()) == 0, "rename(E,save)", E);
      mkSymlink(e.t.secret, E);
      step("M2", "replaced-named-link");
      must(::rename(saveE.c_str(), E.c_str()) == 0, "rename(save,E)", E);
    }
    // M3: parent directory -> symlink to an outside directory with a same-named file
    std::string P = T.substr(0, T.rfind('/'));
    if (P != rootCanon)
    {
      must(::rename(P.c_str(), saveP.c_str()) == 0, "rename(P,save)", P);
      mkSymlink(e.t.outside, P);
      step("M3", "replaced-parent-dir");
      must(::unlink(P.c_str()) == 0, "unlink(P)", P);
      must(::rename(saveP.c_str(), P.c_str()) == 0, "rename(save,P)", P);
    }
    step("L3", "after-restore");
  }
  if (m.kind == 0)
    e.dirObjs[mi]->reload(); // names are independent cache keys; keep the cache from growing
  return bad;
}

void setupEnv(Env &e, const std::string &baseDir, int maxSeg, bool thorough)
{
  e.t.build(baseDir, maxSeg - 1);
  e.modes = {{"dir-cached", 0, false}, {"dir-perreq", 1, false}, {"ext", 2, false}};
  if (thorough)
  {
    e.modes.push_back({"dir-cached-symroot", 0, true});
    e.modes.push_back({"ext-symdir", 2, true});
  }
  mkSymlink(e.t.root, e.t.base + "/rootlink");
  mkSymlink(e.t.staticRoot, e.t.base + "/extlink");
  e.extDirPlain = e.t.staticRoot;
  e.extDirSym = e.t.base + "/extlink/";
  for (const ModeDef &m : e.modes)
  {
    if (m.kind == 2)
      e.dirObjs.emplace_back(nullptr);
    else
      e.dirObjs.emplace_back(new Assets(Assets::fromDirectory(m.sym ? e.t.base + "/rootlink/" : e.t.root, m.kind == 1)));
  }
}


} // namespace

int main(int argc, char **argv)
{
  vr::Args args(argc, argv);
  const int maxSeg = int(args.getInt("maxseg", args.thorough() ? 5 : 4));
  const double deadline = double(args.getInt("deadline", 0));
  const std::string scratch = scratchRoot(args) + "/" + std::to_string(getpid());

  if (!args.replay.empty())
  {
    std::string kase = vr::readFile(args.replay);
    // mode=<m> op=<o> name=<raw>
    size_t pm = kase.find("mode="), po = kase.find(" op="), pn = kase.find(" name=");
    if (pm != 0 || po == std::string::npos || pn == std::string::npos)
    {
      fprintf(stderr, "unparsable case\n");
      return 2;
    }
    std::string mode = kase.substr(5, po - 5), op = kase.substr(po + 4, pn - po - 4), raw = kase.substr(pn + 6);
    Env e;
    e.verbose = true;
    setupEnv(e, scratch + "/replay", maxSeg, args.thorough());
    size_t mi = 0;
    while (mi < e.modes.size() && mode != e.modes[mi].name)
      ++mi;
    if (mi == e.modes.size())
    {
      fprintf(stderr, "unknown mode %s\n", mode.c_str());
      return 2;
    }
    int o = op == "getStatic" ? 0 : 1;
    std::string name = expandBase(raw, e.t.base);
    const std::string &rootCanon = o == 0 ? e.t.staticRoot : e.t.templRoot;
    OsRes os = osResolve(rootCanon, name);
    printf("replay %s\n  name(display)=%s\n  OS resolution: %s%s\n", vr::jstr(kase).c_str(), showName(e.A, raw).c_str(),
           os.applicable ? (os.canon.empty() ? "<does not resolve>" : e.t.rel(os.canon).c_str()) : "<n/a: NUL byte>",
           os.regular ? (os.inside ? " (regular, inside root)" : " (regular, OUTSIDE root)") : "");
    vr::Report r("C20_names");
    int bad = evalSub(e, r, mi, o, raw, name, os, rootCanon);
    printf("%s\n", bad ? "VIOLATION reproduced" : "no violation");
    e.dirObjs.clear();
    rmTree(scratch);
    return bad ? 1 : 0;
  }

  const bool checkDistinct = args.kv.count("check-distinct") > 0;
  mkdirP(scratch);
  vr::run_sharded(
    args, "C20_names", "exploration", 120.0, deadline,
    [&](const vr::Shard &sh, vr::Report &r)
    {
      Env e;
      setupEnv(e, scratch + "/w" + std::to_string(sh.w), maxSeg, args.thorough());
      r.rule = "distinct names (all enumerated names are pairwise distinct) that the OS resolves, under the static or the "
               "templates root, to an existing regular file - inside (servable) or outside (must be refused)";
      r.bounds["max_segments"] = std::to_string(maxSeg);
      r.bounds["segment_alphabet"] = "a.txt sub . .. ... <empty> link_in link_out dirlink_out dirlink_in %2e%2e ..%2f "
                                     "a.txt<NUL>x a\\b <255 x 'L'>";
      r.bounds["separator_variants"] = "leading '/', all separators doubled, trailing '/' (7 combinations) on every name "
                                       "without empty segment; empty segments inside the segment bound; 16 absolute-path extras";
      std::string ms;
      for (const ModeDef &m : e.modes)
        ms += std::string(ms.empty() ? "" : ",") + m.name;
      r.bounds["modes"] = ms;
      r.bounds["ops"] = "getStatic,getTemplate";
      r.bounds["steps"] = "L1 first lookup; M1 leaf replaced by outside symlink; M2 named symlink replaced; M3 parent "
                          "directory replaced by outside dirlink; L3 after restore (M*/L3 only for names with an inside OS target)";
      r.bounds["tree"] = std::to_string(e.t.dirs) + " directories, " + std::to_string(e.t.files) + " regular files, " +
                         std::to_string(e.t.links) + " symlinks per worker";
      const uint64_t subPerName = 16;
      std::set<std::string> seen;
      forEachName(e.A, maxSeg,
                  [&](uint64_t idx, const std::string &raw) -> bool
                  {
                    if (checkDistinct && sh.w == 0 && !seen.insert(raw).second)
                      r.violation("harness-internal", "duplicate-name", raw, "generator emitted a name twice");
                    if (int(idx % uint64_t(sh.W)) != sh.w)
                      return true;
                    if ((idx / uint64_t(sh.W)) % 64 == 0 && sh.timeUp())
                    {
                      r.exhaustive = false;
                      r.notes.push_back("deadline reached: enumeration stopped early");
                      return false;
                    }
                    std::string name = expandBase(raw, e.t.base);
                    OsRes os[2] = {osResolve(e.t.staticRoot, name), osResolve(e.t.templRoot, name)};
                    bool firstVisit = true;
                    for (size_t mi = 0; mi < e.modes.size(); ++mi)
                      for (int op = 0; op < 2; ++op)
                      {
                        uint64_t combined = idx * subPerName + mi * 2 + uint64_t(op);
                        if (sh.resumed && combined <= sh.resumeAfter)
                        {
                          firstVisit = false;
                          continue;
                        }
                        sh.begin(combined, caseText(e.modes[mi], op, raw));
                        evalSub(e, r, mi, op, raw, name, os[op], op == 0 ? e.t.staticRoot : e.t.templRoot);
                        sh.end();
                      }
                    if (firstVisit)
                    {
                      ++r.counters["names"];
                      if (!os[0].applicable)
                        ++r.counters["names_with_nul_byte"];
                      if (os[0].regular || os[1].regular)
                        ++r.distinct_nontrivial;
                      if ((os[0].regular && !os[0].inside) || (os[1].regular && !os[1].inside))
                        ++r.counters["names_os_resolves_outside_root"];
                      if ((os[0].regular && os[0].inside) || (os[1].regular && os[1].inside))
                        ++r.counters["names_os_resolves_inside_root"];
                    }
                    return true;
                  });
      e.dirObjs.clear();
      rmTree(e.t.base);
    });
  rmTree(scratch);
  ::rmdir(scratchRoot(args).c_str()); // only succeeds when no other run is using it
  return 0;
}

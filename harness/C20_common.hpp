// C20 shared harness code: scratch tree, OS-based oracle, name generator, library access.
//
// Scratch tree (built per worker under /verif/build/scratch/C20/<pid>/w<k>/, i.e. <BASE>):
//
//   <BASE>/SECRET2, <BASE>/a.txt, <BASE>/sub/a.txt           outside everything
//   <BASE>/outside/...                                       outside directory (target of dirlink_out)
//   <BASE>/stage/                                            attacker's prepared objects
//   <BASE>/root/                                             the directory handed to Assets::fromDirectory
//   <BASE>/root/SECRET, root/a.txt, root/sub/a.txt           outside static/ and templates/
//   <BASE>/root/static_evil/..., root/templates_evil/...     siblings whose name has the root's name as prefix
//   <BASE>/root/static/...   <BASE>/root/templates/...       the two configured roots, populated alike:
//        a.txt            regular file
//        a.txt.gz         depth 0: symlink -> SECRET ; in every "sub" directory: regular file ; else absent
//        link_in          symlink -> a.txt (same directory, relative)
//        link_out         symlink -> <root>/SECRET          (inside "..." directories: -> other root's a.txt)
//        dirlink_out      symlink -> depth 0: <root>/<name>_evil ; inside "...": other root's sub ; else <BASE>/outside
//        dirlink_in       symlink -> this root's sub/
//        sub/ .../ LLL…L(255)/   sub-directories, recursively, down to the depth bound; in the deepest
//                         directories LLL…L(255) is a regular file instead
//        depth 0 only:    %2e%2e/a.txt and ..%2f/a.txt (literal directory names)
//
// The content of every regular file is its own canonical path (as returned by realpath(3) right
// after creation), so the oracle can decide from returned bytes alone where they came from.
#pragma once
#include "report.hpp"
#include <cerrno>
#include <climits>
#include <cstdlib>
#include <cstring>
#include <fcntl.h>
#include <ftw.h>
#include <functional>
#include <set>
#include <string>
#include <sys/stat.h>
#include <unistd.h>
#include <vector>

#include <iora/web/assets.hpp>

namespace c20
{

inline std::string L255() { return std::string(255, 'L'); }

[[noreturn]] inline void die(const char *what, const std::string &p)
{
  fprintf(stderr, "C20 harness: %s failed for '%s': %s\n", what, p.c_str(), strerror(errno));
  fflush(nullptr);
  _exit(3);
}

inline std::string osRealpath(const std::string &p)
{
  char buf[PATH_MAX];
  if (!::realpath(p.c_str(), buf))
    return "";
  return buf;
}

// Split on '/', dropping empty components (canonical absolute paths only have non-empty ones).
inline std::vector<std::string> comps(const std::string &p)
{
  std::vector<std::string> out;
  size_t i = 0;
  while (i <= p.size())
  {
    size_t j = p.find('/', i);
    if (j == std::string::npos)
      j = p.size();
    if (j > i)
      out.push_back(p.substr(i, j - i));
    i = j + 1;
  }
  return out;
}

// Component-wise: `path` lies strictly below `root` (both canonical absolute paths).  Independent of
// std::filesystem (the library's check uses path::lexically_relative).
inline bool insideCompwise(const std::string &root, const std::string &path)
{
  std::vector<std::string> r = comps(root), p = comps(path);
  if (p.size() <= r.size())
    return false;
  for (size_t i = 0; i < r.size(); ++i)
    if (r[i] != p[i])
      return false;
  for (const std::string &c : p)
    if (c == ".." || c == ".")
      return false;
  return true;
}

inline int rmOne(const char *p, const struct stat *, int, struct FTW *) { return ::remove(p); }
inline void rmTree(const std::string &p) { nftw(p.c_str(), rmOne, 32, FTW_DEPTH | FTW_PHYS); }

// <build>/scratch/C20, derived from the --out prefix (<build>/out/C20/<part>); absolute.
inline std::string scratchRoot(const vr::Args &args)
{
  std::string b = "/verif/build";
  size_t p = args.out.find("/out/");
  if (p != std::string::npos)
    b = args.out.substr(0, p);
  if (b.empty() || b[0] != '/')
  {
    char cwd[PATH_MAX];
    if (getcwd(cwd, sizeof cwd))
      b = std::string(cwd) + "/" + b;
  }
  return b + "/scratch/C20";
}

inline void mkdirP(const std::string &p)
{
  std::string cur;
  for (const std::string &c : comps(p))
  {
    cur += "/" + c;
    if (::mkdir(cur.c_str(), 0755) != 0 && errno != EEXIST)
      die("mkdir", cur);
  }
}

inline void writeRaw(const std::string &p, const std::string &content)
{
  int fd = ::open(p.c_str(), O_WRONLY | O_CREAT | O_TRUNC | O_NOFOLLOW, 0644);
  if (fd < 0)
    die("open(create)", p);
  if (::write(fd, content.data(), content.size()) != (ssize_t)content.size())
    die("write", p);
  ::close(fd);
}

inline void mkSymlink(const std::string &target, const std::string &linkpath)
{
  if (::symlink(target.c_str(), linkpath.c_str()) != 0)
    die("symlink", linkpath);
}

struct Tree
{
  std::string base, root, staticRoot, templRoot, secret, secret2, outside, stage, staticEvil, templEvil;
  std::set<std::string> contents; // content of every regular file ever created by the harness
  int dirs = 0, files = 0, links = 0;

  // Creates a regular file whose content is its own canonical path.
  void fileCanon(const std::string &p)
  {
    writeRaw(p, "");
    std::string canon = osRealpath(p);
    if (canon.empty() || canon != p)
      die("realpath(created file)==path", p);
    writeRaw(p, canon);
    contents.insert(canon);
    ++files;
  }
  void link(const std::string &target, const std::string &lp)
  {
    mkSymlink(target, lp);
    ++links;
  }
  void dir(const std::string &p)
  {
    if (::mkdir(p.c_str(), 0755) != 0)
      die("mkdir", p);
    ++dirs;
  }

  void populateRoot(const std::string &d, int depth, int maxDepth, const std::string &thisRoot,
                    const std::string &otherRoot, const std::string &evil, bool inDots, bool isSub)
  {
    fileCanon(d + "/a.txt");
    link("a.txt", d + "/link_in");
    link(inDots ? otherRoot + "/a.txt" : secret, d + "/link_out");
    link(depth == 0 ? evil : (inDots ? otherRoot + "/sub" : outside), d + "/dirlink_out");
    link(thisRoot + "/sub", d + "/dirlink_in");
    if (depth == 0)
      link(secret, d + "/a.txt.gz");
    else if (isSub)
      fileCanon(d + "/a.txt.gz");
    if (depth == 0)
    {
      dir(d + "/%2e%2e");
      fileCanon(d + "/%2e%2e/a.txt");
      dir(d + "/..%2f");
      fileCanon(d + "/..%2f/a.txt");
    }
    if (depth < maxDepth)
    {
      const std::string subs[3] = {"sub", "...", L255()};
      for (int i = 0; i < 3; ++i)
      {
        dir(d + "/" + subs[i]);
        populateRoot(d + "/" + subs[i], depth + 1, maxDepth, thisRoot, otherRoot, evil, inDots || i == 1, i == 0);
      }
    }
    else
      fileCanon(d + "/" + L255());
  }

  void populateOutside(const std::string &d, const std::string &backInside)
  {
    fileCanon(d + "/a.txt");
    fileCanon(d + "/a.txt.gz");
    fileCanon(d + "/" + L255());
    link("a.txt", d + "/link_in");
    link(secret, d + "/link_out");
    link(backInside, d + "/dirlink_in");
    link(outside, d + "/dirlink_out");
    dir(d + "/...");
    fileCanon(d + "/.../a.txt");
    std::string s = d;
    for (int i = 0; i < 4; ++i)
    {
      s += "/sub";
      dir(s);
      fileCanon(s + "/a.txt");
      fileCanon(s + "/a.txt.gz");
      fileCanon(s + "/" + L255());
    }
  }

  // maxDirDepth = (max number of name segments) - 1
  void build(const std::string &baseDir, int maxDirDepth)
  {
    rmTree(baseDir);
    mkdirP(baseDir);
    base = osRealpath(baseDir);
    if (base.empty())
      die("realpath(base)", baseDir);
    root = base + "/root";
    staticRoot = root + "/static";
    templRoot = root + "/templates";
    secret = root + "/SECRET";
    secret2 = base + "/SECRET2";
    outside = base + "/outside";
    stage = base + "/stage";
    staticEvil = root + "/static_evil";
    templEvil = root + "/templates_evil";
    dir(root);
    dir(staticRoot);
    dir(templRoot);
    dir(outside);
    dir(stage);
    dir(staticEvil);
    dir(templEvil);
    fileCanon(secret);
    fileCanon(secret2);
    fileCanon(base + "/a.txt");
    dir(base + "/sub");
    fileCanon(base + "/sub/a.txt");
    fileCanon(root + "/a.txt");
    dir(root + "/sub");
    fileCanon(root + "/sub/a.txt");
    populateOutside(outside, staticRoot + "/sub");
    populateOutside(staticEvil, staticRoot + "/sub");
    populateOutside(templEvil, templRoot + "/sub");
    populateRoot(staticRoot, 0, maxDirDepth, staticRoot, templRoot, staticEvil, false, false);
    populateRoot(templRoot, 0, maxDirDepth, templRoot, staticRoot, templEvil, false, false);
  }

  // Where does a piece of returned content live?  (content == canonical path of its file)
  enum Where
  {
    INSIDE,
    OUTSIDE,
    NOT_A_FILE
  };
  Where classify(const std::string &bytes, const std::string &rootCanon) const
  {
    if (!contents.count(bytes))
      return NOT_A_FILE;
    return insideCompwise(rootCanon, bytes) ? INSIDE : OUTSIDE;
  }
  // Coarse location label of outside content, used in violation signatures (never contains the pid).
  std::string whereLabel(const std::string &bytes) const
  {
    if (!contents.count(bytes))
      return "not-a-file";
    if (bytes == secret || bytes == secret2)
      return "SECRET";
    if (insideCompwise(staticEvil, bytes) || insideCompwise(templEvil, bytes))
      return "sibling-prefix-dir";
    if (insideCompwise(outside, bytes))
      return "outside-dir";
    if (insideCompwise(staticRoot, bytes))
      return "static-root";
    if (insideCompwise(templRoot, bytes))
      return "templates-root";
    if (insideCompwise(root, bytes))
      return "parent-of-root";
    return "above-root";
  }
  std::string rel(const std::string &p) const // strip <BASE>, abbreviate the 255-byte component (display only)
  {
    std::string o = p.compare(0, base.size(), base) == 0 ? "{BASE}" + p.substr(base.size()) : p;
    const std::string l = L255();
    size_t q;
    while ((q = o.find(l)) != std::string::npos)
      o.replace(q, l.size(), "<L255>");
    return o;
  }
};

// ---- library access -------------------------------------------------------------------------

struct Lookup
{
  char status = 'N'; // F found, N not found / nullopt, R rejected
  std::string bytes;
  bool hasGz = false;
  std::string gz;
};

inline Lookup doGetStatic(const iora::web::Assets &a, const std::string &name)
{
  Lookup l;
  iora::web::GetStaticResult r = a.getStatic(std::string_view(name.data(), name.size()));
  if (r.status == iora::web::GetStaticResult::Status::Found)
  {
    l.status = 'F';
    l.bytes.assign(r.blob.bytes.data(), r.blob.bytes.size());
    if (r.blob.gzipBytes)
    {
      l.hasGz = true;
      l.gz.assign(r.blob.gzipBytes->data(), r.blob.gzipBytes->size());
    }
  }
  else
    l.status = r.status == iora::web::GetStaticResult::Status::Rejected ? 'R' : 'N';
  return l;
}

inline Lookup doGetTemplate(const iora::web::Assets &a, const std::string &name)
{
  Lookup l;
  std::optional<std::string_view> t = a.getTemplate(std::string_view(name.data(), name.size()));
  if (t)
  {
    l.status = 'F';
    l.bytes.assign(t->data(), t->size());
  }
  return l;
}

// Embedded registry whose only external path is `name` (tables must be sorted; one element is).
// The embedded (compile-time) entries carry marker bytes that are not the content of any file.
struct ExtRegistry
{
  std::string extDir;
  std::string nameCopy;
  std::string_view extPaths[1];
  iora::web::EmbeddedAsset statics[1];
  iora::web::EmbeddedTemplate templates[2];
  iora::web::EmbeddedAssetRegistry reg;
  ExtRegistry(const std::string &externalDir, const std::string &name) : extDir(externalDir), nameCopy(name)
  {
    extPaths[0] = std::string_view(nameCopy.data(), nameCopy.size());
    statics[0] = iora::web::EmbeddedAsset{"embedded-only.bin", "EMBEDDED-STATIC:embedded-only.bin", "00", std::nullopt, {}};
    templates[0] = iora::web::EmbeddedTemplate{"a.txt", "EMBEDDED-TEMPLATE:a.txt"};
    templates[1] = iora::web::EmbeddedTemplate{"sub/a.txt", "EMBEDDED-TEMPLATE:sub/a.txt"};
    reg.templates = templates;
    reg.templatesCount = 2;
    reg.statics = statics;
    reg.staticsCount = 1;
    reg.externalDir = extDir;
    reg.externalPaths = extPaths;
    reg.externalPathsCount = 1;
  }
  ExtRegistry(const ExtRegistry &) = delete;
};

// ---- oracle ---------------------------------------------------------------------------------

struct Verdict
{
  bool bad = false;
  bool viaGzip = false; // the offending bytes are the gzip variant's
  std::string clause, where, detail;
};

// `rootCanon` = OS-canonical configured root the lookup was made against.  `embeddedOk` = bytes the
// embedded tables legitimately hold for exactly this name ("" if none).
inline Verdict judge(const Tree &t, const Lookup &l, const std::string &rootCanon, const std::string &embeddedOk)
{
  Verdict v;
  if (l.status != 'F')
    return v; // refusal is always acceptable
  auto one = [&](const std::string &bytes, const char *which)
  {
    if (v.bad)
      return;
    if (!embeddedOk.empty() && bytes == embeddedOk)
      return;
    Tree::Where w = t.classify(bytes, rootCanon);
    if (w == Tree::INSIDE)
      return;
    v.bad = true;
    v.viaGzip = std::string(which) == "gzipBytes";
    v.where = t.whereLabel(bytes);
    if (w == Tree::OUTSIDE)
    {
      v.clause = "outside-content-never-returned";
      v.detail = std::string(which) + " returned are the content of " + t.rel(bytes) + " which is not inside the root " +
                 t.rel(rootCanon);
    }
    else
    {
      v.clause = "returned-bytes-are-an-inside-regular-file";
      v.detail = std::string(which) + " returned (" + std::to_string(bytes.size()) +
                 " bytes) are not the content of any regular file of the tree: " + vr::jstr(bytes.substr(0, 120));
    }
  };
  one(l.bytes, "bytes");
  if (l.hasGz)
    one(l.gz, "gzipBytes");
  return v;
}

// ---- names ----------------------------------------------------------------------------------

struct Alphabet
{
  std::vector<std::string> seg;  // raw bytes
  std::vector<std::string> disp; // display token
  int emptyIdx = 5;
  Alphabet()
  {
    auto add = [&](const std::string &s, const std::string &d)
    {
      seg.push_back(s);
      disp.push_back(d);
    };
    add("a.txt", "a.txt");
    add("sub", "sub");
    add(".", ".");
    add("..", "..");
    add("...", "...");
    add("", "<empty>");
    add("link_in", "link_in");
    add("link_out", "link_out");
    add("dirlink_out", "dirlink_out");
    add("dirlink_in", "dirlink_in");
    add("%2e%2e", "%2e%2e");
    add("..%2f", "..%2f");
    add(std::string("a.txt\0x", 7), "a.txt<NUL>x");
    add("a\\b", "a\\b");
    add(L255(), "<L255>");
  }
  std::string display(const std::string &s) const
  {
    for (size_t i = 0; i < seg.size(); ++i)
      if (seg[i] == s)
        return disp[i];
    return s.size() > 40 ? "<" + std::to_string(s.size()) + " bytes>" : s;
  }
};

// Enumerates, simplest first and without duplicates:
//   for n = 1..maxSeg: every sequence of n alphabet segments joined with '/'  ("base" names; the empty
//   segment is in the alphabet, so leading / doubled / trailing separators within n segments are bases);
//   then, for every base without an empty segment, the 7 combinations of {leading '/', every separator
//   doubled, trailing '/'} whose result has more than maxSeg segments (shorter results are bases already);
//   finally a fixed list of absolute-path names built from the {BASE} token.
// A name is a bijective image of its segment sequence (no segment contains '/'), which is why no two
// enumerated names are equal; --check-distinct verifies it with an exact set.
// f(idx, name) returns false to stop.
inline uint64_t forEachName(const Alphabet &A, int maxSeg, const std::function<bool(uint64_t, const std::string &)> &f)
{
  uint64_t idx = 0;
  const int K = int(A.seg.size());
  for (int n = 1; n <= maxSeg; ++n)
  {
    std::vector<int> d(n, 0);
    for (;;)
    {
      std::string name;
      bool hasEmpty = false;
      for (int i = 0; i < n; ++i)
      {
        if (i)
          name.push_back('/');
        name += A.seg[d[i]];
        hasEmpty = hasEmpty || d[i] == A.emptyIdx;
      }
      if (!f(idx++, name))
        return idx;
      if (!hasEmpty)
      {
        for (int mask = 1; mask < 8; ++mask)
        {
          bool lead = mask & 1, dbl = mask & 2, trail = mask & 4;
          if (dbl && n == 1)
            continue;
          int segs = n + (lead ? 1 : 0) + (trail ? 1 : 0) + (dbl ? n - 1 : 0);
          if (segs <= maxSeg)
            continue;
          std::string v;
          if (lead)
            v.push_back('/');
          for (int i = 0; i < n; ++i)
          {
            if (i)
              v += dbl ? "//" : "/";
            v += A.seg[d[i]];
          }
          if (trail)
            v.push_back('/');
          if (!f(idx++, v))
            return idx;
        }
      }
      int p = n - 1;
      while (p >= 0 && ++d[p] == K)
        d[p--] = 0;
      if (p < 0)
        break;
    }
  }
  static const char *extras[] = {
    "{BASE}/root/SECRET",
    "/{BASE}/root/SECRET",
    "{BASE}/SECRET2",
    "{BASE}/root/static/a.txt",
    "{BASE}/root/templates/a.txt",
    "{BASE}/root/static/sub/a.txt",
    "{BASE}/outside/a.txt",
    "{BASE}/root/static_evil/a.txt",
    "{BASE}/root/templates_evil/a.txt",
    "{BASE}/root/static/../SECRET",
    "{BASE}/root/static/link_out",
    "{BASE}/root/static/dirlink_out/a.txt",
    ".{BASE}/root/SECRET",
    "sub{BASE}/root/SECRET",
    "a.txt{BASE}/root/SECRET",
    "./{BASE}/root/SECRET",
  };
  for (const char *e : extras)
    if (!f(idx++, e))
      return idx;
  return idx;
}

inline std::string expandBase(const std::string &name, const std::string &base)
{
  std::string out = name;
  size_t p;
  while ((p = out.find("{BASE}")) != std::string::npos)
    out.replace(p, 6, base);
  return out;
}

// Human-readable rendering of a name (long component and NUL abbreviated); exact bytes travel in hex.
inline std::string showName(const Alphabet &A, const std::string &name)
{
  std::string out;
  size_t i = 0;
  for (;;)
  {
    size_t j = name.find('/', i);
    std::string s = name.substr(i, j == std::string::npos ? std::string::npos : j - i);
    out += s.empty() ? "" : A.display(s);
    if (j == std::string::npos)
      break;
    out.push_back('/');
    i = j + 1;
  }
  return out;
}

} // namespace c20

// C11 — shared machinery of the KVStore crash-enumeration parts (C11_kv_seq, C11_kv_ttl).
//
// A *script* (operation history) is run on the real iora::storage::KVStore in a scratch directory while
// rt/crashfs records every file mutation with begin/end markers of the API call that caused it.  From
// the recorded log the enumerator rebuilds the directory image after EVERY prefix of the log and, for
// the next write, after EVERY byte cut, and hands each image to the continuations, which reopen it with
// a fresh store instance on the real recovery path and compare what is visible with the set of states
// the property statement admits.
//
// Oracle (exactly the statement of C11): reopening must not throw; for every key the visible
// value/expiry is the effect of the last operation on that key that had returned before the cut; keys
// touched by the operation in flight may show the old or the new state; nothing else (no torn, foreign
// or resurrected value; expired keys absent).  The admissible states are kept per key as a SET
// (in-flight keys: {old,new}); further operations of a continuation map the set element-wise, a second
// crash unions again.  An image that is reachable from several crash instants (e.g. the image after the
// last file operation of a call = the image after the call returned) must satisfy all of them, so the
// per-key sets of those instants are intersected.
#pragma once
#include "crashfs.h"
#include "report.hpp"

#include <iora/storage/kvstore.hpp>

#include <algorithm>
#include <functional>
#include <memory>
#include <sstream>

namespace c11
{
using iora::storage::KVStore;
using iora::storage::KVStoreConfig;

constexpr int NKEYS = 2;
static const char *const KEYS[NKEYS] = {"a", "b"};
constexpr int64_t NOEXP = INT64_MIN;
constexpr int64_t TTL_S = 100;       // set(a,"3",ttl)
constexpr int64_t EXPIRE_AT_S = 250; // expireAt(a, now + 250 s)

// ---------------------------------------------------------------------------------------------
// alphabet
// ---------------------------------------------------------------------------------------------
struct OpDef
{
  char code;
  const char *name;
  const char *cls; // class used in signatures
  unsigned touched; // bit mask of keys the call may change
  bool ttl;         // needs the TTL machinery (threads)
};
static const OpDef OPS[] = {
    {'1', "set(a,1)", "set", 1, false},
    {'2', "set(a,2)", "set", 1, false},
    {'b', "set(b,\"\")", "set", 2, false},
    {'r', "remove(a)", "remove", 1, false},
    {'B', "setBatch{a:4,b:5}", "batch", 3, false},
    {'c', "clear()", "clear", 3, false},
    {'k', "compact()", "compact", 0, false},
    {'R', "close+reopen", "reopen", 0, false},
    {'t', "set(a,3,ttl=100s)", "expiry", 1, true},
    {'e', "expireAt(a,now+250s)", "expiry", 1, true},
    {'p', "persist(a)", "expiry", 1, true},
};
constexpr int NOPS_PLAIN = 8; // first 8: no TTL machinery involved
constexpr int NOPS_ALL = 11;

inline const OpDef *opDef(char c)
{
  for (const OpDef &o : OPS)
    if (o.code == c)
      return &o;
  return nullptr;
}
inline std::string histName(const std::string &h)
{
  std::string s;
  for (char c : h)
  {
    const OpDef *o = opDef(c);
    s += (s.empty() ? "" : "; ");
    s += o ? o->name : "?";
  }
  return s.empty() ? "(empty)" : s;
}

// ---------------------------------------------------------------------------------------------
// reference model
// ---------------------------------------------------------------------------------------------
struct KS
{
  bool present = false;
  std::string val;
  int64_t exp = NOEXP; // absolute epoch ms, NOEXP = none
  bool operator==(const KS &o) const { return present == o.present && (!present || (val == o.val && exp == o.exp)); }
  bool operator<(const KS &o) const
  {
    if (present != o.present)
      return present < o.present;
    if (!present)
      return false;
    if (val != o.val)
      return val < o.val;
    return exp < o.exp;
  }
  std::string str() const
  {
    if (!present)
      return "absent";
    std::string s = "'" + val + "'";
    if (exp != NOEXP)
      s += "@exp=" + std::to_string(exp);
    return s;
  }
};
using KSet = std::vector<KS>; // sorted, unique
inline void ksInsert(KSet &s, const KS &k)
{
  auto it = std::lower_bound(s.begin(), s.end(), k);
  if (it == s.end() || !(*it == k))
    s.insert(it, k);
}
inline KSet ksUnion(const KSet &a, const KSet &b)
{
  KSet r = a;
  for (auto &k : b)
    ksInsert(r, k);
  return r;
}
inline KSet ksIntersect(const KSet &a, const KSet &b)
{
  KSet r;
  for (auto &k : a)
    if (std::binary_search(b.begin(), b.end(), k))
      r.push_back(k);
  return r;
}
struct Adm
{
  KSet k[NKEYS];
  std::string str() const
  {
    std::string s;
    for (int i = 0; i < NKEYS; ++i)
    {
      s += std::string(i ? " " : "") + KEYS[i] + "∈{";
      for (size_t j = 0; j < k[i].size(); ++j)
        s += (j ? "|" : "") + k[i][j].str();
      s += "}";
    }
    return s;
  }
};
inline Adm admEmpty()
{
  Adm a;
  for (int i = 0; i < NKEYS; ++i)
    a.k[i].push_back(KS{});
  return a;
}

// effect of one call on ONE key whose state is s, at wall time nowMs
inline KS applyKey(char op, int key, const KS &s, int64_t nowMs)
{
  KS r = s;
  // an expired entry behaves as absent for the purposes of this check: time never passes inside a
  // history, so a state can only be expired after a wall-clock advance between crash and reopen, and
  // reopening drops expired keys.
  bool live = s.present && (s.exp == NOEXP || s.exp > nowMs);
  if (!live)
    r = KS{};
  switch (op)
  {
  case '1':
    if (key == 0)
      r = KS{true, "1", NOEXP};
    break;
  case '2':
    if (key == 0)
      r = KS{true, "2", NOEXP};
    break;
  case 'b':
    if (key == 1)
      r = KS{true, "", NOEXP};
    break;
  case 'r':
    if (key == 0)
      r = KS{};
    break;
  case 't':
    if (key == 0)
      r = KS{true, "3", nowMs + TTL_S * 1000};
    break;
  case 'e':
    if (key == 0 && live)
      r.exp = nowMs + EXPIRE_AT_S * 1000;
    break;
  case 'p':
    if (key == 0 && live)
      r.exp = NOEXP;
    break;
  case 'B':
    r = key == 0 ? KS{true, "4", NOEXP} : KS{true, "5", NOEXP};
    break;
  case 'c':
    r = KS{};
    break;
  default: // 'k', 'R': no change
    break;
  }
  return r;
}
inline Adm applyAdm(char op, const Adm &a, int64_t nowMs)
{
  Adm r;
  for (int i = 0; i < NKEYS; ++i)
    for (auto &s : a.k[i])
      ksInsert(r.k[i], applyKey(op, i, s, nowMs));
  return r;
}

// ---------------------------------------------------------------------------------------------
// environment (plain process or mcsched execution)
// ---------------------------------------------------------------------------------------------
struct Env
{
  std::function<void()> settle = [] {};                  // let background threads reach their waits
  std::function<void(int64_t)> advanceWallMs = [](int64_t) {}; // jump the wall clock
  std::string dir;                                        // scratch directory (exists)
  bool verbose = false;
};
inline int64_t nowMs()
{
  return std::chrono::duration_cast<std::chrono::milliseconds>(std::chrono::system_clock::now().time_since_epoch()).count();
}
inline KVStoreConfig storeConfig()
{
  KVStoreConfig c;
  c.enableBackgroundCompaction = false;
  c.maxLogSizeBytes = 64; // inline compaction triggers inside short histories
  c.maxCacheSize = 4;
  return c;
}

// ---------------------------------------------------------------------------------------------
// driving the real store
// ---------------------------------------------------------------------------------------------
struct KObs
{
  bool present = false;
  std::string val;
  long ttl = -1; // seconds, -1 = none
};
struct Obs
{
  KObs k[NKEYS];
  std::vector<std::string> foreign; // keys outside the universe
  std::string str() const
  {
    std::string s;
    for (int i = 0; i < NKEYS; ++i)
    {
      s += std::string(i ? " " : "") + KEYS[i] + "=";
      if (!k[i].present)
        s += "absent";
      else
      {
        s += "'" + k[i].val + "'";
        if (k[i].ttl >= 0)
          s += "@ttl=" + std::to_string(k[i].ttl) + "s";
      }
    }
    for (auto &f : foreign)
      s += " FOREIGN-KEY(" + vr::hex(f) + ")";
    return s;
  }
};

struct Store
{
  std::unique_ptr<KVStore> s;
  Env *env = nullptr;
  uint64_t *instances = nullptr;
  explicit Store(Env *e, uint64_t *inst = nullptr) : env(e), instances(inst) {}
  bool open(std::string *err)
  {
    if (instances)
      ++*instances;
    try
    {
      s = std::make_unique<KVStore>(env->dir + "/kv", storeConfig());
    }
    catch (const std::exception &e)
    {
      if (err)
        *err = e.what();
      s.reset();
      return false;
    }
    env->settle();
    return true;
  }
  void close()
  {
    s.reset(); // destructor = clean shutdown
  }
  // returns false if the call threw (then it is not acknowledged)
  bool apply(char op, std::string *err)
  {
    try
    {
      switch (op)
      {
      case '1':
        s->setString("a", "1");
        break;
      case '2':
        s->setString("a", "2");
        break;
      case 'b':
        s->setString("b", "");
        break;
      case 'r':
        s->remove("a");
        break;
      case 't':
        s->setString("a", "3", std::chrono::seconds(TTL_S));
        break;
      case 'e':
        s->expireAt("a", std::chrono::system_clock::now() + std::chrono::seconds(EXPIRE_AT_S));
        break;
      case 'p':
        s->persist("a");
        break;
      case 'B':
        s->setBatch({{"a", {'4'}}, {"b", {'5'}}});
        break;
      case 'c':
        s->clear();
        break;
      case 'k':
        s->compact();
        break;
      case 'R':
        close();
        if (!open(err))
          return false;
        break;
      default:
        break;
      }
    }
    catch (const std::exception &e)
    {
      if (err)
        *err = e.what();
      env->settle();
      return false;
    }
    env->settle();
    return true;
  }
  Obs observe()
  {
    Obs o;
    for (int i = 0; i < NKEYS; ++i)
    {
      auto v = s->getString(KEYS[i]);
      if (v)
      {
        o.k[i].present = true;
        o.k[i].val = *v;
        auto t = s->ttl(KEYS[i]);
        o.k[i].ttl = t ? long(t->count()) : -1;
      }
      bool ex = s->exists(KEYS[i]);
      if (ex != o.k[i].present)
        o.foreign.push_back(std::string("exists()!=get() for ") + KEYS[i]);
    }
    std::vector<std::string> ks = s->keys();
    std::sort(ks.begin(), ks.end());
    size_t visible = 0;
    for (auto &key : ks)
    {
      bool known = false;
      for (int i = 0; i < NKEYS; ++i)
        if (key == KEYS[i])
        {
          known = true;
          if (o.k[i].present)
            ++visible;
          else
            o.foreign.push_back(std::string("keys() lists absent ") + KEYS[i]);
        }
      if (!known)
        o.foreign.push_back(key);
    }
    return o;
  }
};

// ---------------------------------------------------------------------------------------------
// recorded script
// ---------------------------------------------------------------------------------------------
struct Recorded
{
  std::vector<cfs::Event> ev;
  std::vector<int> mutIdx;  // indices into ev of the mutation events
  std::vector<Adm> S;       // S[0] = base, S[i+1] = after script op i
  std::vector<bool> acked;  // per op: returned without throwing
  std::string ops;
  bool openFailed = false;
  std::string openError;
  std::string opErrors;
  uint64_t unmodelled = 0;
  std::string unmodelledWhat;
};

// Run `ops` on a real store opened on top of `base` (materialised into env.dir), recording the file
// mutations.  The store is then destroyed with recording off: the crash images come from the log.
inline Recorded recordScript(Env &env, const cfs::Image &base, const Adm &A0, const std::string &ops, uint64_t *instances)
{
  Recorded r;
  r.ops = ops;
  r.S.push_back(A0);
  base.materialise(env.dir);
  cfs::start(env.dir);
  {
    Store st(&env, instances);
    cfs::mark(cfs::BEGIN, -1);
    bool ok = st.open(&r.openError);
    cfs::mark(cfs::END, -1);
    if (!ok)
      r.openFailed = true;
    else
    {
      for (size_t i = 0; i < ops.size(); ++i)
      {
        int64_t T = nowMs();
        std::string err;
        cfs::mark(cfs::BEGIN, int(i));
        bool acked = st.apply(ops[i], &err);
        cfs::mark(cfs::END, int(i));
        r.acked.push_back(acked);
        Adm next = applyAdm(ops[i], r.S.back(), T);
        if (!acked)
        {
          // a call that threw is not acknowledged: its keys may hold the old or the new state
          r.opErrors += std::string(1, ops[i]) + ":" + err + ";";
          const OpDef *od = opDef(ops[i]);
          for (int k = 0; k < NKEYS; ++k)
            if (od && (od->touched >> k & 1))
              next.k[k] = ksUnion(next.k[k], r.S.back().k[k]);
            else
              next.k[k] = r.S.back().k[k];
          r.S.push_back(next);
          if (!st.s) // the reopen inside 'R' failed: nothing more can run
          {
            r.openFailed = true;
            r.openError = err;
            r.ops.resize(i + 1);
            break;
          }
          continue;
        }
        r.S.push_back(next);
      }
    }
    cfs::stop();
    r.ev = cfs::log();
    r.unmodelled = cfs::unmodelled();
    r.unmodelledWhat = cfs::unmodelledWhat();
    st.close(); // not recorded: a crash runs no destructor
  }
  for (size_t i = 0; i < r.ev.size(); ++i)
    if (r.ev[i].mutation())
      r.mutIdx.push_back(int(i));
  return r;
}

// Admissible states at the instant "just before event j" (j in [0, ev.size()]).
inline Adm admAtInstant(const Recorded &r, size_t j)
{
  // find the enclosing call, if any: the last marker before j
  int inOp = -100; // -100 = between calls
  int done = -1;   // number of script ops whose END precedes j (prelude not counted)
  int completed = 0;
  for (size_t i = 0; i < j && i < r.ev.size(); ++i)
  {
    if (r.ev[i].kind == cfs::BEGIN)
      inOp = r.ev[i].op;
    else if (r.ev[i].kind == cfs::END)
    {
      inOp = -100;
      if (r.ev[i].op >= 0)
        completed = r.ev[i].op + 1;
    }
  }
  (void)done;
  if (inOp == -100 || inOp < 0) // between calls, or inside the opening of the store (no key touched)
    return r.S[std::min<size_t>(size_t(completed), r.S.size() - 1)];
  Adm a = r.S[size_t(inOp)];
  const OpDef *od = opDef(r.ops[size_t(inOp)]);
  if (size_t(inOp) + 1 < r.S.size())
    for (int k = 0; k < NKEYS; ++k)
      if (od && (od->touched >> k & 1))
        a.k[k] = ksUnion(a.k[k], r.S[size_t(inOp) + 1].k[k]);
  return a;
}

struct CrashPoint
{
  int m = 0;        // number of fully applied mutations
  uint64_t cut = 0; // bytes of mutation m that reached the file (0 = none)
  std::string shape; // structural description of the position
  int inflightOp = -100;
};

// Admissible set for the image (m, cut): intersection over all crash instants that produce it.
inline Adm admForImage(const Recorded &r, int m, uint64_t cut, bool *emptyIntersection)
{
  if (cut > 0)
    return admAtInstant(r, size_t(r.mutIdx[size_t(m)]) + 0) /* inside event: markers before it decide */;
  size_t lo = m == 0 ? 0 : size_t(r.mutIdx[size_t(m - 1)]) + 1;
  size_t hi = size_t(m) < r.mutIdx.size() ? size_t(r.mutIdx[size_t(m)]) : r.ev.size();
  Adm a = admAtInstant(r, lo);
  for (size_t j = lo + 1; j <= hi; ++j)
  {
    Adm b = admAtInstant(r, j);
    for (int k = 0; k < NKEYS; ++k)
    {
      a.k[k] = ksIntersect(a.k[k], b.k[k]);
      if (a.k[k].empty() && emptyIntersection)
        *emptyIntersection = true;
    }
  }
  return a;
}

inline std::string eventShape(const cfs::Event &e)
{
  switch (e.kind)
  {
  case cfs::OPEN:
    return "open(" + e.path + (e.created ? ",create" : "") + (e.truncated ? ",trunc" : "") + ")";
  case cfs::WRITE:
    return "write(" + e.path + ")";
  case cfs::TRUNC:
    return "truncate(" + e.path + ")";
  case cfs::RENAME:
    return "rename(" + e.path + ">" + e.path2 + ")";
  case cfs::UNLINK:
    return "unlink(" + e.path + ")";
  default:
    return "?";
  }
}
inline std::string shapeOf(const Recorded &r, int m, uint64_t cut)
{
  if (cut > 0)
    return "torn-" + eventShape(r.ev[size_t(r.mutIdx[size_t(m)])]);
  if (m == 0)
    return "start";
  return "after-" + eventShape(r.ev[size_t(r.mutIdx[size_t(m - 1)])]);
}

// ---------------------------------------------------------------------------------------------
// sink: violations + counters
// ---------------------------------------------------------------------------------------------
struct Sink
{
  virtual ~Sink() {}
  virtual void violation(const std::string &clause, const std::string &sig, const std::string &kase, const std::string &detail) = 0;
  virtual void count(const char *name, uint64_t n = 1) = 0;
  virtual void distinct(uint64_t hash) = 0; // distinct non-trivial (image, continuation) cases
  virtual void sample(const std::string &) {}
};

// ---------------------------------------------------------------------------------------------
// comparing an observation with the admissible set
// ---------------------------------------------------------------------------------------------
struct Mismatch
{
  std::string kind; // lost-missing | lost-stale | resurrected | foreign-value | expiry-wrong | expired-visible | foreign-key
  int key = -1;
  std::string detail;
};

inline KObs visibleOf(const KS &s, int64_t T)
{
  KObs o;
  if (s.present && (s.exp == NOEXP || s.exp > T))
  {
    o.present = true;
    o.val = s.val;
    o.ttl = s.exp == NOEXP ? -1 : long((s.exp - T) / 1000);
  }
  return o;
}
inline bool sameObs(const KObs &a, const KObs &b)
{
  return a.present == b.present && (!a.present || (a.val == b.val && a.ttl == b.ttl));
}
// everVals[k]: every value key k held in any model state of this case (to tell stale from foreign)
inline std::vector<Mismatch> compare(const Obs &o, const Adm &A, int64_t T, const std::vector<std::string> everVals[NKEYS])
{
  std::vector<Mismatch> out;
  for (int k = 0; k < NKEYS; ++k)
  {
    bool ok = false;
    bool anyPresent = false, anyAbsent = false, valueMatch = false, expiredMatch = false;
    for (auto &s : A.k[k])
    {
      KObs v = visibleOf(s, T);
      if (sameObs(v, o.k[k]))
        ok = true;
      if (v.present)
        anyPresent = true;
      else
        anyAbsent = true;
      if (v.present && o.k[k].present && v.val == o.k[k].val)
        valueMatch = true;
      if (!v.present && s.present && o.k[k].present && s.val == o.k[k].val)
        expiredMatch = true;
    }
    if (ok)
      continue;
    Mismatch mm;
    mm.key = k;
    if (!o.k[k].present)
      mm.kind = "lost-missing";
    else if (valueMatch)
      mm.kind = "expiry-wrong";
    else if (expiredMatch)
      mm.kind = "expired-visible";
    else
    {
      bool ever = std::find(everVals[k].begin(), everVals[k].end(), o.k[k].val) != everVals[k].end();
      if (!ever)
        mm.kind = "foreign-value";
      else if (!anyPresent)
        mm.kind = "resurrected";
      else
        mm.kind = "lost-stale";
    }
    (void)anyAbsent;
    std::string adm;
    for (auto &s : A.k[k])
    {
      KObs v = visibleOf(s, T);
      adm += (adm.empty() ? "" : "|");
      adm += !v.present ? "absent" : "'" + v.val + "'" + (v.ttl >= 0 ? "@ttl=" + std::to_string(v.ttl) + "s" : "");
    }
    mm.detail = std::string("key ") + KEYS[k] + ": admissible {" + adm + "}, store shows " +
                (!o.k[k].present ? std::string("absent")
                                 : "'" + o.k[k].val + "'" + (o.k[k].ttl >= 0 ? "@ttl=" + std::to_string(o.k[k].ttl) + "s" : ""));
    out.push_back(mm);
  }
  for (auto &f : o.foreign)
  {
    Mismatch mm;
    mm.kind = "foreign-key";
    mm.detail = "unexpected key/inconsistent listing: " + f;
    out.push_back(mm);
  }
  return out;
}

// ---------------------------------------------------------------------------------------------
// continuations
// ---------------------------------------------------------------------------------------------
struct Cont
{
  char kind = 'a';   // a: reopen | b: reopen, close, reopen | c: reopen, op, close, reopen | d: reopen, op crashed everywhere, reopen
  char op = 0;       // further op (c, d)
  int wallAdvS = 0;  // wall clock advanced by this much between crash and reopen
  std::string str() const
  {
    std::string s(1, kind);
    if (op)
      s += std::string(":") + op;
    if (wallAdvS)
      s += "+w" + std::to_string(wallAdvS);
    return s;
  }
};

struct CaseId
{
  std::string hist;
  int m = 0;
  uint64_t cut = 0;
  Cont cont;
  int m2 = -1; // (d) second-level crash point
  uint64_t cut2 = 0;
  std::string str() const
  {
    std::ostringstream s;
    s << "kv h=" << (hist.empty() ? "-" : hist) << " m=" << m << " cut=" << cut << " k=" << cont.kind << " o=" << (cont.op ? cont.op : '-')
      << " w=" << cont.wallAdvS;
    if (m2 >= 0)
      s << " m2=" << m2 << " cut2=" << cut2;
    return s.str();
  }
  static bool parse(const std::string &t, CaseId &c)
  {
    char h[64] = {0}, k = 0, o = 0;
    int m = 0, w = 0, m2 = -1;
    unsigned long long cut = 0, cut2 = 0;
    int n = sscanf(t.c_str(), "kv h=%63s m=%d cut=%llu k=%c o=%c w=%d m2=%d cut2=%llu", h, &m, &cut, &k, &o, &w, &m2, &cut2);
    if (n < 6)
      return false;
    c.hist = std::string(h) == "-" ? "" : h;
    c.m = m;
    c.cut = cut;
    c.cont.kind = k;
    c.cont.op = o == '-' ? 0 : o;
    c.cont.wallAdvS = w;
    c.m2 = n >= 8 ? m2 : -1;
    c.cut2 = n >= 8 ? cut2 : 0;
    return true;
  }
};

struct Ctx
{
  Env *env = nullptr;
  Sink *sink = nullptr;
  std::string hist;               // level-1 history
  std::vector<std::string> ever[NKEYS]; // values ever held by each key in any model state of the case
  std::string lastOpCls[NKEYS];   // class of the last acknowledged level-1 op that touched the key
  uint64_t instances = 0;         // store instances created (thread budget under mcsched)
  int onlyM2 = -1;                // replay of a (d) case: evaluate only this second-level point
  uint64_t onlyCut2 = 0;
  // (d): given the number of second-level crash images, which ordinals [from,to) to evaluate now
  // (the scheduler part splits them over several executions: thread budget)
  std::function<std::pair<int, int>(int)> dSelect;
  bool anyViolation = false;
};

inline void noteEver(Ctx &c, const Adm &a)
{
  for (int k = 0; k < NKEYS; ++k)
    for (auto &s : a.k[k])
      if (s.present && std::find(c.ever[k].begin(), c.ever[k].end(), s.val) == c.ever[k].end())
        c.ever[k].push_back(s.val);
}

inline void report(Ctx &c, const CaseId &id, const std::string &clause, const std::string &kind, const std::string &opCls,
                   const std::string &shape, const std::string &detail)
{
  std::string sig = kind + ":op=" + opCls + ":crash=" + shape + ":cont=" + std::string(1, id.cont.kind);
  c.anyViolation = true;
  c.sink->violation(clause, sig, id.str(),
                    "history [" + histName(c.hist) + "] crash point m=" + std::to_string(id.m) + " cut=" + std::to_string(id.cut) + " (" + shape +
                        ") continuation " + id.cont.str() + (id.m2 >= 0 ? " second crash m2=" + std::to_string(id.m2) + " cut2=" + std::to_string(id.cut2) : "") +
                        ": " + detail);
  if (c.env->verbose)
    printf("  VIOLATION %s / %s :: %s\n", clause.c_str(), sig.c_str(), detail.c_str());
}

// Reopen the materialised directory, observe, compare.  opClsFor(key) names the acknowledged call whose
// effect a mismatch on that key loses.
inline bool reopenAndCheck(Ctx &c, const CaseId &id, const Adm &A, const std::string &shape, const std::string opCls[NKEYS],
                           const char *stage)
{
  Store st(c.env, &c.instances);
  std::string err;
  c.sink->count("recoveries");
  if (!st.open(&err))
  {
    report(c, id, "reopen-succeeds", std::string("throws@") + stage, "-", shape, "reopening threw: " + err);
    return false;
  }
  Obs o = st.observe();
  int64_t T = nowMs();
  st.close();
  if (c.env->verbose)
    printf("    %s: store shows %s ; admissible %s\n", stage, o.str().c_str(), A.str().c_str());
  std::vector<Mismatch> mm = compare(o, A, T, c.ever);
  std::vector<std::string> seen;
  for (auto &m : mm)
  {
    std::string cls = m.key >= 0 ? opCls[m.key] : "-";
    std::string key = m.kind + cls;
    if (std::find(seen.begin(), seen.end(), key) != seen.end())
      continue;
    seen.push_back(key);
    std::string clause = (m.kind == "lost-missing" || m.kind == "lost-stale" || m.kind == "expiry-wrong") ? "acknowledged-state-visible"
                         : m.kind == "expired-visible"                                                      ? "expired-absent"
                                                                                                            : "no-torn-foreign-resurrected";
    report(c, id, clause, m.kind, cls.empty() ? "none" : cls, shape, m.detail + " (" + stage + ")");
  }
  return mm.empty();
}

// Run one continuation on the crash image `im` whose admissible set is A.
inline void runCont(Ctx &c, const cfs::Image &im, const Adm &A, const std::string &shape, const CaseId &idBase, const Cont &ct)
{
  Env &env = *c.env;
  CaseId id = idBase;
  id.cont = ct;
  c.sink->count("cases");
  c.sink->count((std::string("cont_") + ct.kind).c_str());
  if (ct.wallAdvS)
    env.advanceWallMs(int64_t(ct.wallAdvS) * 1000);
  std::string cls[NKEYS];
  for (int k = 0; k < NKEYS; ++k)
    cls[k] = c.lastOpCls[k].empty() ? "none" : c.lastOpCls[k];
  if (ct.kind == 'a')
  {
    im.materialise(env.dir);
    reopenAndCheck(c, id, A, shape, cls, "reopen");
  }
  else if (ct.kind == 'b')
  {
    im.materialise(env.dir);
    {
      Store st(c.env, &c.instances);
      std::string err;
      c.sink->count("recoveries");
      if (st.open(&err))
      {
        st.close();
        reopenAndCheck(c, id, A, shape, cls, "second reopen after clean close");
      }
      // a throwing first reopen is continuation (a)'s finding
    }
  }
  else if (ct.kind == 'c')
  {
    im.materialise(env.dir);
    Store st(c.env, &c.instances);
    std::string err;
    c.sink->count("recoveries");
    if (st.open(&err))
    {
      int64_t T = nowMs();
      bool acked = st.apply(ct.op, &err);
      bool alive = bool(st.s);
      st.close();
      const OpDef *od = opDef(ct.op);
      Adm A2 = applyAdm(ct.op, A, T);
      if (!acked)
      {
        c.sink->count("further_op_threw");
        for (int k = 0; k < NKEYS; ++k)
          A2.k[k] = (od->touched >> k & 1) ? ksUnion(A2.k[k], A.k[k]) : A.k[k];
      }
      else
        for (int k = 0; k < NKEYS; ++k)
          if (od->touched >> k & 1)
            cls[k] = od->cls;
      noteEver(c, A2);
      if (alive || ct.op != 'R')
        reopenAndCheck(c, id, A2, shape, cls, "reopen after acknowledged further op + clean close");
    }
  }
  else if (ct.kind == 'd')
  {
    Recorded r2 = recordScript(env, im, A, std::string(1, ct.op), &c.instances);
    c.sink->count("recoveries");
    c.sink->count("second_level_scripts");
    if (r2.unmodelled)
      c.sink->violation("harness-internal", "crashfs-unmodelled", id.str(), r2.unmodelledWhat);
    if (!r2.openFailed)
    {
      for (auto &s : r2.S)
        noteEver(c, s);
      const OpDef *od = opDef(ct.op);
      std::string cls2[NKEYS];
      cfs::Image im2 = im;
      int M = int(r2.mutIdx.size());
      int total = -1; // (0,0) is skipped
      for (int m = 0; m <= M; ++m)
        total += (m < M && r2.ev[size_t(r2.mutIdx[size_t(m)])].kind == cfs::WRITE) ? int(r2.ev[size_t(r2.mutIdx[size_t(m)])].len) : 1;
      std::pair<int, int> range = c.dSelect ? c.dSelect(total) : std::make_pair(0, total);
      int ordinal = 0;
      for (int m = 0; m <= M; ++m)
      {
        uint64_t len = (m < M && r2.ev[size_t(r2.mutIdx[size_t(m)])].kind == cfs::WRITE) ? r2.ev[size_t(r2.mutIdx[size_t(m)])].len : 1;
        for (uint64_t cut = 0; cut < len; ++cut)
        {
          if (m == 0 && cut == 0)
            continue; // = the first-level image itself (continuation a)
          int ord = ordinal++;
          if (ord < range.first || ord >= range.second)
            continue;
          if (c.onlyM2 >= 0 && !(c.onlyM2 == m && c.onlyCut2 == cut))
            continue;
          bool emptyI = false;
          Adm A2 = admForImage(r2, m, cut, &emptyI);
          if (emptyI)
            c.sink->violation("harness-internal", "empty-admissible-set", id.str(), "second level");
          cfs::Image x = im2;
          if (cut > 0)
            x.applyPartial(r2.ev[size_t(r2.mutIdx[size_t(m)])], cut);
          CaseId id2 = id;
          id2.m2 = m;
          id2.cut2 = cut;
          // the further op counts as acknowledged for a key only if every instant of this image lies after its return
          for (int k = 0; k < NKEYS; ++k)
          {
            cls2[k] = cls[k];
            if ((od->touched >> k & 1) && m == M && r2.acked.size() == 1 && r2.acked[0])
              cls2[k] = od->cls;
          }
          x.materialise(env.dir);
          c.sink->count("second_level_images");
          c.sink->count("cases");
          reopenAndCheck(c, id2, A2, shape, cls2, ("reopen after second crash " + shapeOf(r2, m, cut)).c_str());
        }
        if (m < M)
          im2.apply(r2.ev[size_t(r2.mutIdx[size_t(m)])]);
      }
    }
  }
  if (ct.wallAdvS)
    env.advanceWallMs(-int64_t(ct.wallAdvS) * 1000);
}

// The list of continuations for a tier / history length.
struct ContPlan
{
  bool a = true, b = true, c = false, d = false;
  int nops = NOPS_PLAIN;        // size of the alphabet for further ops
  std::vector<int> wallAdv{0};  // wall-clock variants
};
inline std::vector<Cont> contList(const ContPlan &p)
{
  std::vector<Cont> v;
  for (int w : p.wallAdv)
  {
    if (p.a)
      v.push_back(Cont{'a', 0, w});
    if (p.b)
      v.push_back(Cont{'b', 0, w});
    if (p.c)
      for (int i = 0; i < p.nops; ++i)
        v.push_back(Cont{'c', OPS[i].code, w});
    if (p.d)
      for (int i = 0; i < p.nops; ++i)
        v.push_back(Cont{'d', OPS[i].code, w});
  }
  return v;
}
// worst-case number of store instances a continuation creates (thread budget under mcsched)
inline int contInstances(const Cont &c) { return c.kind == 'a' ? 1 : c.kind == 'b' ? 2 : c.kind == 'c' ? (c.op == 'R' ? 3 : 2) : 1000; }

// ---------------------------------------------------------------------------------------------
// first level: record a history, enumerate the crash images of its LAST call
// ---------------------------------------------------------------------------------------------
struct Level1
{
  Recorded rec;
  int mStart = 0;                   // first crash point belonging to the last call (earlier ones = shorter histories)
  std::vector<CrashPoint> points;   // all crash points from mStart on, in order
};

inline Level1 recordHistory(Ctx &c, const std::string &hist)
{
  Level1 L;
  c.hist = hist;
  L.rec = recordScript(*c.env, cfs::Image(), admEmpty(), hist, &c.instances);
  const Recorded &r = L.rec;
  for (auto &s : r.S)
    noteEver(c, s);
  // crash points of the last call only: the log of h[0..n-2] is a prefix of the log of h (checked by the
  // determinism test of the sequential part), and every shorter history is enumerated as its own case.
  int lastOp = int(hist.size()) - 1;
  size_t beginAt = 0;
  for (size_t i = 0; i < r.ev.size(); ++i)
    if (r.ev[i].kind == cfs::BEGIN && r.ev[i].op == lastOp)
      beginAt = i;
  int m0 = 0;
  for (int mi : r.mutIdx)
    if (size_t(mi) < beginAt)
      ++m0;
  L.mStart = m0;
  int M = int(r.mutIdx.size());
  for (int m = m0; m <= M; ++m)
  {
    uint64_t len = (m < M && r.ev[size_t(r.mutIdx[size_t(m)])].kind == cfs::WRITE) ? r.ev[size_t(r.mutIdx[size_t(m)])].len : 1;
    for (uint64_t cut = 0; cut < len; ++cut)
    {
      CrashPoint cp;
      cp.m = m;
      cp.cut = cut;
      cp.shape = shapeOf(r, m, cut);
      L.points.push_back(cp);
    }
  }
  return L;
}

inline cfs::Image imageAt(const Recorded &r, int m, uint64_t cut)
{
  cfs::Image im;
  for (int i = 0; i < m; ++i)
    im.apply(r.ev[size_t(r.mutIdx[size_t(i)])]);
  if (cut > 0)
    im.applyPartial(r.ev[size_t(r.mutIdx[size_t(m)])], cut);
  return im;
}

// lastOpCls for the image (m,cut): class of the last call on each key that is acknowledged at EVERY
// instant producing the image (used only to name what a mismatch loses).
inline void setLastOpCls(Ctx &c, const Recorded &r, int m, uint64_t cut)
{
  size_t upto = cut > 0 ? size_t(r.mutIdx[size_t(m)]) : (size_t(m) < r.mutIdx.size() ? size_t(r.mutIdx[size_t(m)]) : r.ev.size());
  for (int k = 0; k < NKEYS; ++k)
    c.lastOpCls[k].clear();
  for (size_t i = 0; i < upto; ++i)
    if (r.ev[i].kind == cfs::END && r.ev[i].op >= 0 && size_t(r.ev[i].op) < r.acked.size() && r.acked[size_t(r.ev[i].op)])
    {
      const OpDef *od = opDef(r.ops[size_t(r.ev[i].op)]);
      for (int k = 0; k < NKEYS; ++k)
        if (od && (od->touched >> k & 1))
          c.lastOpCls[k] = od->cls;
    }
}

inline uint64_t mixHash(uint64_t h, uint64_t v)
{
  h ^= v + 0x9E3779B97F4A7C15ull + (h << 6) + (h >> 2);
  return h * 0xff51afd7ed558ccdull;
}

// Evaluate one crash point of a recorded history with the given continuations.
inline void evalPoint(Ctx &c, const Level1 &L, const CrashPoint &cp, const std::vector<Cont> &conts)
{
  const Recorded &r = L.rec;
  bool emptyI = false;
  Adm A = admForImage(r, cp.m, cp.cut, &emptyI);
  CaseId id;
  id.hist = c.hist;
  id.m = cp.m;
  id.cut = cp.cut;
  if (emptyI)
    c.sink->violation("harness-internal", "empty-admissible-set", id.str(), A.str());
  cfs::Image im = imageAt(r, cp.m, cp.cut);
  setLastOpCls(c, r, cp.m, cp.cut);
  c.sink->count("crash_images");
  if (cp.cut > 0)
    c.sink->count("crash_images_torn");
  if (c.env->verbose)
  {
    printf("  image m=%d cut=%llu (%s): files:", cp.m, (unsigned long long)cp.cut, cp.shape.c_str());
    for (auto &kv : im.files)
      printf(" %s[%zu]=%s", kv.first.c_str(), kv.second.size(), vr::hex(kv.second).c_str());
    printf("\n  admissible: %s\n", A.str().c_str());
  }
  uint64_t ih = im.hash();
  bool nontrivial = false;
  for (int k = 0; k < NKEYS; ++k)
    if (A.k[k].size() > 1)
      nontrivial = true;
  for (const Cont &ct : conts)
  {
    if (nontrivial || cp.cut > 0)
      c.sink->distinct(mixHash(mixHash(ih, uint64_t(ct.kind) << 16 | uint64_t(ct.op) << 8), uint64_t(ct.wallAdvS)));
    // the ever-values depend on the continuation: restore afterwards
    std::vector<std::string> saved[NKEYS];
    for (int k = 0; k < NKEYS; ++k)
      saved[k] = c.ever[k];
    runCont(c, im, A, cp.shape, id, ct);
    for (int k = 0; k < NKEYS; ++k)
      c.ever[k] = saved[k];
  }
}

inline void checkRecording(Ctx &c, const Level1 &L)
{
  CaseId id;
  id.hist = c.hist;
  if (L.rec.unmodelled)
    c.sink->violation("harness-internal", "crashfs-unmodelled", id.str(), L.rec.unmodelledWhat);
  if (L.rec.openFailed)
    c.sink->violation("reopen-succeeds", "throws-in-history:op=" + std::string(L.rec.ops.empty() ? "open" : "reopen"), id.str(),
                      "opening the store inside a crash-free history threw: " + L.rec.openError);
  for (size_t i = 0; i < L.rec.acked.size(); ++i)
    if (!L.rec.acked[i] && !L.rec.openFailed)
      c.sink->violation("harness-internal", "history-op-threw", id.str(), L.rec.opErrors);
  // the final image of a crash-free run must equal the real directory (the log is complete)
}

} // namespace c11

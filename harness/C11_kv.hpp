// C11 — shared machinery of the KVStore crash-enumeration parts (C11_kv_seq, C11_kv_ttl).
//
// A *script* (operation history) is run on the real iora::storage::KVStore in a scratch directory while
// rt/crashfs records every file mutation with begin/end markers of the API call that caused it.  From
// the recorded log the enumerator rebuilds the directory image after EVERY prefix of the log and, for
// the next write, after EVERY byte cut, and hands each image to the continuations, which reopen it with
// a fresh store instance on the real recovery path and compare what is visible with the set of states
// the property statement admits.
//
// Oracle (exactly the statement of C11): reopening must not throw; for every key the visible
// value/expiry is the effect of the last operation on that key that had returned before the cut; keys
// touched by the operation in flight may show the old or the new state; nothing else (no torn, foreign
// or resurrected value; expired keys absent).  The admissible states are kept per key as a SET
// (in-flight keys: {old,new}); further operations of a continuation map the set element-wise, a second
// crash unions again.  An image that is reachable from several crash instants (e.g. the image after the
// last file operation of a call = the image after the call returned) must satisfy all of them, so the
// per-key sets of those instants are intersected.
#pragma once
#include "crashfs.h"
#include "report.hpp"

#include <iora/storage/kvstore.hpp>

#include <algorithm>
#include <functional>
#include <map>
#include <memory>
#include <sstream>
#include <sys/mman.h>

namespace c11
{
using iora::storage::KVStore;
using iora::storage::KVStoreConfig;

constexpr int NKEYS = 2;
static const char *const KEYS[NKEYS] = {"a", "b"};
constexpr int64_t NOEXP = INT64_MIN;
constexpr int64_t TTL_S = 100;       // set(a,"3",ttl)
constexpr int64_t EXPIRE_AT_S = 250; // expireAt(a, now + 250 s)

// ---------------------------------------------------------------------------------------------
// alphabet
// ---------------------------------------------------------------------------------------------
struct OpDef
{
  char code;
  const char *name;
  const char *cls; // class used in signatures
  unsigned touched; // bit mask of keys the call may change
  bool ttl;         // needs the TTL machinery (threads)
};
static const OpDef OPS[] = {
    {'1', "set(a,1)", "set", 1, false},
    {'2', "set(a,2)", "set", 1, false},
    {'b', "set(b,\"\")", "set", 2, false},
    {'r', "remove(a)", "remove", 1, false},
    {'B', "setBatch{a:4,b:5}", "batch", 3, false},
    {'c', "clear()", "clear", 3, false},
    {'k', "compact()", "compact", 0, false},
    {'R', "close+reopen", "reopen", 0, false},
    {'t', "set(a,3,ttl=100s)", "expiry", 1, true},
    {'e', "expireAt(a,now+250s)", "expiry", 1, true},
    {'p', "persist(a)", "expiry", 1, true},
};
constexpr int NOPS_PLAIN = 8; // first 8: no TTL machinery involved
constexpr int NOPS_ALL = 11;

inline const OpDef *opDef(char c)
{
  for (const OpDef &o : OPS)
    if (o.code == c)
      return &o;
  return nullptr;
}
inline std::string histName(const std::string &h)
{
  std::string s;
  for (char c : h)
  {
    const OpDef *o = opDef(c);
    s += (s.empty() ? "" : "; ");
    s += o ? o->name : "?";
  }
  return s.empty() ? "(empty)" : s;
}

// ---------------------------------------------------------------------------------------------
// reference model
// ---------------------------------------------------------------------------------------------
struct KS
{
  bool present = false;
  std::string val;
  int64_t exp = NOEXP; // absolute epoch ms, NOEXP = none
  bool operator==(const KS &o) const { return present == o.present && (!present || (val == o.val && exp == o.exp)); }
  bool operator<(const KS &o) const
  {
    if (present != o.present)
      return present < o.present;
    if (!present)
      return false;
    if (val != o.val)
      return val < o.val;
    return exp < o.exp;
  }
  std::string str() const
  {
    if (!present)
      return "absent";
    std::string s = "'" + val + "'";
    if (exp != NOEXP)
      s += "@exp=" + std::to_string(exp);
    return s;
  }
};
using KSet = std::vector<KS>; // sorted, unique
inline void ksInsert(KSet &s, const KS &k)
{
  auto it = std::lower_bound(s.begin(), s.end(), k);
  if (it == s.end() || !(*it == k))
    s.insert(it, k);
}
inline KSet ksUnion(const KSet &a, const KSet &b)
{
  KSet r = a;
  for (auto &k : b)
    ksInsert(r, k);
  return r;
}
inline KSet ksIntersect(const KSet &a, const KSet &b)
{
  KSet r;
  for (auto &k : a)
    if (std::binary_search(b.begin(), b.end(), k))
      r.push_back(k);
  return r;
}
struct Adm
{
  KSet k[NKEYS];
  std::string str() const
  {
    std::string s;
    for (int i = 0; i < NKEYS; ++i)
    {
      s += std::string(i ? " " : "") + KEYS[i] + "∈{";
      for (size_t j = 0; j < k[i].size(); ++j)
        s += (j ? "|" : "") + k[i][j].str();
      s += "}";
    }
    return s;
  }
};
inline Adm admEmpty()
{
  Adm a;
  for (int i = 0; i < NKEYS; ++i)
    a.k[i].push_back(KS{});
  return a;
}

// effect of one call on ONE key whose state is s, at wall time nowMs
inline KS applyKey(char op, int key, const KS &s, int64_t nowMs)
{
  KS r = s;
  // an expired entry behaves as absent for the purposes of this check: time never passes inside a
  // history, so a state can only be expired after a wall-clock advance between crash and reopen, and
  // reopening drops expired keys.
  bool live = s.present && (s.exp == NOEXP || s.exp > nowMs);
  if (!live)
    r = KS{};
  switch (op)
  {
  case '1':
    if (key == 0)
      r = KS{true, "1", NOEXP};
    break;
  case '2':
    if (key == 0)
      r = KS{true, "2", NOEXP};
    break;
  case 'b':
    if (key == 1)
      r = KS{true, "", NOEXP};
    break;
  case 'r':
    if (key == 0)
      r = KS{};
    break;
  case 't':
    if (key == 0)
      r = KS{true, "3", nowMs + TTL_S * 1000};
    break;
  case 'e':
    if (key == 0 && live)
      r.exp = nowMs + EXPIRE_AT_S * 1000;
    break;
  case 'p':
    if (key == 0 && live)
      r.exp = NOEXP;
    break;
  case 'B':
    r = key == 0 ? KS{true, "4", NOEXP} : KS{true, "5", NOEXP};
    break;
  case 'c':
    r = KS{};
    break;
  default: // 'k', 'R': no change
    break;
  }
  return r;
}
inline Adm applyAdm(char op, const Adm &a, int64_t nowMs)
{
  Adm r;
  for (int i = 0; i < NKEYS; ++i)
    for (auto &s : a.k[i])
      ksInsert(r.k[i], applyKey(op, i, s, nowMs));
  return r;
}

// ---------------------------------------------------------------------------------------------
// environment (plain process or mcsched execution)
// ---------------------------------------------------------------------------------------------
struct Env
{
  std::function<void()> settle = [] {};                  // let background threads reach their waits
  std::function<void(int64_t)> advanceWallMs = [](int64_t) {}; // jump the wall clock
  std::string dir;                                        // scratch directory (exists)
  bool verbose = false;
};
inline int64_t nowMs()
{
  return std::chrono::duration_cast<std::chrono::milliseconds>(std::chrono::system_clock::now().time_since_epoch()).count();
}
inline KVStoreConfig storeConfig()
{
  KVStoreConfig c;
  c.enableBackgroundCompaction = false;
  c.maxLogSizeBytes = 64; // inline compaction triggers inside short histories
  c.maxCacheSize = 4;
  return c;
}

// ---------------------------------------------------------------------------------------------
// driving the real store
// ---------------------------------------------------------------------------------------------
struct KObs
{
  bool present = false;
  std::string val;
  long ttl = -1; // seconds, -1 = none
};
struct Obs
{
  KObs k[NKEYS];
  std::vector<std::string> foreign; // keys outside the universe
  std::string str() const
  {
    std::string s;
    for (int i = 0; i < NKEYS; ++i)
    {
      s += std::string(i ? " " : "") + KEYS[i] + "=";
      if (!k[i].present)
        s += "absent";
      else
      {
        s += "'" + k[i].val + "'";
        if (k[i].ttl >= 0)
          s += "@ttl=" + std::to_string(k[i].ttl) + "s";
      }
    }
    for (auto &f : foreign)
      s += " FOREIGN-KEY(" + vr::hex(f) + ")";
    return s;
  }
};

struct Store
{
  std::unique_ptr<KVStore> s;
  Env *env = nullptr;
  uint64_t *instances = nullptr;
  explicit Store(Env *e, uint64_t *inst = nullptr) : env(e), instances(inst) {}
  bool open(std::string *err)
  {
    if (instances)
      ++*instances;
    try
    {
      s = std::make_unique<KVStore>(env->dir + "/kv", storeConfig());
    }
    catch (const std::exception &e)
    {
      if (err)
        *err = e.what();
      s.reset();
      return false;
    }
    env->settle();
    return true;
  }
  void close()
  {
    s.reset(); // destructor = clean shutdown
  }
  // returns false if the call threw (then it is not acknowledged)
  bool apply(char op, std::string *err)
  {
    try
    {
      switch (op)
      {
      case '1':
        s->setString("a", "1");
        break;
      case '2':
        s->setString("a", "2");
        break;
      case 'b':
        s->setString("b", "");
        break;
      case 'r':
        s->remove("a");
        break;
      case 't':
        s->setString("a", "3", std::chrono::seconds(TTL_S));
        break;
      case 'e':
        s->expireAt("a", std::chrono::system_clock::now() + std::chrono::seconds(EXPIRE_AT_S));
        break;
      case 'p':
        s->persist("a");
        break;
      case 'B':
        s->setBatch({{"a", {'4'}}, {"b", {'5'}}});
        break;
      case 'c':
        s->clear();
        break;
      case 'k':
        s->compact();
        break;
      case 'R':
        close();
        if (!open(err))
          return false;
        break;
      default:
        break;
      }
    }
    catch (const std::exception &e)
    {
      if (err)
        *err = e.what();
      env->settle();
      return false;
    }
    env->settle();
    return true;
  }
  Obs observe()
  {
    Obs o;
    for (int i = 0; i < NKEYS; ++i)
    {
      auto v = s->getString(KEYS[i]);
      if (v)
      {
        o.k[i].present = true;
        o.k[i].val = *v;
        auto t = s->ttl(KEYS[i]);
        o.k[i].ttl = t ? long(t->count()) : -1;
      }
      bool ex = s->exists(KEYS[i]);
      if (ex != o.k[i].present)
        o.foreign.push_back(std::string("exists()!=get() for ") + KEYS[i]);
    }
    std::vector<std::string> ks = s->keys();
    std::sort(ks.begin(), ks.end());
    size_t visible = 0;
    for (auto &key : ks)
    {
      bool known = false;
      for (int i = 0; i < NKEYS; ++i)
        if (key == KEYS[i])
        {
          known = true;
          if (o.k[i].present)
            ++visible;
          else
            o.foreign.push_back(std::string("keys() lists absent ") + KEYS[i]);
        }
      if (!known)
        o.foreign.push_back(key);
    }
    return o;
  }
};

// ---------------------------------------------------------------------------------------------
// recorded script
// ---------------------------------------------------------------------------------------------
struct Recorded
{
  std::vector<cfs::Event> ev;
  std::vector<int> mutIdx;  // indices into ev of the mutation events
  std::vector<Adm> S;       // S[0] = base, S[i+1] = after script op i
  std::vector<bool> acked;  // per op: returned without throwing
  std::string ops;
  bool openFailed = false;
  std::string openError;
  std::string opErrors;
  uint64_t unmodelled = 0;
  std::string unmodelledWhat;
  bool dirChecked = false, dirMatches = true; // image rebuilt from the log == directory at the crash instant
};

// Run `ops` on a real store opened on top of `base` (materialised into env.dir), recording the file
// mutations.  The store is then destroyed with recording off: the crash images come from the log.
inline Recorded recordScript(Env &env, const cfs::Image &base, const Adm &A0, const std::string &ops, uint64_t *instances,
                             bool verifyDir = false)
{
  Recorded r;
  r.ops = ops;
  r.S.push_back(A0);
  base.materialise(env.dir);
  cfs::start(env.dir);
  {
    Store st(&env, instances);
    cfs::mark(cfs::BEGIN, -1);
    bool ok = st.open(&r.openError);
    cfs::mark(cfs::END, -1);
    if (!ok)
      r.openFailed = true;
    else
    {
      for (size_t i = 0; i < ops.size(); ++i)
      {
        int64_t T = nowMs();
        std::string err;
        cfs::mark(cfs::BEGIN, int(i));
        bool acked = st.apply(ops[i], &err);
        cfs::mark(cfs::END, int(i));
        r.acked.push_back(acked);
        Adm next = applyAdm(ops[i], r.S.back(), T);
        if (!acked)
        {
          // a call that threw is not acknowledged: its keys may hold the old or the new state
          r.opErrors += std::string(1, ops[i]) + ":" + err + ";";
          const OpDef *od = opDef(ops[i]);
          for (int k = 0; k < NKEYS; ++k)
            if (od && (od->touched >> k & 1))
              next.k[k] = ksUnion(next.k[k], r.S.back().k[k]);
            else
              next.k[k] = r.S.back().k[k];
          r.S.push_back(next);
          if (!st.s) // the reopen inside 'R' failed: nothing more can run
          {
            r.openFailed = true;
            r.openError = err;
            r.ops.resize(i + 1);
            break;
          }
          continue;
        }
        r.S.push_back(next);
      }
    }
    cfs::stop();
    r.ev = cfs::log();
    r.unmodelled = cfs::unmodelled();
    r.unmodelledWhat = cfs::unmodelledWhat();
    if (verifyDir)
    {
      // the directory as the crash would leave it (the store object is still alive, nothing more is flushed)
      cfs::Image model = base, real = cfs::Image::readDir(env.dir);
      for (auto &e : r.ev)
        if (e.mutation())
          model.apply(e);
      r.dirChecked = true;
      r.dirMatches = model.files == real.files;
    }
    st.close(); // not recorded: a crash runs no destructor
  }
  for (size_t i = 0; i < r.ev.size(); ++i)
    if (r.ev[i].mutation())
      r.mutIdx.push_back(int(i));
  return r;
}

// Admissible states at the instant "just before event j" (j in [0, ev.size()]).
inline Adm admAtInstant(const Recorded &r, size_t j, bool *inCall = nullptr)
{
  // find the enclosing call, if any: the last marker before j
  int inOp = -100; // -100 = between calls
  int done = -1;   // number of script ops whose END precedes j (prelude not counted)
  int completed = 0;
  for (size_t i = 0; i < j && i < r.ev.size(); ++i)
  {
    if (r.ev[i].kind == cfs::BEGIN)
      inOp = r.ev[i].op;
    else if (r.ev[i].kind == cfs::END)
    {
      inOp = -100;
      if (r.ev[i].op >= 0)
        completed = r.ev[i].op + 1;
    }
  }
  (void)done;
  if (inCall)
    *inCall = inOp >= 0;
  if (inOp == -100 || inOp < 0) // between calls, or inside the opening of the store (no key touched)
    return r.S[std::min<size_t>(size_t(completed), r.S.size() - 1)];
  Adm a = r.S[size_t(inOp)];
  const OpDef *od = opDef(r.ops[size_t(inOp)]);
  if (size_t(inOp) + 1 < r.S.size())
    for (int k = 0; k < NKEYS; ++k)
      if (od && (od->touched >> k & 1))
        a.k[k] = ksUnion(a.k[k], r.S[size_t(inOp) + 1].k[k]);
  return a;
}

struct CrashPoint
{
  int m = 0;        // number of fully applied mutations
  uint64_t cut = 0; // bytes of mutation m that reached the file (0 = none)
  std::string shape; // structural description of the position
  int inflightOp = -100;
};

// Admissible set for the image (m, cut): intersection over all crash instants that produce it.
inline Adm admForImage(const Recorded &r, int m, uint64_t cut, bool *emptyIntersection, bool *boundary = nullptr)
{
  if (cut > 0)
    return admAtInstant(r, size_t(r.mutIdx[size_t(m)]) + 0) /* inside event: markers before it decide */;
  size_t lo = m == 0 ? 0 : size_t(r.mutIdx[size_t(m - 1)]) + 1;
  size_t hi = size_t(m) < r.mutIdx.size() ? size_t(r.mutIdx[size_t(m)]) : r.ev.size();
  bool inCall = false;
  Adm a = admAtInstant(r, lo, &inCall);
  if (boundary && !inCall)
    *boundary = true;
  Adm latest = a;
  for (size_t j = lo + 1; j <= hi; ++j)
  {
    Adm b = admAtInstant(r, j, &inCall);
    if (boundary && !inCall)
      *boundary = true;
    for (int k = 0; k < NKEYS; ++k)
      a.k[k] = ksIntersect(a.k[k], b.k[k]);
    latest = b;
  }
  // Empty intersection: two instants that demand different states share one image, i.e. a call changed a
  // key and returned without any file operation in between.  The image cannot reflect that call, so it
  // fails the later instant whatever it shows: judge it against the latest instant (everything
  // acknowledged so far), which reports the loss as what it is.
  for (int k = 0; k < NKEYS; ++k)
    if (a.k[k].empty())
    {
      a.k[k] = latest.k[k];
      if (emptyIntersection)
        *emptyIntersection = true;
    }
  return a;
}

inline std::string eventShape(const cfs::Event &e)
{
  switch (e.kind)
  {
  case cfs::OPEN:
    return "open(" + e.path + (e.created ? ",create" : "") + (e.truncated ? ",trunc" : "") + ")";
  case cfs::WRITE:
    return "write(" + e.path + ")";
  case cfs::TRUNC:
    return "truncate(" + e.path + ")";
  case cfs::RENAME:
    return "rename(" + e.path + ">" + e.path2 + ")";
  case cfs::UNLINK:
    return "unlink(" + e.path + ")";
  default:
    return "?";
  }
}
inline std::string shapeOf(const Recorded &r, int m, uint64_t cut)
{
  if (cut > 0)
    return "torn-" + eventShape(r.ev[size_t(r.mutIdx[size_t(m)])]);
  if (m == 0)
    return "start";
  return "after-" + eventShape(r.ev[size_t(r.mutIdx[size_t(m - 1)])]);
}

// lock-free insert-only set of 64-bit hashes in shared memory (distinct-case counting across workers)
struct SharedSet
{
  uint64_t *tab = nullptr;
  size_t cap = 0;
  volatile uint64_t *count = nullptr;
  void init(size_t capPow2)
  {
    cap = capPow2;
    tab = (uint64_t *)mmap(nullptr, cap * 8 + 64, PROT_READ | PROT_WRITE, MAP_SHARED | MAP_ANONYMOUS | MAP_NORESERVE, -1, 0);
    count = (volatile uint64_t *)(tab + cap);
  }
  void insert(uint64_t h)
  {
    if (!tab)
      return;
    if (h == 0)
      h = 1;
    if (*count > cap / 2)
      return; // saturated: the count becomes a lower bound (reported)
    size_t i = (h * 0x9E3779B97F4A7C15ull) & (cap - 1);
    for (size_t probes = 0; probes < cap; ++probes)
    {
      uint64_t cur = __atomic_load_n(&tab[i], __ATOMIC_RELAXED);
      if (cur == h)
        return;
      if (cur == 0)
      {
        uint64_t exp = 0;
        if (__atomic_compare_exchange_n(&tab[i], &exp, h, false, __ATOMIC_RELAXED, __ATOMIC_RELAXED))
        {
          __atomic_fetch_add(count, 1, __ATOMIC_RELAXED);
          return;
        }
        if (exp == h)
          return;
      }
      i = (i + 1) & (cap - 1);
    }
  }
  bool saturated() const { return count && *count > cap / 2; }
};


// ---------------------------------------------------------------------------------------------
// sink: violations + counters
// ---------------------------------------------------------------------------------------------
struct Sink
{
  virtual ~Sink() {}
  virtual void violation(const std::string &clause, const std::string &sig, const std::string &kase, const std::string &detail) = 0;
  virtual void count(const char *name, uint64_t n = 1) = 0;
  virtual void distinct(uint64_t hash) = 0; // distinct non-trivial (image, continuation) cases
  virtual void sample(const std::string &) {}
};

// ---------------------------------------------------------------------------------------------
// comparing an observation with the admissible set
// ---------------------------------------------------------------------------------------------
struct Finding
{
  std::string kind; // ack-lost | foreign-state | expired-visible | foreign-key | throws
  int key = -1;
  std::string cls;  // class of the acknowledged call whose effect the mismatch loses
  std::string detail;
  int m2 = -1; // continuation d: second-level crash point
  uint64_t cut2 = 0;
  bool secondFinal = false; // d: the further call had returned at the second crash
};
inline std::string clauseOf(const std::string &kind)
{
  if (kind == "throws")
    return "reopen-succeeds";
  if (kind == "ack-lost")
    return "acknowledged-state-visible";
  if (kind == "expired-visible")
    return "expired-absent";
  return "no-torn-foreign-resurrected";
}

inline KObs visibleOf(const KS &s, int64_t T)
{
  KObs o;
  if (s.present && (s.exp == NOEXP || s.exp > T))
  {
    o.present = true;
    o.val = s.val;
    o.ttl = s.exp == NOEXP ? -1 : long((s.exp - T) / 1000);
  }
  return o;
}
inline bool sameObs(const KObs &a, const KObs &b)
{
  return a.present == b.present && (!a.present || (a.val == b.val && a.ttl == b.ttl));
}
inline std::string obsStr(const KObs &v)
{
  return !v.present ? std::string("absent") : "'" + v.val + "'" + (v.ttl >= 0 ? "@ttl=" + std::to_string(v.ttl) + "s" : "");
}
// ever[k]: every state key k held in any model state of this case: a mismatching observation that equals
// one of them is an acknowledged effect lost (stale / vanished / resurrected); anything else is a state
// no call ever produced (torn / foreign).
inline void compare(const Obs &o, const Adm &A, int64_t T, const KSet ever[NKEYS], const std::string cls[NKEYS], const char *stage,
                    std::vector<Finding> &out)
{
  for (int k = 0; k < NKEYS; ++k)
  {
    bool ok = false, expiredMatch = false;
    for (auto &s : A.k[k])
    {
      KObs v = visibleOf(s, T);
      if (sameObs(v, o.k[k]))
        ok = true;
      if (!v.present && s.present && o.k[k].present && s.val == o.k[k].val)
        expiredMatch = true;
    }
    if (ok)
      continue;
    Finding f;
    f.key = k;
    f.cls = cls[k];
    if (expiredMatch)
      f.kind = "expired-visible";
    else if (!o.k[k].present)
      f.kind = "ack-lost";
    else
    {
      bool ever_ = false;
      for (auto &s : ever[k])
        if (sameObs(visibleOf(s, T), o.k[k]))
          ever_ = true;
      f.kind = ever_ ? "ack-lost" : "foreign-state";
    }
    std::string adm;
    for (auto &s : A.k[k])
      adm += (adm.empty() ? "" : "|") + obsStr(visibleOf(s, T));
    f.detail = std::string("key ") + KEYS[k] + ": admissible {" + adm + "}, store shows " + obsStr(o.k[k]) + " (" + stage + ")";
    out.push_back(f);
  }
  for (auto &fk : o.foreign)
  {
    Finding f;
    f.kind = "foreign-key";
    f.cls = "-";
    f.detail = "unexpected key / inconsistent listing: " + fk + " (" + stage + ")";
    bool dup = false;
    for (auto &g : out)
      if (g.kind == f.kind)
        dup = true;
    if (!dup)
      out.push_back(f);
  }
}

// ---------------------------------------------------------------------------------------------
// continuations
// ---------------------------------------------------------------------------------------------
struct Cont
{
  char kind = 'a';   // a: reopen | b: reopen, close, reopen | c: reopen, op, close, reopen | d: reopen, op crashed everywhere, reopen
  char op = 0;       // further op (c, d)
  int wallAdvS = 0;  // wall clock advanced by this much between crash and reopen
  std::string str() const
  {
    std::string s(1, kind);
    if (op)
      s += std::string(":") + op;
    if (wallAdvS)
      s += "+w" + std::to_string(wallAdvS);
    return s;
  }
};

struct CaseId
{
  std::string hist;
  int m = 0;
  uint64_t cut = 0;
  Cont cont;
  int m2 = -1; // (d) second-level crash point
  uint64_t cut2 = 0;
  std::string str() const
  {
    std::ostringstream s;
    s << "kv h=" << (hist.empty() ? "-" : hist) << " m=" << m << " cut=" << cut << " k=" << cont.kind << " o=" << (cont.op ? cont.op : '-')
      << " w=" << cont.wallAdvS;
    if (m2 >= 0)
      s << " m2=" << m2 << " cut2=" << cut2;
    return s.str();
  }
  static bool parse(const std::string &t, CaseId &c)
  {
    char h[64] = {0}, k = 0, o = 0;
    int m = 0, w = 0, m2 = -1;
    unsigned long long cut = 0, cut2 = 0;
    int n = sscanf(t.c_str(), "kv h=%63s m=%d cut=%llu k=%c o=%c w=%d m2=%d cut2=%llu", h, &m, &cut, &k, &o, &w, &m2, &cut2);
    if (n < 6)
      return false;
    c.hist = std::string(h) == "-" ? "" : h;
    c.m = m;
    c.cut = cut;
    c.cont.kind = k;
    c.cont.op = o == '-' ? 0 : o;
    c.cont.wallAdvS = w;
    c.m2 = n >= 8 ? m2 : -1;
    c.cut2 = n >= 8 ? cut2 : 0;
    return true;
  }
};

struct Ctx
{
  Env *env = nullptr;
  Sink *sink = nullptr;
  std::string hist;       // level-1 history
  KSet ever[NKEYS];       // states ever held by each key in any model state of the case
  uint64_t instances = 0; // store instances created (thread budget under mcsched)
  int onlyM2 = -1;        // replay of a (d) case: evaluate only this second-level point
  uint64_t onlyCut2 = 0;
  // (d): given the number of second-level crash images, which ordinals [from,to) to evaluate now
  // (the scheduler part splits them over several executions: thread budget)
  std::function<std::pair<int, int>(int)> dSelect;
  bool anyViolation = false;
};

inline void noteEver(KSet ever[NKEYS], const Adm &a)
{
  for (int k = 0; k < NKEYS; ++k)
    for (auto &s : a.k[k])
      ksInsert(ever[k], s);
}

// A crash image with everything the continuations need to judge it.
struct ImageCtx
{
  cfs::Image im;
  Adm A;
  std::string cls[NKEYS]; // class of the last call on each key acknowledged at every instant of the image
  std::string shape;      // "none" if the image is also the image of an instant between two calls
};

// Reopen the materialised directory, observe, compare.
inline bool reopenAndCheck(Ctx &c, const Adm &A, const KSet ever[NKEYS], const std::string cls[NKEYS], const char *stage,
                           std::vector<Finding> &out)
{
  Store st(c.env, &c.instances);
  std::string err;
  c.sink->count("recoveries");
  if (!st.open(&err))
  {
    Finding f;
    f.kind = "throws";
    f.cls = "-";
    f.detail = std::string("reopening threw: ") + err + " (" + stage + ")";
    out.push_back(f);
    return false;
  }
  Obs o = st.observe();
  int64_t T = nowMs();
  st.close();
  if (c.env->verbose)
    printf("    %s: store shows %s ; admissible %s\n", stage, o.str().c_str(), A.str().c_str());
  size_t before = out.size();
  compare(o, A, T, ever, cls, stage, out);
  return out.size() == before;
}

// Run one continuation on a crash image; findings are returned, not reported (evalPoint reduces them first).
inline std::vector<Finding> runCont(Ctx &c, const ImageCtx &I, const Cont &ct, bool primary)
{
  std::vector<Finding> out;
  Env &env = *c.env;
  const cfs::Image &im = I.im;
  const Adm &A = I.A;
  if (primary && ct.kind != 'd') // d: one case per second-level crash image
  {
    c.sink->count("cases");
    c.sink->count((std::string("cont_") + ct.kind).c_str());
  }
  if (!primary)
    c.sink->count("reduction_runs");
  if (ct.wallAdvS)
    env.advanceWallMs(int64_t(ct.wallAdvS) * 1000);
  KSet ever[NKEYS];
  std::string cls[NKEYS];
  for (int k = 0; k < NKEYS; ++k)
  {
    ever[k] = c.ever[k];
    cls[k] = I.cls[k];
  }
  if (ct.kind == 'a')
  {
    im.materialise(env.dir);
    reopenAndCheck(c, A, ever, cls, "reopen", out);
  }
  else if (ct.kind == 'b')
  {
    im.materialise(env.dir);
    Store st(c.env, &c.instances);
    std::string err;
    c.sink->count("recoveries");
    if (st.open(&err))
    {
      st.close();
      reopenAndCheck(c, A, ever, cls, "second reopen after clean close", out);
    }
    // a throwing first reopen is continuation a's finding
  }
  else if (ct.kind == 'c')
  {
    im.materialise(env.dir);
    Store st(c.env, &c.instances);
    std::string err;
    c.sink->count("recoveries");
    if (st.open(&err))
    {
      int64_t T = nowMs();
      bool acked = st.apply(ct.op, &err);
      bool alive = bool(st.s);
      st.close();
      const OpDef *od = opDef(ct.op);
      Adm A2 = applyAdm(ct.op, A, T);
      if (!acked)
      {
        c.sink->count("further_op_threw");
        for (int k = 0; k < NKEYS; ++k)
          A2.k[k] = (od->touched >> k & 1) ? ksUnion(A2.k[k], A.k[k]) : A.k[k];
      }
      else
        for (int k = 0; k < NKEYS; ++k)
          if (od->touched >> k & 1)
            cls[k] = od->cls;
      noteEver(ever, A2);
      if (alive)
        reopenAndCheck(c, A2, ever, cls, "reopen after acknowledged further call + clean close", out);
      else
      {
        Finding f;
        f.kind = "throws";
        f.cls = "-";
        f.detail = "the reopen inside the further close+reopen threw: " + err;
        out.push_back(f);
      }
    }
  }
  else if (ct.kind == 'd')
  {
    Recorded r2 = recordScript(env, im, A, std::string(1, ct.op), &c.instances);
    c.sink->count("recoveries");
    c.sink->count("second_level_scripts");
    if (r2.unmodelled)
      c.sink->violation("harness-internal", "crashfs-unmodelled", "kv h=" + c.hist, r2.unmodelledWhat);
    if (!r2.openFailed)
    {
      for (auto &s : r2.S)
        noteEver(ever, s);
      const OpDef *od = opDef(ct.op);
      std::string cls2[NKEYS];
      cfs::Image im2 = im;
      int M = int(r2.mutIdx.size());
      int total = -1; // (0,0) is skipped
      for (int m = 0; m <= M; ++m)
        total += (m < M && r2.ev[size_t(r2.mutIdx[size_t(m)])].kind == cfs::WRITE) ? int(r2.ev[size_t(r2.mutIdx[size_t(m)])].len) : 1;
      std::pair<int, int> range = (c.dSelect && primary) ? c.dSelect(total) : std::make_pair(0, total);
      int ordinal = 0;
      for (int m = 0; m <= M; ++m)
      {
        uint64_t len = (m < M && r2.ev[size_t(r2.mutIdx[size_t(m)])].kind == cfs::WRITE) ? r2.ev[size_t(r2.mutIdx[size_t(m)])].len : 1;
        for (uint64_t cut = 0; cut < len; ++cut)
        {
          if (m == 0 && cut == 0)
            continue; // = the first-level image itself (continuation a)
          int ord = ordinal++;
          if (ord < range.first || ord >= range.second)
            continue;
          if (c.onlyM2 >= 0 && !(c.onlyM2 == m && c.onlyCut2 == cut))
            continue;
          bool emptyI = false, boundary = false;
          Adm A2 = admForImage(r2, m, cut, &emptyI, &boundary);
          if (emptyI)
            c.sink->count("images_shared_by_instants_with_different_acknowledged_state");
          cfs::Image x = im2;
          if (cut > 0)
            x.applyPartial(r2.ev[size_t(r2.mutIdx[size_t(m)])], cut);
          // the further call counts as acknowledged for a key only if every instant of this image lies after its return
          bool fin = m == M && r2.acked.size() == 1 && r2.acked[0];
          for (int k = 0; k < NKEYS; ++k)
          {
            cls2[k] = cls[k];
            if ((od->touched >> k & 1) && fin)
              cls2[k] = od->cls;
          }
          x.materialise(env.dir);
          c.sink->count("cont_d");
          c.sink->count("cases");
          size_t before = out.size();
          reopenAndCheck(c, A2, ever, cls2, ("reopen after second crash " + shapeOf(r2, m, cut)).c_str(), out);
          for (size_t i = before; i < out.size(); ++i)
          {
            out[i].m2 = m;
            out[i].cut2 = cut;
            out[i].secondFinal = fin;
          }
        }
        if (m < M)
          im2.apply(r2.ev[size_t(r2.mutIdx[size_t(m)])]);
      }
    }
  }
  if (ct.wallAdvS)
    env.advanceWallMs(-int64_t(ct.wallAdvS) * 1000);
  return out;
}

// The list of continuations for a tier / history length.
struct ContPlan
{
  bool a = true, b = true, c = false, d = false;
  int nops = NOPS_PLAIN;        // size of the alphabet for further ops
  std::vector<int> wallAdv{0};  // wall-clock variants
};
inline std::vector<Cont> contList(const ContPlan &p)
{
  std::vector<Cont> v;
  for (int w : p.wallAdv)
  {
    if (p.a)
      v.push_back(Cont{'a', 0, w});
    if (p.b)
      v.push_back(Cont{'b', 0, w});
    if (p.c)
      for (int i = 0; i < p.nops; ++i)
        v.push_back(Cont{'c', OPS[i].code, w});
    if (p.d)
      for (int i = 0; i < p.nops; ++i)
        v.push_back(Cont{'d', OPS[i].code, w});
  }
  return v;
}

// ---------------------------------------------------------------------------------------------
// first level: record a history, enumerate the crash images of its LAST call
// ---------------------------------------------------------------------------------------------
struct Level1
{
  Recorded rec;
  int mStart = 0;                   // first crash point belonging to the last call (earlier ones = shorter histories)
  std::vector<CrashPoint> points;   // all crash points from mStart on, in order
};

inline Level1 recordHistory(Ctx &c, const std::string &hist)
{
  Level1 L;
  c.hist = hist;
  L.rec = recordScript(*c.env, cfs::Image(), admEmpty(), hist, &c.instances, true);
  const Recorded &r = L.rec;
  for (int k = 0; k < NKEYS; ++k)
    c.ever[k].clear();
  for (auto &s : r.S)
    noteEver(c.ever, s);
  // crash points of the last call only: the log of h[0..n-2] is a prefix of the log of h (checked by the
  // determinism test of the sequential part), and every shorter history is enumerated as its own case.
  int lastOp = int(hist.size()) - 1;
  size_t beginAt = 0;
  for (size_t i = 0; i < r.ev.size(); ++i)
    if (r.ev[i].kind == cfs::BEGIN && r.ev[i].op == lastOp)
      beginAt = i;
  int m0 = 0;
  for (int mi : r.mutIdx)
    if (size_t(mi) < beginAt)
      ++m0;
  L.mStart = m0;
  int M = int(r.mutIdx.size());
  for (int m = m0; m <= M; ++m)
  {
    uint64_t len = (m < M && r.ev[size_t(r.mutIdx[size_t(m)])].kind == cfs::WRITE) ? r.ev[size_t(r.mutIdx[size_t(m)])].len : 1;
    for (uint64_t cut = 0; cut < len; ++cut)
    {
      CrashPoint cp;
      cp.m = m;
      cp.cut = cut;
      cp.shape = shapeOf(r, m, cut);
      L.points.push_back(cp);
    }
  }
  return L;
}

inline cfs::Image imageAt(const Recorded &r, int m, uint64_t cut)
{
  cfs::Image im;
  for (int i = 0; i < m; ++i)
    im.apply(r.ev[size_t(r.mutIdx[size_t(i)])]);
  if (cut > 0)
    im.applyPartial(r.ev[size_t(r.mutIdx[size_t(m)])], cut);
  return im;
}

// cls for the image (m,cut): class of the last call on each key that is acknowledged at EVERY instant
// producing the image (used only to name what a mismatch loses).
inline void lastOpCls(const Recorded &r, int m, uint64_t cut, std::string cls[NKEYS])
{
  size_t upto = cut > 0 ? size_t(r.mutIdx[size_t(m)]) : (m == 0 ? 0 : size_t(r.mutIdx[size_t(m - 1)]) + 1);
  for (int k = 0; k < NKEYS; ++k)
    cls[k] = "none";
  for (size_t i = 0; i < upto; ++i)
    if (r.ev[i].kind == cfs::END && r.ev[i].op >= 0 && size_t(r.ev[i].op) < r.acked.size() && r.acked[size_t(r.ev[i].op)])
    {
      const OpDef *od = opDef(r.ops[size_t(r.ev[i].op)]);
      for (int k = 0; k < NKEYS; ++k)
        if (od && (od->touched >> k & 1))
          cls[k] = od->cls;
    }
}

inline ImageCtx imageCtx(Ctx &c, const Recorded &r, int m, uint64_t cut, const std::string &histForMsg)
{
  ImageCtx I;
  bool emptyI = false, boundary = false;
  I.A = admForImage(r, m, cut, &emptyI, &boundary);
  if (emptyI)
    c.sink->count("images_shared_by_instants_with_different_acknowledged_state");
  (void)histForMsg;
  I.im = imageAt(r, m, cut);
  lastOpCls(r, m, cut, I.cls);
  // an image that is also the image of an instant between two calls: every acknowledged call is the last
  // one on its keys, so name those too
  if (boundary)
  {
    size_t hi = size_t(m) < r.mutIdx.size() ? size_t(r.mutIdx[size_t(m)]) : r.ev.size();
    for (size_t i = 0; i < hi; ++i)
      if (r.ev[i].kind == cfs::END && r.ev[i].op >= 0 && size_t(r.ev[i].op) < r.acked.size() && r.acked[size_t(r.ev[i].op)])
      {
        const OpDef *od = opDef(r.ops[size_t(r.ev[i].op)]);
        for (int k = 0; k < NKEYS; ++k)
          if (od && (od->touched >> k & 1))
            I.cls[k] = od->cls;
      }
  }
  I.shape = boundary ? "none" : shapeOf(r, m, cut);
  return I;
}

inline uint64_t mixHash(uint64_t h, uint64_t v)
{
  h ^= v + 0x9E3779B97F4A7C15ull + (h << 6) + (h >> 2);
  return h * 0xff51afd7ed558ccdull;
}

inline const Finding *sameFinding(const std::vector<Finding> &v, const Finding &f)
{
  for (auto &g : v)
    if (g.kind == f.kind && g.key == f.key)
      return &g;
  return nullptr;
}

// Evaluate one crash point of a recorded history with the given continuations.
//
// Signature of a finding = its MINIMAL failing shape: before reporting, the finding is re-evaluated on
// simpler variants of the case (cached per execution) and named after the simplest one that still shows
// the same mismatch on the same key:
//   wall-clock advance -> none;  continuation b/c/d -> a (d with the further call complete -> c);
//   crash image -> the call-boundary image before the in-flight call ("crash=none").
// Nothing is dropped by the reduction: every finding is reported, with the exact original case.
inline void evalPoint(Ctx &c, const Level1 &L, const CrashPoint &cp, const std::vector<Cont> &conts)
{
  const Recorded &r = L.rec;
  CaseId id;
  id.hist = c.hist;
  id.m = cp.m;
  id.cut = cp.cut;
  ImageCtx I = imageCtx(c, r, cp.m, cp.cut, c.hist);
  ImageCtx I0;
  bool haveI0 = false;
  c.sink->count("crash_images");
  if (cp.cut > 0)
    c.sink->count("crash_images_torn");
  if (c.env->verbose)
  {
    printf("  image m=%d cut=%llu (%s; %s): files:", cp.m, (unsigned long long)cp.cut, cp.shape.c_str(), I.shape.c_str());
    for (auto &kv : I.im.files)
      printf(" %s[%zu]=%s", kv.first.c_str(), kv.second.size(), vr::hex(kv.second).c_str());
    printf("\n  admissible: %s\n", I.A.str().c_str());
  }
  uint64_t ih = I.im.hash();
  bool nontrivial = cp.cut > 0;
  for (int k = 0; k < NKEYS; ++k)
    if (I.A.k[k].size() > 1)
      nontrivial = true;

  std::map<std::string, std::vector<Finding>> cache;
  auto run = [&](int which, const Cont &ct, bool primary) -> const std::vector<Finding> &
  {
    std::string key = std::to_string(which) + ct.str();
    auto it = cache.find(key);
    if (it != cache.end())
    {
      if (primary && ct.kind != 'd')
      {
        c.sink->count("cases");
        c.sink->count((std::string("cont_") + ct.kind).c_str());
      }
      return it->second;
    }
    if (which == 1 && !haveI0)
    {
      I0 = imageCtx(c, r, L.mStart, 0, c.hist);
      haveI0 = true;
    }
    if (c.env->verbose)
      printf("   -- %s continuation %s on %s\n", primary ? "run" : "reduction: run", ct.str().c_str(), which ? "the call-boundary image before the in-flight call" : "the crash image");
    return cache[key] = runCont(c, which ? I0 : I, ct, primary);
  };
  struct Reduced
  {
    std::string shape;
    Cont ct;
    std::string cls;
  };
  std::function<Reduced(const Cont &, const Finding &)> reduce = [&](const Cont &ct, const Finding &f) -> Reduced
  {
    if (ct.wallAdvS != 0)
    {
      Cont z = ct;
      z.wallAdvS = 0;
      if (const Finding *g = sameFinding(run(0, z, false), f))
        return reduce(z, *g);
    }
    if (ct.kind != 'a')
    {
      Cont z{'a', 0, ct.wallAdvS};
      if (const Finding *g = sameFinding(run(0, z, false), f))
        return reduce(z, *g);
    }
    if (ct.kind == 'd' && f.secondFinal)
    {
      Cont z{'c', ct.op, ct.wallAdvS};
      if (const Finding *g = sameFinding(run(0, z, false), f))
        return reduce(z, *g);
    }
    if (I.shape != "none" && ct.kind != 'd')
    {
      if (const Finding *g = sameFinding(run(1, ct, false), f))
        return Reduced{"none", ct, g->cls};
    }
    return Reduced{I.shape, ct, f.cls};
  };

  for (const Cont &ct : conts)
  {
    if (nontrivial)
      c.sink->distinct(mixHash(mixHash(ih, uint64_t(ct.kind) << 16 | uint64_t(ct.op) << 8), uint64_t(ct.wallAdvS)));
    std::vector<Finding> fs = run(0, ct, true); // copy: the cache may grow during reduction
    std::vector<std::string> seen;
    for (const Finding &f : fs)
    {
      Reduced rd = reduce(ct, f);
      std::string sig = f.kind + ":op=" + rd.cls + ":crash=" + rd.shape + ":cont=" + std::string(1, rd.ct.kind) +
                        (rd.ct.wallAdvS ? ":wall+" + std::to_string(rd.ct.wallAdvS) : "");
      CaseId cid = id;
      cid.cont = ct;
      cid.m2 = f.m2;
      cid.cut2 = f.cut2;
      std::string dedup = sig + "|" + cid.str();
      if (std::find(seen.begin(), seen.end(), dedup) != seen.end())
        continue;
      seen.push_back(dedup);
      c.anyViolation = true;
      std::string detail = "history [" + histName(c.hist) + "] crash point m=" + std::to_string(cp.m) + " cut=" + std::to_string(cp.cut) + " (" + cp.shape +
                           ") continuation " + ct.str() +
                           (f.m2 >= 0 ? " second crash m2=" + std::to_string(f.m2) + " cut2=" + std::to_string(f.cut2) : std::string()) + ": " + f.detail +
                           "; minimal shape: crash=" + rd.shape + " continuation " + rd.ct.str();
      c.sink->violation(clauseOf(f.kind), sig, cid.str(), detail);
      if (c.env->verbose)
        printf("  VIOLATION %s / %s :: %s\n", clauseOf(f.kind).c_str(), sig.c_str(), detail.c_str());
    }
  }
}

inline void checkRecording(Ctx &c, const Level1 &L)
{
  CaseId id;
  id.hist = c.hist;
  if (L.rec.unmodelled)
    c.sink->violation("harness-internal", "crashfs-unmodelled", id.str(), L.rec.unmodelledWhat);
  if (L.rec.openFailed)
    c.sink->violation("reopen-succeeds", "throws-in-history:op=" + std::string(L.rec.ops.empty() ? "open" : "reopen"), id.str(),
                      "opening the store inside a crash-free history threw: " + L.rec.openError);
  for (size_t i = 0; i < L.rec.acked.size(); ++i)
    if (!L.rec.acked[i] && !L.rec.openFailed)
      c.sink->violation("harness-internal", "history-op-threw", id.str(), L.rec.opErrors);
  // the image rebuilt from the log must be the directory the run left behind at the crash instant
  if (L.rec.dirChecked && !L.rec.dirMatches)
    c.sink->violation("harness-internal", "log-does-not-rebuild-directory", id.str(),
                      "image rebuilt from the recorded log differs from the directory at the end of the history (before the store object is destroyed)");
}

} // namespace c11

// C11 part 3: JsonFileStore crash-point / torn-write enumeration under the deterministic scheduler
// (the store owns a process-wide background flush thread; under rt/mc.cpp it runs cooperatively on a
// virtual clock, so the background flush is an enumerable call like any other).
//
// Statement: "The JSON file store likewise reopens to the contents of its last completed flush or of the
// flush in progress, never to an empty or unreadable store once a flush has completed."
//
// Enumerated (all alternatives of every mc_choose(n, MC_FREE)): histories up to the tier's length over
//   set(a,"1") set(a,"2") set(b,"x") remove(a) flush() destroy+reopen background-flush(2 s tick)
// x crash point of the LAST call (every prefix of the recorded file operations x every byte cut of the
// next write) x continuation group:
//   a: reopen   b: reopen, destroy, reopen   c: reopen, one mutation + flush, destroy, reopen
//   d: reopen, one mutation + flush crashed at every point, reopen.
// Oracle: the contents visible after reopening must be one of the admissible whole-store states:
// between calls exactly the last completed flush; inside a flushing call {last completed flush, the
// contents being flushed}; continuations map the set element-wise (c) / union it again (d).
#include "crashfs.h"
#include "mc.h"
#include "report.hpp"

#include <iora/storage/json_file_store.hpp>

#include <algorithm>
#include <functional>
#include <map>
#include <memory>
#include <sstream>
#include <sys/mman.h>
#include <unistd.h>

using iora::storage::JsonFileStore;

namespace
{
using Map = std::map<std::string, std::string>;
std::string mapStr(const Map &m)
{
  std::string s = "{";
  for (auto &kv : m)
    s += (s.size() > 1 ? "," : "") + kv.first + ":" + kv.second;
  return s + "}";
}
using MSet = std::vector<Map>; // sorted unique
void msInsert(MSet &s, const Map &m)
{
  auto it = std::lower_bound(s.begin(), s.end(), m);
  if (it == s.end() || *it != m)
    s.insert(it, m);
}
MSet msIntersect(const MSet &a, const MSet &b)
{
  MSet r;
  for (auto &m : a)
    if (std::binary_search(b.begin(), b.end(), m))
      r.push_back(m);
  return r;
}
std::string msStr(const MSet &s)
{
  std::string r;
  for (auto &m : s)
    r += (r.empty() ? "" : " | ") + mapStr(m);
  return "{ " + r + " }";
}

struct OpDef
{
  char code;
  const char *name;
  bool flushes; // may write the file
};
const OpDef OPS[] = {
    {'1', "set(a,\"1\")", false}, {'2', "set(a,\"2\")", false}, {'b', "set(b,\"x\")", false}, {'r', "remove(a)", false},
    {'f', "flush()", true},       {'R', "destroy+reopen", true}, {'g', "background-flush", true},
};
constexpr int NOPS = 7;
constexpr int NMUT = 4; // the first 4 are the mutations used as further calls
const OpDef *opDef(char c)
{
  for (auto &o : OPS)
    if (o.code == c)
      return &o;
  return nullptr;
}
std::string histName(const std::string &h)
{
  std::string s;
  for (char c : h)
    s += (s.empty() ? "" : "; ") + std::string(opDef(c) ? opDef(c)->name : "?");
  return s.empty() ? "(empty)" : s;
}

// one possible world: what the file holds (last completed flush), what memory holds, dirty flag
struct World
{
  Map file, mem;
  bool dirty = false;
  bool operator<(const World &o) const { return std::tie(file, mem, dirty) < std::tie(o.file, o.mem, o.dirty); }
  bool operator==(const World &o) const { return file == o.file && mem == o.mem && dirty == o.dirty; }
};
using Worlds = std::vector<World>;
void wInsert(Worlds &s, const World &w)
{
  auto it = std::lower_bound(s.begin(), s.end(), w);
  if (it == s.end() || !(*it == w))
    s.insert(it, w);
}
World applyWorld(char op, World w)
{
  switch (op)
  {
  case '1':
    w.mem["a"] = "1";
    w.dirty = true;
    break;
  case '2':
    w.mem["a"] = "2";
    w.dirty = true;
    break;
  case 'b':
    w.mem["b"] = "x";
    w.dirty = true;
    break;
  case 'r':
    if (w.mem.count("a"))
    {
      w.mem.erase("a");
      w.dirty = true;
    }
    break;
  case 'f':
  case 'g':
    if (w.dirty)
    {
      w.file = w.mem;
      w.dirty = false;
    }
    break;
  case 'R':
    if (w.dirty)
      w.file = w.mem;
    w.mem = w.file;
    w.dirty = false;
    break;
  default:
    break;
  }
  return w;
}
Worlds applyWorlds(char op, const Worlds &ws)
{
  Worlds r;
  for (auto &w : ws)
    wInsert(r, applyWorld(op, w));
  return r;
}
// worlds after reopening a crash image whose admissible file contents are A
Worlds worldsOfFiles(const MSet &A)
{
  Worlds r;
  for (auto &m : A)
  {
    World w;
    w.file = m;
    w.mem = m;
    wInsert(r, w);
  }
  return r;
}
MSet filesOf(const Worlds &ws)
{
  MSet r;
  for (auto &w : ws)
    msInsert(r, w.file);
  return r;
}

struct Env
{
  std::string dir;
  bool verbose = false;
};

struct Obs
{
  bool ok = true; // constructor did not throw
  std::string err;
  Map m;
};

struct Store
{
  std::unique_ptr<JsonFileStore> s;
  Env *env;
  uint64_t *instances;
  Store(Env *e, uint64_t *i) : env(e), instances(i) {}
  bool open(std::string *err)
  {
    ++*instances;
    try
    {
      s = std::make_unique<JsonFileStore>(env->dir + "/j.json");
    }
    catch (const std::exception &e)
    {
      *err = e.what();
      return false;
    }
    mc_quiesce(0);
    return true;
  }
  void close()
  {
    s.reset();
    mc_quiesce(0);
  }
  bool apply(char op, std::string *err)
  {
    try
    {
      switch (op)
      {
      case '1':
        s->set("a", std::string("1"));
        break;
      case '2':
        s->set("a", std::string("2"));
        break;
      case 'b':
        s->set("b", std::string("x"));
        break;
      case 'r':
        s->remove("a");
        break;
      case 'f':
        s->flush();
        break;
      case 'g':
        mc_quiesce(2100ull * 1000000ull); // one tick of the 2 s background flush thread
        break;
      case 'R':
        s.reset();
        mc_quiesce(0);
        if (!open(err))
          return false;
        break;
      }
    }
    catch (const std::exception &e)
    {
      *err = e.what();
      return false;
    }
    return true;
  }
  Map observe()
  {
    Map m;
    if (!s->_store.isObject())
    {
      m["<non-object>"] = s->_store.dump();
      return m;
    }
    for (auto &kv : s->_store.items())
      m[kv.first] = kv.second.isString() ? kv.second.get<std::string>() : "<non-string>" + kv.second.dump();
    // the public API must agree
    for (const char *k : {"a", "b"})
    {
      auto v = s->get(k);
      auto it = m.find(k);
      if (v.has_value() != (it != m.end()) || (v && *v != it->second))
        m[std::string("<get-disagrees:") + k + ">"] = v ? *v : "nullopt";
    }
    return m;
  }
};

struct Recorded
{
  std::vector<cfs::Event> ev;
  std::vector<int> mutIdx;
  std::vector<Worlds> S; // S[0] base, S[i+1] after op i
  std::string ops;
  bool openFailed = false;
  std::string err;
  uint64_t unmodelled = 0;
  std::string unmodelledWhat;
};

Recorded recordScript(Env &env, const cfs::Image &base, const Worlds &W0, const std::string &ops, uint64_t *instances)
{
  Recorded r;
  r.ops = ops;
  r.S.push_back(W0);
  base.materialise(env.dir);
  cfs::start(env.dir);
  {
    Store st(&env, instances);
    cfs::mark(cfs::BEGIN, -1);
    bool ok = st.open(&r.err);
    cfs::mark(cfs::END, -1);
    if (!ok)
      r.openFailed = true;
    else
      for (size_t i = 0; i < ops.size(); ++i)
      {
        cfs::mark(cfs::BEGIN, int(i));
        bool acked = st.apply(ops[i], &r.err);
        cfs::mark(cfs::END, int(i));
        r.S.push_back(applyWorlds(ops[i], r.S.back()));
        if (!acked)
        {
          r.openFailed = true;
          break;
        }
      }
    cfs::stop();
    r.ev = cfs::log();
    r.unmodelled = cfs::unmodelled();
    r.unmodelledWhat = cfs::unmodelledWhat();
    // a crash runs no destructor: make the destructor's flush a no-op for the directory by dropping the
    // dirty flag (the images come from the log anyway)
    if (st.s)
      st.s->_dirty = false;
    st.close();
  }
  for (size_t i = 0; i < r.ev.size(); ++i)
    if (r.ev[i].mutation())
      r.mutIdx.push_back(int(i));
  return r;
}

MSet admAtInstant(const Recorded &r, size_t j, bool *inCall)
{
  int inOp = -100, completed = 0;
  for (size_t i = 0; i < j && i < r.ev.size(); ++i)
  {
    if (r.ev[i].kind == cfs::BEGIN)
      inOp = r.ev[i].op;
    else if (r.ev[i].kind == cfs::END)
    {
      inOp = -100;
      if (r.ev[i].op >= 0)
        completed = r.ev[i].op + 1;
    }
  }
  *inCall = inOp >= 0;
  if (inOp < 0)
    return filesOf(r.S[std::min<size_t>(size_t(completed), r.S.size() - 1)]);
  MSet a = filesOf(r.S[size_t(inOp)]);
  if (size_t(inOp) + 1 < r.S.size())
    for (auto &m : filesOf(r.S[size_t(inOp) + 1]))
      msInsert(a, m);
  return a;
}
MSet admForImage(const Recorded &r, int m, uint64_t cut, bool *boundary)
{
  bool inCall = false;
  if (cut > 0)
    return admAtInstant(r, size_t(r.mutIdx[size_t(m)]), &inCall);
  size_t lo = m == 0 ? 0 : size_t(r.mutIdx[size_t(m - 1)]) + 1;
  size_t hi = size_t(m) < r.mutIdx.size() ? size_t(r.mutIdx[size_t(m)]) : r.ev.size();
  MSet a = admAtInstant(r, lo, &inCall);
  if (!inCall)
    *boundary = true;
  MSet latest = a;
  for (size_t j = lo + 1; j <= hi; ++j)
  {
    latest = admAtInstant(r, j, &inCall);
    a = msIntersect(a, latest);
    if (!inCall)
      *boundary = true;
  }
  // empty intersection: a flushing call returned without any file operation although the contents changed;
  // the image cannot reflect it, so judge it against the latest instant
  if (a.empty())
    a = latest;
  return a;
}
std::string eventShape(const cfs::Event &e)
{
  switch (e.kind)
  {
  case cfs::OPEN:
    return "open(" + e.path + (e.created ? ",create" : "") + (e.truncated ? ",trunc" : "") + ")";
  case cfs::WRITE:
    return "write(" + e.path + ")";
  case cfs::TRUNC:
    return "truncate(" + e.path + ")";
  case cfs::RENAME:
    return "rename(" + e.path + ">" + e.path2 + ")";
  case cfs::UNLINK:
    return "unlink(" + e.path + ")";
  default:
    return "?";
  }
}
std::string shapeOf(const Recorded &r, int m, uint64_t cut)
{
  if (cut > 0)
    return "torn-" + eventShape(r.ev[size_t(r.mutIdx[size_t(m)])]);
  if (m == 0)
    return "start";
  return "after-" + eventShape(r.ev[size_t(r.mutIdx[size_t(m - 1)])]);
}
cfs::Image imageAt(const cfs::Image &base, const Recorded &r, int m, uint64_t cut)
{
  cfs::Image im = base;
  for (int i = 0; i < m; ++i)
    im.apply(r.ev[size_t(r.mutIdx[size_t(i)])]);
  if (cut > 0)
    im.applyPartial(r.ev[size_t(r.mutIdx[size_t(m)])], cut);
  return im;
}
struct Point
{
  int m;
  uint64_t cut;
};
std::vector<Point> pointsFrom(const Recorded &r, int m0)
{
  std::vector<Point> v;
  int M = int(r.mutIdx.size());
  for (int m = m0; m <= M; ++m)
  {
    uint64_t len = (m < M && r.ev[size_t(r.mutIdx[size_t(m)])].kind == cfs::WRITE) ? r.ev[size_t(r.mutIdx[size_t(m)])].len : 1;
    for (uint64_t cut = 0; cut < len; ++cut)
      v.push_back(Point{m, cut});
  }
  return v;
}

// ---------------------------------------------------------------------------------------------
struct Cont
{
  char kind = 'a';
  char op = 0;
  std::string str() const { return op ? std::string(1, kind) + ":" + op : std::string(1, kind); }
};
struct CaseId
{
  std::string hist;
  int m = 0;
  uint64_t cut = 0;
  Cont cont;
  int m2 = -1;
  uint64_t cut2 = 0;
  std::string str() const
  {
    std::ostringstream s;
    s << "json h=" << (hist.empty() ? "-" : hist) << " m=" << m << " cut=" << cut << " k=" << cont.kind << " o=" << (cont.op ? cont.op : '-');
    if (m2 >= 0)
      s << " m2=" << m2 << " cut2=" << cut2;
    return s.str();
  }
  static bool parse(const std::string &t, CaseId &c)
  {
    char h[64] = {0}, k = 0, o = 0;
    int m = 0, m2 = -1;
    unsigned long long cut = 0, cut2 = 0;
    int n = sscanf(t.c_str(), "json h=%63s m=%d cut=%llu k=%c o=%c m2=%d cut2=%llu", h, &m, &cut, &k, &o, &m2, &cut2);
    if (n < 5)
      return false;
    c.hist = std::string(h) == "-" ? "" : h;
    c.m = m;
    c.cut = cut;
    c.cont.kind = k;
    c.cont.op = o == '-' ? 0 : o;
    c.m2 = n >= 7 ? m2 : -1;
    c.cut2 = n >= 7 ? cut2 : 0;
    return true;
  }
};
struct Finding
{
  std::string kind; // empty-store | ack-lost | foreign-state | throws
  std::string detail;
  int m2 = -1;
  uint64_t cut2 = 0;
  bool secondFinal = false;
};

// shared-memory side channel (same scheme as C11_kv_ttl)
struct ViolRec
{
  char clause[48], sig[200], kase[160], detail[900];
  uint32_t histLen;
};
struct SigSlot
{
  char key[256];
  uint64_t count;
  int ntop;
  ViolRec top[3];
};
constexpr int MAXSIGS = 256, MAXCOUNTERS = 32;
struct SharedState
{
  volatile int lock;
  int ncounters;
  char counterName[MAXCOUNTERS][48];
  uint64_t counterVal[MAXCOUNTERS];
  int nsigs;
  uint64_t sigOverflow;
  SigSlot sigs[MAXSIGS];
  uint64_t samplesSeen;
  char samples[8][300];
  uint64_t distinctCount;
  uint64_t distinctTab[1 << 20];
};
SharedState *G = nullptr;
void lockG()
{
  while (__atomic_exchange_n(&G->lock, 1, __ATOMIC_ACQUIRE))
  {
  }
}
void unlockG() { __atomic_store_n(&G->lock, 0, __ATOMIC_RELEASE); }
void distinctInsert(uint64_t h)
{
  if (!h)
    h = 1;
  size_t cap = 1 << 20;
  if (G->distinctCount > cap / 2)
    return;
  size_t i = (h * 0x9E3779B97F4A7C15ull) & (cap - 1);
  for (;;)
  {
    uint64_t cur = __atomic_load_n(&G->distinctTab[i], __ATOMIC_RELAXED);
    if (cur == h)
      return;
    if (cur == 0)
    {
      uint64_t exp = 0;
      if (__atomic_compare_exchange_n(&G->distinctTab[i], &exp, h, false, __ATOMIC_RELAXED, __ATOMIC_RELAXED))
      {
        __atomic_fetch_add(&G->distinctCount, 1, __ATOMIC_RELAXED);
        return;
      }
      if (exp == h)
        return;
    }
    i = (i + 1) & (cap - 1);
  }
}

struct Sink
{
  std::map<std::string, uint64_t> local;
  std::vector<ViolRec> viols;
  size_t histLen = 0;
  void violation(const std::string &clause, const std::string &sig, const std::string &kase, const std::string &detail)
  {
    ViolRec v;
    memset(&v, 0, sizeof v);
    snprintf(v.clause, sizeof v.clause, "%s", clause.c_str());
    snprintf(v.sig, sizeof v.sig, "%s", sig.c_str());
    snprintf(v.kase, sizeof v.kase, "%s", kase.c_str());
    snprintf(v.detail, sizeof v.detail, "%s", detail.c_str());
    v.histLen = uint32_t(histLen);
    viols.push_back(v);
  }
  void count(const char *n, uint64_t k = 1) { local[n] += k; }
  void commit()
  {
    lockG();
    for (auto &kv : local)
    {
      int i = 0;
      for (; i < G->ncounters; ++i)
        if (kv.first == G->counterName[i])
          break;
      if (i == G->ncounters && G->ncounters < MAXCOUNTERS)
      {
        snprintf(G->counterName[i], sizeof G->counterName[i], "%s", kv.first.c_str());
        G->counterVal[i] = 0;
        G->ncounters++;
      }
      if (i < MAXCOUNTERS)
      {
        if (kv.first.rfind("max_", 0) == 0)
          G->counterVal[i] = std::max(G->counterVal[i], kv.second);
        else
          G->counterVal[i] += kv.second;
      }
    }
    for (auto &v : viols)
    {
      std::string key = std::string(v.clause) + "/" + v.sig;
      int i = 0;
      for (; i < G->nsigs; ++i)
        if (key == G->sigs[i].key)
          break;
      if (i == G->nsigs)
      {
        if (G->nsigs >= MAXSIGS)
        {
          G->sigOverflow++;
          continue;
        }
        memset(&G->sigs[i], 0, sizeof G->sigs[i]);
        snprintf(G->sigs[i].key, sizeof G->sigs[i].key, "%s", key.c_str());
        G->nsigs++;
      }
      SigSlot &s = G->sigs[i];
      s.count++;
      auto less = [](const ViolRec &a, const ViolRec &b) { return a.histLen != b.histLen ? a.histLen < b.histLen : strcmp(a.kase, b.kase) < 0; };
      int pos = s.ntop;
      for (int k = 0; k < s.ntop; ++k)
        if (less(v, s.top[k]))
        {
          pos = k;
          break;
        }
      if (pos < 3)
      {
        for (int k = std::min(s.ntop, 2); k > pos; --k)
          s.top[k] = s.top[k - 1];
        s.top[pos] = v;
        if (s.ntop < 3)
          s.ntop++;
      }
    }
    unlockG();
  }
};

struct Ctx
{
  Env *env = nullptr;
  Sink *sink = nullptr;
  std::string hist;
  MSet everFiles; // every file state of the case (to tell a lost flush from a foreign state)
  uint64_t instances = 0;
  int onlyM2 = -1;
  uint64_t onlyCut2 = 0;
  std::function<std::pair<int, int>(int)> dSelect;
};

void classify(const Map &o, const MSet &A, const MSet &ever, const char *stage, std::vector<Finding> &out)
{
  if (std::binary_search(A.begin(), A.end(), o))
    return;
  Finding f;
  bool admitsEmpty = std::binary_search(A.begin(), A.end(), Map());
  if (o.empty() && !admitsEmpty)
    f.kind = "empty-store";
  else if (std::binary_search(ever.begin(), ever.end(), o))
    f.kind = "ack-lost";
  else
    f.kind = "foreign-state";
  f.detail = "admissible contents " + msStr(A) + ", store shows " + mapStr(o) + " (" + stage + ")";
  out.push_back(f);
}
bool reopenAndCheck(Ctx &c, const MSet &A, const MSet &ever, const char *stage, std::vector<Finding> &out)
{
  Store st(c.env, &c.instances);
  std::string err;
  c.sink->count("recoveries");
  if (!st.open(&err))
  {
    Finding f;
    f.kind = "throws";
    f.detail = "reopening threw: " + err + " (" + stage + ")";
    out.push_back(f);
    return false;
  }
  Map o = st.observe();
  st.close();
  if (c.env->verbose)
    printf("    %s: store shows %s ; admissible %s\n", stage, mapStr(o).c_str(), msStr(A).c_str());
  size_t before = out.size();
  classify(o, A, ever, stage, out);
  return out.size() == before;
}

struct ImageCtx
{
  cfs::Image im;
  MSet A;
  std::string shape;
};

std::vector<Finding> runCont(Ctx &c, const ImageCtx &I, const Cont &ct, bool primary)
{
  std::vector<Finding> out;
  Env &env = *c.env;
  if (primary && ct.kind != 'd')
  {
    c.sink->count("cases");
    c.sink->count((std::string("cont_") + ct.kind).c_str());
  }
  if (!primary)
    c.sink->count("reduction_runs");
  MSet ever = c.everFiles;
  for (auto &m : I.A)
    msInsert(ever, m);
  if (ct.kind == 'a')
  {
    I.im.materialise(env.dir);
    reopenAndCheck(c, I.A, ever, "reopen", out);
  }
  else if (ct.kind == 'b')
  {
    I.im.materialise(env.dir);
    Store st(c.env, &c.instances);
    std::string err;
    c.sink->count("recoveries");
    if (st.open(&err))
    {
      st.close();
      reopenAndCheck(c, I.A, ever, "second reopen after clean destruction", out);
    }
  }
  else if (ct.kind == 'c')
  {
    I.im.materialise(env.dir);
    Store st(c.env, &c.instances);
    std::string err;
    c.sink->count("recoveries");
    if (st.open(&err))
    {
      st.apply(ct.op, &err);
      st.apply('f', &err);
      st.close();
      Worlds w = applyWorlds('f', applyWorlds(ct.op, worldsOfFiles(I.A)));
      MSet A2 = filesOf(w);
      for (auto &m : A2)
        msInsert(ever, m);
      reopenAndCheck(c, A2, ever, "reopen after acknowledged further call + flush + clean destruction", out);
    }
  }
  else if (ct.kind == 'd')
  {
    Recorded r2 = recordScript(env, I.im, worldsOfFiles(I.A), std::string(1, ct.op) + "f", &c.instances);
    c.sink->count("recoveries");
    c.sink->count("second_level_scripts");
    if (r2.unmodelled)
      c.sink->violation("harness-internal", "crashfs-unmodelled", "json h=" + c.hist, r2.unmodelledWhat);
    if (!r2.openFailed)
    {
      for (auto &ws : r2.S)
        for (auto &m : filesOf(ws))
          msInsert(ever, m);
      std::vector<Point> pts = pointsFrom(r2, 0);
      int total = int(pts.size()) - 1;
      std::pair<int, int> range = (c.dSelect && primary) ? c.dSelect(total) : std::make_pair(0, total);
      int M = int(r2.mutIdx.size());
      for (int ord = 0; ord < total; ++ord)
      {
        const Point &p = pts[size_t(ord) + 1]; // skip (0,0)
        if (ord < range.first || ord >= range.second)
          continue;
        if (c.onlyM2 >= 0 && !(c.onlyM2 == p.m && c.onlyCut2 == p.cut))
          continue;
        bool boundary = false;
        MSet A2 = admForImage(r2, p.m, p.cut, &boundary);
        cfs::Image x = imageAt(I.im, r2, p.m, p.cut);
        x.materialise(env.dir);
        c.sink->count("cont_d");
        c.sink->count("cases");
        size_t before = out.size();
        reopenAndCheck(c, A2, ever, ("reopen after second crash " + shapeOf(r2, p.m, p.cut)).c_str(), out);
        for (size_t i = before; i < out.size(); ++i)
        {
          out[i].m2 = p.m;
          out[i].cut2 = p.cut;
          out[i].secondFinal = p.m == M;
        }
      }
    }
  }
  return out;
}

struct Level1
{
  Recorded rec;
  int mStart = 0;
  std::vector<Point> points;
};
Level1 recordHistory(Ctx &c, const std::string &h)
{
  Level1 L;
  c.hist = h;
  L.rec = recordScript(*c.env, cfs::Image(), Worlds{World()}, h, &c.instances);
  c.everFiles.clear();
  for (auto &ws : L.rec.S)
    for (auto &m : filesOf(ws))
      msInsert(c.everFiles, m);
  int lastOp = int(h.size()) - 1;
  size_t beginAt = 0;
  for (size_t i = 0; i < L.rec.ev.size(); ++i)
    if (L.rec.ev[i].kind == cfs::BEGIN && L.rec.ev[i].op == lastOp)
      beginAt = i;
  int m0 = 0;
  for (int mi : L.rec.mutIdx)
    if (size_t(mi) < beginAt)
      ++m0;
  L.mStart = m0;
  L.points = pointsFrom(L.rec, m0);
  return L;
}
ImageCtx imageCtx(const Recorded &r, int m, uint64_t cut)
{
  ImageCtx I;
  bool boundary = false;
  I.A = admForImage(r, m, cut, &boundary);
  I.im = imageAt(cfs::Image(), r, m, cut);
  I.shape = boundary ? "none" : shapeOf(r, m, cut);
  return I;
}
// The JSON store has one whole-store state: any content mismatch of the simpler variant explains the
// content mismatch of the richer one (e.g. a store that came up empty and then flushed the further call shows
// a "foreign" state that is the empty-store finding one step later); only a throwing reopen is a kind of its own.
const Finding *sameFinding(const std::vector<Finding> &v, const Finding &f)
{
  for (auto &g : v)
    if ((g.kind == "throws") == (f.kind == "throws"))
      return &g;
  return nullptr;
}

void evalPoint(Ctx &c, const Level1 &L, const Point &cp, const std::vector<Cont> &conts)
{
  const Recorded &r = L.rec;
  CaseId id;
  id.hist = c.hist;
  id.m = cp.m;
  id.cut = cp.cut;
  ImageCtx I = imageCtx(r, cp.m, cp.cut);
  ImageCtx I0;
  bool haveI0 = false;
  c.sink->count("crash_images");
  if (cp.cut > 0)
    c.sink->count("crash_images_torn");
  if (c.env->verbose)
  {
    printf("  image m=%d cut=%llu (%s; %s): files:", cp.m, (unsigned long long)cp.cut, shapeOf(r, cp.m, cp.cut).c_str(), I.shape.c_str());
    for (auto &kv : I.im.files)
      printf(" %s[%zu]=%s", kv.first.c_str(), kv.second.size(), vr::jstr(kv.second).c_str());
    printf("\n  admissible: %s\n", msStr(I.A).c_str());
  }
  std::map<std::string, std::vector<Finding>> cache;
  auto run = [&](int which, const Cont &ct, bool primary) -> const std::vector<Finding> &
  {
    std::string key = std::to_string(which) + ct.str();
    auto it = cache.find(key);
    if (it != cache.end())
    {
      if (primary && ct.kind != 'd')
      {
        c.sink->count("cases");
        c.sink->count((std::string("cont_") + ct.kind).c_str());
      }
      return it->second;
    }
    if (which == 1 && !haveI0)
    {
      I0 = imageCtx(r, L.mStart, 0);
      haveI0 = true;
    }
    if (c.env->verbose)
      printf("   -- %s continuation %s on %s\n", primary ? "run" : "reduction: run", ct.str().c_str(),
             which ? "the call-boundary image before the in-flight call" : "the crash image");
    return cache[key] = runCont(c, which ? I0 : I, ct, primary);
  };
  struct Reduced
  {
    std::string shape;
    Cont ct;
    std::string kind; // kind of the finding in the minimal shape
  };
  std::function<Reduced(const Cont &, const Finding &)> reduce = [&](const Cont &ct, const Finding &f) -> Reduced
  {
    if (ct.kind != 'a')
    {
      Cont z{'a', 0};
      if (const Finding *g = sameFinding(run(0, z, false), f))
        return reduce(z, *g);
    }
    if (ct.kind == 'd' && f.secondFinal)
    {
      Cont z{'c', ct.op};
      if (const Finding *g = sameFinding(run(0, z, false), f))
        return reduce(z, *g);
    }
    if (I.shape != "none" && ct.kind != 'd')
      if (const Finding *g = sameFinding(run(1, ct, false), f))
        return Reduced{"none", ct, g->kind};
    return Reduced{I.shape, ct, f.kind};
  };
  bool nontrivial = cp.cut > 0 || I.A.size() > 1;
  for (const Cont &ct : conts)
  {
    if (nontrivial)
      distinctInsert((I.im.hash() * 1099511628211ull) ^ (uint64_t(ct.kind) << 8 | uint64_t(ct.op)));
    std::vector<Finding> fs = run(0, ct, true);
    for (const Finding &f : fs)
    {
      Reduced rd = reduce(ct, f);
      std::string sig = rd.kind + ":crash=" + rd.shape + ":cont=" + std::string(1, rd.ct.kind);
      CaseId cid = id;
      cid.cont = ct;
      cid.m2 = f.m2;
      cid.cut2 = f.cut2;
      std::string clause = f.kind == "throws" ? "reopen-succeeds" : "json-reopens-to-a-flushed-state";
      std::string detail = "history [" + histName(c.hist) + "] crash point m=" + std::to_string(cp.m) + " cut=" + std::to_string(cp.cut) + " (" +
                           shapeOf(r, cp.m, cp.cut) + ") continuation " + ct.str() +
                           (f.m2 >= 0 ? " second crash m2=" + std::to_string(f.m2) + " cut2=" + std::to_string(f.cut2) : std::string()) + ": " + f.detail +
                           "; minimal shape: crash=" + rd.shape + " continuation " + rd.ct.str();
      c.sink->violation(clause, sig, cid.str(), detail);
      if (c.env->verbose)
        printf("  VIOLATION %s / %s :: %s\n", clause.c_str(), sig.c_str(), detail.c_str());
    }
  }
}

// ---------------------------------------------------------------------------------------------
struct Bounds
{
  int maxLen = 4, cLen = 3, dLen = 2;
};
Bounds g_b;
std::string g_root;
CaseId g_replayCase;
constexpr int D_CHUNK = 8;

std::vector<std::vector<Cont>> groupsFor(const std::string &h)
{
  std::vector<std::vector<Cont>> g;
  g.push_back({Cont{'a', 0}, Cont{'b', 0}});
  if (int(h.size()) <= g_b.cLen)
    for (int i = 0; i < NMUT; ++i)
      g.push_back({Cont{'c', OPS[i].code}});
  if (int(h.size()) <= g_b.dLen)
    for (int i = 0; i < NMUT; ++i)
      g.push_back({Cont{'d', OPS[i].code}});
  return g;
}
int chooseN(int n)
{
  if (n <= 1)
    return 0;
  if (n <= 20)
    return mc_choose(n, MC_FREE);
  int blocks = (n + 19) / 20;
  int hi = chooseN(blocks);
  int inBlock = std::min(20, n - hi * 20);
  int lo = mc_choose(inBlock, MC_FREE);
  return hi * 20 + lo;
}
Env makeEnv(bool verbose)
{
  Env env;
  env.dir = g_root + "/w" + std::to_string(getppid()) + (verbose ? "r" : "");
  cfs::makeDirs(env.dir);
  env.verbose = verbose;
  return env;
}

void body()
{
  std::string h;
  for (int i = 0; i < g_b.maxLen; ++i)
  {
    int c = mc_choose(NOPS + 1, MC_FREE);
    if (c == 0)
      break;
    h.push_back(OPS[c - 1].code);
  }
  Env env = makeEnv(false);
  Sink sink;
  sink.histLen = h.size();
  Ctx c;
  c.env = &env;
  c.sink = &sink;
  Level1 L = recordHistory(c, h);
  if (L.rec.unmodelled)
    sink.violation("harness-internal", "crashfs-unmodelled", "json h=" + h, L.rec.unmodelledWhat);
  if (L.rec.openFailed)
    sink.violation("reopen-succeeds", "throws-in-history", "json h=" + h, "a call of the crash-free history threw: " + L.rec.err);
  // a last call without file operations has a single crash point, the final image of the shorter history
  // (evaluated there); the empty history is kept
  bool lastCallWrote = int(L.rec.mutIdx.size()) > L.mStart;
  if (!h.empty() && !lastCallWrote)
  {
    sink.count("histories");
    sink.count("histories_last_call_without_file_operation");
    mc_obs("h=%s last call wrote nothing", h.c_str());
    sink.commit();
    return;
  }
  std::vector<std::vector<Cont>> groups = groupsFor(h);
  int pi = chooseN(int(L.points.size()));
  int gi = chooseN(int(groups.size()));
  if (pi == 0 && gi == 0)
  {
    sink.count("histories");
    sink.count("file_operations_recorded", L.rec.mutIdx.size());
    sink.count("max_history_file_operations", L.rec.mutIdx.size());
    sink.count("crash_points_last_call", L.points.size());
    uint64_t n = 0;
    for (char ch : h)
      for (int i = 0; i < NOPS; ++i)
        if (OPS[i].code == ch)
          n = n * uint64_t(NOPS + 1) + uint64_t(i + 1);
    lockG();
    if (n % 53 == 0 && n / 53 < 8)
      snprintf(G->samples[n / 53], sizeof G->samples[0], "json h=%s :: [%s] file-ops=%zu crash-points(last call)=%zu", h.empty() ? "-" : h.c_str(),
               histName(h).c_str(), L.rec.mutIdx.size(), L.points.size());
    unlockG();
  }
  const std::vector<Cont> &grp = groups[size_t(gi)];
  if (grp.size() == 1 && grp[0].kind == 'd')
    c.dSelect = [](int total)
    {
      int chunks = (total + D_CHUNK - 1) / D_CHUNK;
      int k = chooseN(chunks);
      return std::make_pair(k * D_CHUNK, std::min(total, (k + 1) * D_CHUNK));
    };
  uint64_t imagesBefore = sink.local["crash_images"], tornBefore = sink.local["crash_images_torn"];
  evalPoint(c, L, L.points[size_t(pi)], grp);
  if (gi != 0)
  {
    sink.local["crash_images"] = imagesBefore;
    sink.local["crash_images_torn"] = tornBefore;
  }
  sink.count("max_store_instances_per_execution", c.instances);
  if (c.instances > 30)
    sink.violation("harness-internal", "instance-budget-exceeded", "json h=" + h, std::to_string(c.instances));
  mc_obs("h=%s m=%d cut=%llu g=%d viol=%zu", h.c_str(), L.points[size_t(pi)].m, (unsigned long long)L.points[size_t(pi)].cut, gi, sink.viols.size());
  sink.commit();
}

void replayBody()
{
  const CaseId &id = g_replayCase;
  Env env = makeEnv(true);
  Sink sink;
  Ctx c;
  c.env = &env;
  c.sink = &sink;
  printf("== replay %s\n   history: %s\n", id.str().c_str(), histName(id.hist).c_str());
  Level1 L = recordHistory(c, id.hist);
  printf("   recorded file operations:\n");
  int mi = 0;
  for (auto &e : L.rec.ev)
  {
    if (e.mutation())
      printf("     [m=%d] %s%s\n", mi++, cfs::describe(e).c_str(), e.kind == cfs::WRITE ? ("  " + vr::jstr(e.data)).c_str() : "");
    else
      printf("           %s\n", cfs::describe(e).c_str());
  }
  bool found = false;
  for (auto &p : L.points)
    if (p.m == id.m && p.cut == id.cut)
    {
      found = true;
      c.onlyM2 = id.m2;
      c.onlyCut2 = id.cut2;
      evalPoint(c, L, p, {id.cont});
    }
  fflush(stdout);
  if (!found)
    mc_violation("harness-internal", "replay-bad-crash-point", "the crash point is not one of the last call of this history");
  printf("== %zu violation(s)\n", sink.viols.size());
  for (auto &v : sink.viols)
    printf("   %s / %s :: %s\n", v.clause, v.sig, v.detail);
  fflush(stdout);
  if (!sink.viols.empty())
    mc_violation(sink.viols[0].clause, sink.viols[0].sig, sink.viols[0].detail);
}
} // namespace

int main(int argc, char **argv)
{
  iora::core::Logger::setLevel(iora::core::Logger::Level::Fatal);
  vr::Args args(argc, argv);
  if (args.thorough())
  {
    g_b.maxLen = 5;
    g_b.cLen = 4;
    g_b.dLen = 3;
  }
  g_b.maxLen = int(args.getInt("maxlen", g_b.maxLen));
  g_b.cLen = int(args.getInt("clen", g_b.cLen));
  g_b.dLen = int(args.getInt("dlen", g_b.dLen));
  g_root = "/verif/build/scratch/C11/" + std::to_string(getpid());
  cfs::makeDirs(g_root);
  cfs::elideSync(true);
  G = (SharedState *)mmap(nullptr, sizeof(SharedState), PROT_READ | PROT_WRITE, MAP_SHARED | MAP_ANONYMOUS | MAP_NORESERVE, -1, 0);

  std::vector<McScenario> v;
  McScenario m;
  m.name = "crash";
  m.body = body;
  m.quick = McBounds{};
  m.quick.S = 0;
  m.thorough = m.quick;
  m.horizon_s = 3600;
  m.exec_timeout_s = 120;
  v.push_back(m);

  int rc = 0;
  if (!args.replay.empty())
  {
    std::string text = vr::readFile(args.replay);
    while (!text.empty() && (text.back() == '\n' || text.back() == ' '))
      text.pop_back();
    if (text.rfind("json ", 0) == 0)
    {
      if (!CaseId::parse(text, g_replayCase))
      {
        fprintf(stderr, "replay: cannot parse '%s'\n", text.c_str());
        return 2;
      }
      McScenario r = m;
      r.name = "replay";
      r.body = replayBody;
      v.push_back(r);
      std::string tmp = g_root + "/replay.case";
      FILE *f = fopen(tmp.c_str(), "w");
      fprintf(f, "scenario=replay;tier=%s;choices=", args.tier.c_str());
      fclose(f);
      std::vector<std::string> av{argv[0], "--tier", args.tier, "--replay", tmp};
      std::vector<char *> avp;
      for (auto &s : av)
        avp.push_back(&s[0]);
      rc = mc_main(int(avp.size()), avp.data(), "C11_json", v);
    }
    else
      rc = mc_main(argc, argv, "C11_json", v);
    cfs::removeTree(g_root);
    return rc;
  }

  rc = mc_main(argc, argv, "C11_json", v);

  vr::Report rep("C11_json/enum", "fault_enumeration");
  rep.rule = "evaluations = (crash image, continuation) cases, each reopened by a fresh JsonFileStore inside a scheduler execution; distinct_nontrivial = "
             "distinct (directory image content, continuation) pairs whose image is torn or lies inside a flushing call";
  rep.bounds["alphabet"] = "set(a,1) set(a,2) set(b,x) remove(a) flush destroy+reopen background-flush(2 s tick)";
  rep.bounds["history_length"] = "<=" + std::to_string(g_b.maxLen) + " (all histories; crash points of the last call)";
  rep.bounds["continuations"] = "a,b always; c (4 mutations, each + flush) for length<=" + std::to_string(g_b.cLen) +
                                "; d (4 mutations + flush crashed at every point) for length<=" + std::to_string(g_b.dLen);
  rep.bounds["crash_points"] = "every prefix of the recorded file operations x every byte cut of the next write";
  rep.bounds["schedule"] = "default schedule only (P=T=E=S=0), virtual clocks";
  for (int i = 0; i < G->ncounters; ++i)
    rep.counters[G->counterName[i]] = G->counterVal[i];
  rep.evaluations = rep.counters["cases"];
  rep.traces = rep.counters["histories"];
  rep.distinct_nontrivial = G->distinctCount;
  for (int i = 0; i < 8; ++i)
    if (G->samples[i][0])
      rep.sample(G->samples[i]);
  std::vector<int> order;
  for (int i = 0; i < G->nsigs; ++i)
    order.push_back(i);
  std::sort(order.begin(), order.end(), [](int a, int b) { return strcmp(G->sigs[a].key, G->sigs[b].key) < 0; });
  for (int i : order)
  {
    SigSlot &s = G->sigs[i];
    for (int k = 0; k < s.ntop; ++k)
      rep.violation(s.top[k].clause, s.top[k].sig, s.top[k].kase, s.top[k].detail);
    rep.sig_counts[s.key] = s.count;
    rep.violation_total += s.count - uint64_t(s.ntop);
  }
  if (G->sigOverflow)
  {
    rep.exhaustive = false;
    rep.notes.push_back("too many distinct violation signatures: some were dropped");
  }
  rep.write(args.out + ".enum.json");
  cfs::removeTree(g_root);
  return rc;
}

// C02: every session gets exactly one close; nothing before announce or after close.
//
// Real code under test: Transport over the real TcpEngine and UdpEngine (rt/simk kernel), incl. the
// Transport-level close fan-out (global callback -> observers -> user-data cleanup).
//
// Part (i)  "tcp_hist" / "udp_hist": every operation history up to a depth over
//   connect->ok | connect->refused now | connect->refused asynchronously | connect->black hole + connect
//   timeout | inbound accept | app close | peer FIN | peer RST | data in | backpressure close
//   | idle GC | observe | unobserve | setSessionData | stop+restart
//   (UDP: datagram from P1 | connectViaListener | connect | close | send | idle GC | observe | data | stop+restart)
//   each step run to quiescence; after the history the transport is stopped in an orderly way.
// Part (ii) "race_*": interleavings (deviation-bounded) of the racy pairs: app close vs peer FIN, connect()
//   vs stop(), close vs unobserve, timer-originated connect timeout (high-resolution timer service thread)
//   vs completion vs app close.
//
// Oracle clauses (per identifier ever returned by connect() or announced):
//   exactly-one-close   one global close event once the transport was stopped in an orderly way - never two, never none
//   events-in-window    data events only after the announce and before the close; nothing after the close
//   ids-unique          identifiers strictly fresh (never reused, also across restart)
//   fan-out             on close: global callback, then each still-registered observer once in registration order,
//                       then the user-data cleanup once
//   gauge               getStats().sessionsCurrent >= number of sessions open in the log at every quiescent point, 0 at the end
#include "mc.h"
#include "simk.h"
#include <iora/network/transport.hpp>
#include <iora/network/transport_impl.hpp>

#include <arpa/inet.h>
#include <netinet/in.h>
#include <sys/socket.h>
#include <unistd.h>

#include <map>
#include <set>
#include <sstream>
#include <thread>

using namespace iora::network;

namespace
{
sockaddr_in addr(const char *ip, uint16_t port)
{
  sockaddr_in a{};
  a.sin_family = AF_INET;
  a.sin_port = htons(port);
  inet_pton(AF_INET, ip, &a.sin_addr);
  return a;
}

struct Ev
{
  char kind; // A accept, C connect, D data, X global close, O observer close, U cleanup
  SessionId sid;
  int aux; // observer index / data length
};

struct SessInfo
{
  bool returnedByConnect = false;
  bool announced = false;
  int closes = 0;
  int peerFd = -1; // harness-side endpoint (TCP)
  std::vector<int> observers; // observer tags registered (in order) and still registered
  bool hasData = false;
  int cleanupTag = 0;
  int epoch = 0; // transport incarnation
};

struct World
{
  std::shared_ptr<Transport> t;
  std::vector<Ev> log;
  std::map<SessionId, SessInfo> s;
  std::map<int, ObserverId> obsIds; // tag -> id
  std::map<int, SessionId> obsSid;
  int nextObsTag = 1;
  int epoch = 0;
  bool udp = false;
  std::string hist;
};

void install(World &w)
{
  World *wp = &w;
  // (callbacks are visible events: a scheduling point precedes each, see C03/C05)
  w.t->onAccept([wp](SessionId s, const TransportAddress &) { mc_yield_point("cb"); wp->log.push_back({'A', s, 0}); });
  w.t->onConnect([wp](SessionId s, const TransportAddress &) { mc_yield_point("cb"); wp->log.push_back({'C', s, 0}); });
  w.t->onData([wp](SessionId s, iora::core::BufferView d, std::chrono::steady_clock::time_point) { wp->log.push_back({'D', s, int(d.size())}); });
  w.t->onClose([wp](SessionId s, const TransportErrorInfo &) { mc_yield_point("cb"); wp->log.push_back({'X', s, 0}); });
}

// Digest the log into per-session facts and check the window / uniqueness clauses incrementally.
size_t digest(World &w, size_t from)
{
  for (size_t i = from; i < w.log.size(); ++i)
  {
    const Ev &e = w.log[i];
    SessInfo &si = w.s[e.sid];
    switch (e.kind)
    {
    case 'A':
      if (si.announced || si.returnedByConnect)
        mc_violation("ids-unique", "accepted-id-seen-before", "accept announced session id " + std::to_string(e.sid) + " which was already in use (hist " + w.hist + ")");
      si.announced = true;
      si.epoch = w.epoch;
      break;
    case 'C':
      if (si.announced)
        mc_violation("events-in-window", "announced-twice", "session " + std::to_string(e.sid) + " announced twice");
      if (si.closes)
        mc_violation("events-in-window", "connect-after-close", "connect callback for session " + std::to_string(e.sid) + " after its close (hist " + w.hist + ")");
      si.announced = true;
      break;
    case 'D':
      if (!si.announced)
        mc_violation("events-in-window", "data-before-announce", "data event for session " + std::to_string(e.sid) + " before its accept/connect callback (hist " + w.hist + ")");
      if (si.closes)
        mc_violation("events-in-window", "data-after-close", "data event for session " + std::to_string(e.sid) + " after its close (hist " + w.hist + ")");
      break;
    case 'X':
      si.closes++;
      if (si.closes > 1)
        mc_violation("exactly-one-close", "closed-twice", "session " + std::to_string(e.sid) + " received " + std::to_string(si.closes) + " close notifications (hist " + w.hist + ")");
      {
        // fan-out: the events that follow immediately must be this session's still-registered observers in
        // registration order, then its cleanup
        size_t j = i + 1;
        for (int tag : si.observers)
        {
          if (j >= w.log.size() || w.log[j].kind != 'O' || w.log[j].sid != e.sid || w.log[j].aux != tag)
            mc_violation("fan-out", "observer-missing-or-out-of-order", "close of session " + std::to_string(e.sid) + ": observer #" + std::to_string(tag) + " was not invoked next in registration order (hist " + w.hist + ")");
          ++j;
        }
        if (si.hasData)
        {
          if (j >= w.log.size() || w.log[j].kind != 'U' || w.log[j].sid != e.sid)
            mc_violation("fan-out", "cleanup-missing-or-out-of-order", "close of session " + std::to_string(e.sid) + ": user-data cleanup did not run after the observers (hist " + w.hist + ")");
          ++j;
        }
        if (j < w.log.size() && (w.log[j].kind == 'O' || w.log[j].kind == 'U') && w.log[j].sid == e.sid)
          mc_violation("fan-out", "extra-observer-or-cleanup", "close of session " + std::to_string(e.sid) + " invoked an unregistered observer / a second cleanup (hist " + w.hist + ")");
        for (int tag : si.observers)
        {
          w.obsIds.erase(tag);
          w.obsSid.erase(tag);
        }
        si.observers.clear();
        si.hasData = false;
      }
      break;
    case 'O':
    case 'U':
      if (!si.closes)
        mc_violation("fan-out", "observer-or-cleanup-without-close", "observer/cleanup of session " + std::to_string(e.sid) + " ran before its global close callback");
      break;
    }
  }
  return w.log.size();
}

size_t openInLog(World &w)
{
  size_t n = 0;
  for (auto &kv : w.s)
    if (kv.second.announced && !kv.second.closes)
      ++n;
  return n;
}

void gauge(World &w, const char *when)
{
  size_t open = openInLog(w);
  auto st = w.t->getStats();
  if (st.sessionsCurrent < open)
    mc_violation("gauge", std::string("under-count:") + when, "getStats().sessionsCurrent=" + std::to_string(st.sessionsCurrent) + " but " + std::to_string(open) + " sessions are open in the event log (hist " + w.hist + ")");
}

void finalChecks(World &w)
{
  for (auto &kv : w.s)
  {
    SessInfo &si = kv.second;
    if ((si.returnedByConnect || si.announced) && si.closes != 1)
      mc_violation("exactly-one-close", si.closes == 0 ? (si.announced ? "announced-session-never-closed" : "connect-returned-id-never-closed") : "closed-twice",
                   "session " + std::to_string(kv.first) + " (" + (si.returnedByConnect ? "returned by connect()" : "accepted") + (si.announced ? ", announced" : ", never announced") + ") received " +
                     std::to_string(si.closes) + " close notifications after an orderly stop (hist " + w.hist + ")");
  }
}

SessionId pickOpen(World &w, bool needPeerFd)
{
  for (auto &kv : w.s)
    if (kv.second.announced && !kv.second.closes && kv.second.epoch == w.epoch && (!needPeerFd || kv.second.peerFd >= 0))
      return kv.first;
  return 0;
}

void noteConnect(World &w, const ConnectResult &r)
{
  if (r.isErr())
    return;
  SessionId sid = r.value();
  SessInfo &si = w.s[sid];
  if (si.returnedByConnect || si.announced)
    mc_violation("ids-unique", "connect-returned-id-seen-before", "connect() returned session id " + std::to_string(sid) + " which was already in use (hist " + w.hist + ")");
  for (auto &kv : w.s)
    if (kv.first > sid && (kv.second.announced || kv.second.returnedByConnect) && kv.first != sid)
      mc_violation("ids-unique", "id-not-increasing", "connect() returned " + std::to_string(sid) + " after " + std::to_string(kv.first) + " had been used (hist " + w.hist + ")");
  si.returnedByConnect = true;
  si.epoch = w.epoch;
}

// ---------------------------------------------------------------- TCP histories
// mode 0: every history of the given depth over the 16-operation alphabet.
// mode 1 (scenario tcp_observer_orders): one connected session with four observers and a user-data cleanup; every
// sequence of up to two unobserve calls on ANY of the four (not only the most recent), then every close cause
// (application close, peer FIN, orderly stop) - the fan-out must visit the remaining observers in registration order.
void tcpHistory(int depth, int mode = 0)
{
  mc_label("main:tcp");
  static const int observerScript[] = {0, 11, 11, 11, 11, 13, 16, 16, 17};
  if (mode == 1)
    depth = (int)(sizeof observerScript / sizeof observerScript[0]);
  simk_cfg.tcpRcvBuf = 2;
  simk_cfg.shortIo = false; // kernel answers are C01's business; here: lifecycle
  simk_route("127.0.0.1", 9101, SIMK_REFUSE_NOW);
  simk_route("127.0.0.1", 9102, SIMK_REFUSE_ASYNC);
  simk_route("127.0.0.1", 9103, SIMK_BLACKHOLE);
  World w;
  TransportConfig cfg;
  cfg.enableHighResolutionTimers = false;
  cfg.connectTimeout = std::chrono::milliseconds(500);
  cfg.idleTimeout = std::chrono::seconds(10);
  cfg.gcInterval = std::chrono::seconds(1);
  cfg.maxWriteQueue = 1;
  cfg.ioReadChunk = 8;
  w.t = Transport::tcp(cfg);
  install(w);
  int lfd = ::socket(AF_INET, SOCK_STREAM | SOCK_NONBLOCK, 0);
  sockaddr_in la = addr("127.0.0.1", 9100);
  ::bind(lfd, (sockaddr *)&la, sizeof la);
  ::listen(lfd, 8);
  auto startUp = [&]()
  {
    if (w.t->start().isErr())
      mc_violation("harness-internal", "start", "start failed");
    if (w.t->addListener("127.0.0.1", 9000, TlsMode::None).isErr())
      mc_violation("harness-internal", "listener", "addListener failed");
    mc_quiesce();
  };
  startUp();
  size_t cur = 0;
  for (int step = 0; step < depth; ++step)
  {
    int op = mode == 1 ? observerScript[step] : mc_choose(16, MC_FREE);
    static const char *names = "krabixfRdBgouUZpvc";
    w.hist.push_back(names[op]);
    int pick = 0;
    if (op == 16)
    {
      pick = mc_choose(5, MC_FREE); // 0: leave all, k: unobserve the k-th registered observer
      w.hist.push_back((char)('0' + pick));
    }
    if (op == 17)
    {
      static const int closers[] = {5, 6, -1};
      op = closers[mc_choose(3, MC_FREE)];
      w.hist.push_back(op < 0 ? 's' : names[op]);
    }
    switch (op)
    {
    case 16: // unobserve a chosen observer (any position in the registration order)
      if (pick > 0 && w.obsIds.count(pick))
      {
        int tag = pick; // tags start at 1
        bool ok = w.t->unobserve(w.obsIds[tag]);
        SessionId sid = w.obsSid[tag];
        if (ok)
        {
          auto &v = w.s[sid].observers;
          v.erase(std::remove(v.begin(), v.end(), tag), v.end());
        }
        else
          mc_violation("fan-out", "unobserve-of-registered-observer-failed", "unobserve() returned false for a registered observer of an open session (hist " + w.hist + ")");
        w.obsIds.erase(tag);
        w.obsSid.erase(tag);
      }
      break;
    case 0: // connect -> ok
    {
      auto r = w.t->connect("127.0.0.1", 9100, TlsMode::None);
      noteConnect(w, r);
      mc_quiesce();
      int pfd = ::accept4(lfd, nullptr, nullptr, SOCK_NONBLOCK);
      if (r.isOk())
        w.s[r.value()].peerFd = pfd;
      mc_quiesce();
      break;
    }
    case 1:
    case 2:
    {
      auto r = w.t->connect("127.0.0.1", op == 1 ? 9101 : 9102, TlsMode::None);
      noteConnect(w, r);
      mc_quiesce();
      break;
    }
    case 3: // black hole + connect timeout (GC safety net: connectTimeout 0.5 s, gc every 1 s)
    {
      auto r = w.t->connect("127.0.0.1", 9103, TlsMode::None);
      noteConnect(w, r);
      mc_quiesce(2500ull * 1000000ull);
      break;
    }
    case 15: // black hole, NOT waited for: the connect is still pending when the next operation (possibly stop) runs
    {
      auto r = w.t->connect("127.0.0.1", 9103, TlsMode::None);
      noteConnect(w, r);
      mc_quiesce();
      break;
    }
    case 4: // inbound accept
    {
      int pfd = ::socket(AF_INET, SOCK_STREAM | SOCK_NONBLOCK, 0);
      sockaddr_in a = addr("127.0.0.1", 9000);
      ::connect(pfd, (sockaddr *)&a, sizeof a);
      size_t before = w.log.size();
      mc_quiesce();
      for (size_t i = before; i < w.log.size(); ++i)
        if (w.log[i].kind == 'A')
          w.s[w.log[i].sid].peerFd = pfd;
      break;
    }
    case 5: // app close
      if (SessionId sid = pickOpen(w, false))
      {
        w.t->close(sid);
        mc_quiesce();
      }
      break;
    case 6: // peer FIN
    case 7: // peer RST
      if (SessionId sid = pickOpen(w, true))
      {
        int pfd = w.s[sid].peerFd;
        if (op == 7)
        {
          struct linger l = {1, 0};
          ::setsockopt(pfd, SOL_SOCKET, SO_LINGER, &l, sizeof l);
        }
        ::close(pfd);
        w.s[sid].peerFd = -1;
        mc_quiesce();
      }
      break;
    case 8: // data in
      if (SessionId sid = pickOpen(w, true))
      {
        ::send(w.s[sid].peerFd, "hi", 2, 0);
        mc_quiesce();
      }
      break;
    case 9: // backpressure: peer does not read, buffers of 2 bytes, maxWriteQueue=1
      if (SessionId sid = pickOpen(w, true))
      {
        for (int k = 0; k < 4; ++k)
          w.t->send(sid, iora::core::BufferView{(const uint8_t *)"abc", 3});
        mc_quiesce();
      }
      break;
    case 10: // idle GC
      mc_quiesce(12ull * 1000000000ull);
      break;
    case 11: // observe
      if (SessionId sid = pickOpen(w, false))
      {
        int tag = w.nextObsTag++;
        World *wp = &w;
        ObserverId id = w.t->observe(sid, [wp, tag](SessionId s, const TransportErrorInfo &) { wp->log.push_back({'O', s, tag}); });
        w.obsIds[tag] = id;
        w.obsSid[tag] = sid;
        w.s[sid].observers.push_back(tag);
      }
      break;
    case 12: // unobserve the most recent observer
      if (!w.obsIds.empty())
      {
        auto it = std::prev(w.obsIds.end());
        int tag = it->first;
        bool ok = w.t->unobserve(it->second);
        SessionId sid = w.obsSid[tag];
        if (ok)
        {
          auto &v = w.s[sid].observers;
          v.erase(std::remove(v.begin(), v.end(), tag), v.end());
        }
        w.obsIds.erase(tag);
        w.obsSid.erase(tag);
      }
      break;
    case 13: // user data with cleanup
      if (SessionId sid = pickOpen(w, false))
      {
        World *wp = &w;
        static int dummy;
        w.t->setSessionData(sid, &dummy, [wp, sid](void *) { wp->log.push_back({'U', sid, 0}); });
        w.s[sid].hasData = true;
      }
      break;
    case 14: // stop + restart
    {
      w.t->stop();
      cur = digest(w, cur);
      for (auto &kv : w.s)
        if (kv.second.peerFd >= 0)
        {
          ::close(kv.second.peerFd);
          kv.second.peerFd = -1;
        }
      finalChecks(w); // an orderly stop: everything known so far must be closed exactly once
      if (w.t->getStats().sessionsCurrent != 0)
        mc_violation("gauge", "non-zero-after-stop", "sessionsCurrent=" + std::to_string(w.t->getStats().sessionsCurrent) + " after stop (hist " + w.hist + ")");
      w.epoch++;
      startUp();
      break;
    }
    }
    cur = digest(w, cur);
    gauge(w, "after-step");
  }
  mc_obs("hist=%s sessions=%zu", w.hist.c_str(), w.s.size());
  w.t->stop();
  cur = digest(w, cur);
  finalChecks(w);
  if (w.t->getStats().sessionsCurrent != 0)
    mc_violation("gauge", "non-zero-after-stop", "sessionsCurrent=" + std::to_string(w.t->getStats().sessionsCurrent) + " after the final stop (hist " + w.hist + ")");
  for (auto &kv : w.s)
    if (kv.second.peerFd >= 0)
      ::close(kv.second.peerFd);
  ::close(lfd);
  w.t.reset();
  if (simk_open_fds() != 0)
    mc_violation("harness-internal", "fd-leak", std::to_string(simk_open_fds()) + " simulated descriptors left open (hist " + w.hist + ")");
}

// ---------------------------------------------------------------- UDP histories
void udpHistory(int depth)
{
  mc_label("main:udp");
  World w;
  w.udp = true;
  TransportConfig cfg;
  cfg.enableHighResolutionTimers = false;
  cfg.idleTimeout = std::chrono::seconds(10);
  cfg.gcInterval = std::chrono::seconds(1);
  w.t = Transport::udp(cfg);
  install(w);
  ListenerId lid = 0;
  auto startUp = [&]()
  {
    if (w.t->start().isErr())
      mc_violation("harness-internal", "start", "start failed");
    auto lr = w.t->addListener("127.0.0.1", 7000, TlsMode::None);
    if (lr.isErr())
      mc_violation("harness-internal", "listener", "addListener failed");
    lid = lr.value();
    mc_quiesce();
  };
  startUp();
  int p1 = ::socket(AF_INET, SOCK_DGRAM | SOCK_NONBLOCK, 0);
  sockaddr_in a1 = addr("127.0.0.1", 7001);
  ::bind(p1, (sockaddr *)&a1, sizeof a1);
  int p2 = ::socket(AF_INET, SOCK_DGRAM | SOCK_NONBLOCK, 0);
  sockaddr_in a2 = addr("127.0.0.1", 7002);
  ::bind(p2, (sockaddr *)&a2, sizeof a2);
  sockaddr_in L = addr("127.0.0.1", 7000);
  size_t cur = 0;
  for (int step = 0; step < depth; ++step)
  {
    int op = mc_choose(11, MC_FREE);
    static const char *names = "12vcxsgouUZ";
    w.hist.push_back(names[op]);
    switch (op)
    {
    case 0:
      ::sendto(p1, "a", 1, 0, (sockaddr *)&L, sizeof L);
      mc_quiesce();
      break;
    case 1:
      ::sendto(p2, "bb", 2, 0, (sockaddr *)&L, sizeof L);
      mc_quiesce();
      break;
    case 2:
      noteConnect(w, w.t->connectViaListener(lid, "127.0.0.1", 7001));
      mc_quiesce();
      break;
    case 3:
      noteConnect(w, w.t->connect("127.0.0.1", 7001, TlsMode::None));
      mc_quiesce();
      break;
    case 4:
      if (SessionId sid = pickOpen(w, false))
      {
        w.t->close(sid);
        mc_quiesce();
      }
      break;
    case 5:
      if (SessionId sid = pickOpen(w, false))
      {
        w.t->send(sid, iora::core::BufferView{(const uint8_t *)"xyz", 3});
        mc_quiesce();
      }
      break;
    case 6:
      mc_quiesce(12ull * 1000000000ull);
      break;
    case 7:
      if (SessionId sid = pickOpen(w, false))
      {
        int tag = w.nextObsTag++;
        World *wp = &w;
        ObserverId id = w.t->observe(sid, [wp, tag](SessionId s, const TransportErrorInfo &) { wp->log.push_back({'O', s, tag}); });
        w.obsIds[tag] = id;
        w.obsSid[tag] = sid;
        w.s[sid].observers.push_back(tag);
      }
      break;
    case 8:
      if (!w.obsIds.empty())
      {
        auto it = std::prev(w.obsIds.end());
        int tag = it->first;
        bool ok = w.t->unobserve(it->second);
        SessionId sid = w.obsSid[tag];
        if (ok)
        {
          auto &v = w.s[sid].observers;
          v.erase(std::remove(v.begin(), v.end(), tag), v.end());
        }
        w.obsIds.erase(tag);
        w.obsSid.erase(tag);
      }
      break;
    case 9:
      if (SessionId sid = pickOpen(w, false))
      {
        World *wp = &w;
        static int dummy;
        w.t->setSessionData(sid, &dummy, [wp, sid](void *) { wp->log.push_back({'U', sid, 0}); });
        w.s[sid].hasData = true;
      }
      break;
    case 10:
      w.t->stop();
      cur = digest(w, cur);
      finalChecks(w);
      if (w.t->getStats().sessionsCurrent != 0)
        mc_violation("gauge", "non-zero-after-stop", "udp sessionsCurrent=" + std::to_string(w.t->getStats().sessionsCurrent) + " after stop (hist " + w.hist + ")");
      w.epoch++;
      startUp();
      break;
    }
    cur = digest(w, cur);
    gauge(w, "after-step");
  }
  mc_obs("hist=%s sessions=%zu", w.hist.c_str(), w.s.size());
  w.t->stop();
  cur = digest(w, cur);
  finalChecks(w);
  if (w.t->getStats().sessionsCurrent != 0)
    mc_violation("gauge", "non-zero-after-stop", "udp sessionsCurrent=" + std::to_string(w.t->getStats().sessionsCurrent) + " after the final stop (hist " + w.hist + ")");
  ::close(p1);
  ::close(p2);
  w.t.reset();
  if (simk_open_fds() != 0)
    mc_violation("harness-internal", "fd-leak", std::to_string(simk_open_fds()) + " simulated descriptors left open (hist " + w.hist + ")");
}

// ---------------------------------------------------------------- races
// variant 0: app close vs peer FIN on the same session   1: connect() vs stop()
// variant 2: close vs unobserve                          3: connect timeout (timer service) vs completion vs app close
void race(int variant)
{
  mc_label("main:race");
  simk_cfg.tcpRcvBuf = 4;
  simk_cfg.shortIo = false;
  simk_route("127.0.0.1", 9103, SIMK_BLACKHOLE);
  World w;
  TransportConfig cfg;
  cfg.enableHighResolutionTimers = variant == 3;
  cfg.connectTimeout = std::chrono::milliseconds(50);
  cfg.gcInterval = std::chrono::seconds(5);
  w.t = Transport::tcp(cfg);
  install(w);
  int lfd = ::socket(AF_INET, SOCK_STREAM | SOCK_NONBLOCK, 0);
  sockaddr_in la = addr("127.0.0.1", 9100);
  ::bind(lfd, (sockaddr *)&la, sizeof la);
  ::listen(lfd, 8);
  if (w.t->start().isErr())
    mc_violation("harness-internal", "start", "start failed");
  w.hist = "race" + std::to_string(variant);
  std::vector<std::thread> th;
  bool stopped = false;
  if (variant == 0 || variant == 2)
  {
    auto r = w.t->connect("127.0.0.1", 9100, TlsMode::None);
    noteConnect(w, r);
    mc_quiesce();
    int pfd = ::accept4(lfd, nullptr, nullptr, SOCK_NONBLOCK);
    mc_quiesce();
    SessionId sid = r.value();
    int tag = 1;
    World *wp = &w;
    ObserverId oid = w.t->observe(sid, [wp, tag](SessionId s, const TransportErrorInfo &) { wp->log.push_back({'O', s, tag}); });
    bool unobserved = false;
    if (variant == 0)
    {
      w.s[sid].observers.push_back(tag);
      th.emplace_back([&]() { mc_label("app:close"); w.t->close(sid); mc_label("app:done"); });
      th.emplace_back([&, pfd]() { mc_label("peer:fin"); ::close(pfd); mc_label("peer:done"); });
    }
    else
    {
      th.emplace_back([&]() { mc_label("app:close"); w.t->close(sid); mc_label("app:done"); });
      th.emplace_back([&]() { mc_label("app2:unobserve"); unobserved = w.t->unobserve(oid); mc_label("app2:done"); });
    }
    for (auto &x : th)
      x.join();
    mc_quiesce();
    if (variant == 2)
    {
      // the observer either ran exactly once (unobserve lost the race) or not at all; never twice
      int n = 0;
      for (auto &e : w.log)
        if (e.kind == 'O')
          ++n;
      if (n > 1)
        mc_violation("fan-out", "observer-invoked-twice", "observer ran " + std::to_string(n) + " times");
      if (n == 0 && !unobserved)
        mc_violation("fan-out", "observer-lost", "unobserve() returned false but the observer never ran");
      if (n == 1)
        w.s[sid].observers.push_back(tag);
      ::close(pfd);
    }
  }
  else if (variant == 1)
  {
    ConnectResult r = ConnectResult::err(TransportErrorInfo{});
    th.emplace_back([&]() { mc_label("app:connect"); r = w.t->connect("127.0.0.1", 9100, TlsMode::None); mc_label("app:done"); });
    th.emplace_back([&]() { mc_label("app2:stop"); w.t->stop(); stopped = true; mc_label("app2:done"); });
    for (auto &x : th)
      x.join();
    noteConnect(w, r);
    mc_quiesce();
  }
  else
  {
    // connect to a listener whose accept happens right around the 50 ms connect timeout, plus an app close
    auto r = w.t->connect("127.0.0.1", 9103, TlsMode::None); // black hole: only the timer or the app can end it
    noteConnect(w, r);
    SessionId sid = r.value();
    th.emplace_back([&]() { mc_label("app:sleep-close"); std::this_thread::sleep_for(std::chrono::milliseconds(50)); w.t->close(sid); mc_label("app:done"); });
    for (auto &x : th)
      x.join();
    mc_quiesce(200ull * 1000000ull);
  }
  size_t cur = digest(w, 0);
  if (!stopped)
    w.t->stop();
  cur = digest(w, cur);
  {
    // the event log is the observation of a race execution (distinct outcomes = distinct orders that really occurred)
    std::string o;
    for (auto &e : w.log)
    {
      o.push_back(e.kind);
      o += std::to_string((unsigned long long)e.sid);
      o.push_back(' ');
    }
    mc_obs("events: %s", o.c_str());
  }
  finalChecks(w);
  if (w.t->getStats().sessionsCurrent != 0)
    mc_violation("gauge", "non-zero-after-stop", "sessionsCurrent=" + std::to_string(w.t->getStats().sessionsCurrent) + " after stop");
  ::close(lfd);
  w.t.reset();
}
} // namespace

int main(int argc, char **argv)
{
  iora::core::Logger::setLevel(iora::core::Logger::Level::Fatal);
  bool thorough = false;
  for (int i = 1; i + 1 < argc; ++i)
    if (std::string(argv[i]) == "--tier" && std::string(argv[i + 1]) == "thorough")
      thorough = true;
  std::vector<McScenario> v;
  {
    McScenario m;
    m.name = "tcp_hist";
    int d = thorough ? 5 : 4;
    m.body = [d]() { tcpHistory(d); };
    m.quick.S = 0;
    m.thorough.S = 0;
    m.horizon_s = 600;
    m.weight = 6;
    v.push_back(m);
  }
  {
    McScenario m;
    m.name = "udp_hist";
    int d = thorough ? 5 : 4;
    m.body = [d]() { udpHistory(d); };
    m.quick.S = 0;
    m.thorough.S = 0;
    m.horizon_s = 600;
    m.weight = 3;
    v.push_back(m);
  }
  {
    McScenario m;
    m.name = "tcp_observer_orders";
    m.body = []() { tcpHistory(0, 1); };
    m.quick.S = 0;
    m.thorough.S = 0;
    m.horizon_s = 600;
    v.push_back(m);
  }
  const char *names[] = {"race_close_vs_fin", "race_connect_vs_stop", "race_close_vs_unobserve", "race_timer_close"};
  for (int k = 0; k < 4; ++k)
  {
    McScenario m;
    m.name = names[k];
    m.body = [k]() { race(k); };
    m.quick.P = 2;
    m.quick.T = k == 3 ? 1 : 0;
    m.quick.S = 1;
    m.quick.total = 2;
    m.thorough.P = 3;
    m.thorough.T = k == 3 ? 2 : 0;
    m.thorough.S = 2;
    m.thorough.total = 3;
    m.horizon_s = 60;
    v.push_back(m);
  }
  return mc_main(argc, argv, "C02_session_lifecycle", v);
}

// C13 — "JSON texts and values round-trip and agree with RFC 8259"
//
// Bounded-exhaustive exploration of iora::parsers::Json on the real header (/repo/include).
// Cases come from oracle/c13_gen.py (complete enumerations of a token grammar inside stated bounds,
// expected values from CPython's json module); dump outputs are validated by the same reference
// running as a co-process (oracle/c13_ref.py --serve).  Nothing is sampled.
//
// Case kinds (the `case` bytes of a violation; first line = header, rest = payload):
//   "P d,a,m,s\n<text>"   parse <text> under ParseLimits{arrayItemsMax=a, membersMax=m, depthMax=d,
//                         stringLengthMax=s}; compare with the reference            (part i)
//   "D <opt>\n<spec>"     build value from spec, serialise with option set <opt>, parse back,
//                         let the reference decode the output                      (part ii)
//   "B d,a,m,s\n<bytes>"  robustness only: terminates, no sanitizer report, error offset <= size
//                                                                                 (part iii)
// Clauses
//   accepts-valid-within-limits  RFC-valid text whose nesting/sizes are within the limits is accepted
//   decode-equals-reference      ... and decodes to the reference value (numbers compared numerically)
//   limits-enforced              an accepted text never exceeds a configured limit (lenient reading)
//   error-offset-inside-input    !ok  =>  error.where.offset <= text.size()
//   roundtrip-equal              parse(dump(v)) == v   for each option set
//   dump-valid-rfc8259           the reference accepts dump(v)
//   dump-equals-reference        ... and decodes it to v
//   no-crash-no-ub               a read past the end of the input (PROT_NONE guard page behind the input copy,
//                                sig input-overread:min=<minimal input>), an escaping exception, or - via the
//                                supervisor in rt/bexh.hpp - an ASan/UBSan abort or fatal signal (sig crash)
//   terminates                   (supervisor) no progress inside one case for 30 s
// Sigs are derived from the failing case: the first scalar token / string atom / value leaf that shows the
// same kind of failure on its own, the limit that alone reproduces it, or the minimised input.
// Over-acceptance of invalid text is never a violation.
#include "iora/parsers/json.hpp"

#include "bexh.hpp"

#include <cinttypes>
#include <cmath>
#include <csetjmp>
#include <functional>
#include <memory>
#include <string>
#include <string_view>
#include <unordered_map>
#include <vector>

extern "C" const char *__asan_default_options() { return "detect_leaks=0:allocator_may_return_null=1"; }

using iora::parsers::Json;
using iora::parsers::ParseLimits;
using iora::parsers::SerializeOptions;

namespace
{

struct Limits
{
  size_t d = 100, a = 10000, m = 10000, s = 1000000;
  bool isDefault() const { return d == 100 && a == 10000 && m == 10000 && s == 1000000; }
  ParseLimits toIora() const
  {
    ParseLimits l;
    l.depthMax = d;
    l.arrayItemsMax = a;
    l.membersMax = m;
    l.stringLengthMax = s;
    return l;
  }
  std::string str() const
  {
    char b[128];
    snprintf(b, sizeof b, "%zu,%zu,%zu,%zu", d, a, m, s);
    return b;
  }
  static Limits parse(const std::string &t)
  {
    Limits l;
    sscanf(t.c_str(), "%zu,%zu,%zu,%zu", &l.d, &l.a, &l.m, &l.s);
    return l;
  }
};

// ------------------------------------------------------------------ canonical encoding
void canon(const Json &j, std::string &o)
{
  using iora::parsers::JsonType;
  switch (j.type())
  {
  case JsonType::Null:
    o += 'n';
    break;
  case JsonType::Boolean:
    o += j.getBool() ? 't' : 'f';
    break;
  case JsonType::Int:
    o += 'i';
    o += std::to_string((long long)j.getInt());
    break;
  case JsonType::Double:
  {
    double d = j.getDouble();
    if (std::isfinite(d) && d == std::floor(d) && d >= -9223372036854775808.0 && d < 9223372036854775808.0)
    {
      o += 'i';
      o += std::to_string((long long)d);
    }
    else
    {
      uint64_t u;
      memcpy(&u, &d, 8);
      char b[24];
      snprintf(b, sizeof b, "d%016" PRIx64, u);
      o += b;
    }
    break;
  }
  case JsonType::String:
    o += 's';
    o += vr::hex(j.getString());
    break;
  case JsonType::Array:
  {
    o += "a(";
    bool first = true;
    for (const Json &e : j.getArray())
    {
      if (!first)
        o += ' ';
      first = false;
      canon(e, o);
    }
    o += ')';
    break;
  }
  case JsonType::Object:
  {
    std::vector<const std::pair<const std::string, Json> *> ms;
    for (const auto &kv : j.getObject())
      ms.push_back(&kv);
    std::sort(ms.begin(), ms.end(),
              [](auto *x, auto *y)
              {
                const std::string &p = x->first, &q = y->first;
                int c = memcmp(p.data(), q.data(), std::min(p.size(), q.size()));
                return c != 0 ? c < 0 : p.size() < q.size();
              });
    o += "o(";
    bool first = true;
    for (auto *kv : ms)
    {
      if (!first)
        o += ' ';
      first = false;
      o += 's';
      o += vr::hex(kv->first);
      o += ' ';
      canon(kv->second, o);
    }
    o += ')';
    break;
  }
  }
}

// value spec -> Json (type-preserving: i = Int, d = Double)
struct SpecLeaf
{
  std::string spec; // scalar spec, or the name's s<hex> spec
  bool isKey;
};

Json buildSpec(const std::string &s, size_t &p, std::vector<SpecLeaf> *leaves)
{
  char c = s[p];
  auto word = [&]()
  {
    size_t q = p + 1;
    while (q < s.size() && s[q] != ' ' && s[q] != ')')
      ++q;
    std::string w = s.substr(p + 1, q - p - 1);
    if (leaves)
      leaves->push_back({s.substr(p, q - p), false});
    p = q;
    return w;
  };
  if (c == 'n' || c == 't' || c == 'f')
  {
    if (leaves)
      leaves->push_back({std::string(1, c), false});
    ++p;
    return c == 'n' ? Json(nullptr) : Json(c == 't');
  }
  if (c == 'i')
    return Json((std::int64_t)strtoll(word().c_str(), nullptr, 10));
  if (c == 'd')
  {
    uint64_t u = strtoull(word().c_str(), nullptr, 16);
    double d;
    memcpy(&d, &u, 8);
    return Json(d);
  }
  if (c == 's')
    return Json(vr::unhex(word()));
  // containers
  p += 2; // "a(" / "o("
  if (c == 'a')
  {
    Json::Array arr;
    while (s[p] != ')')
    {
      if (s[p] == ' ')
      {
        ++p;
        continue;
      }
      arr.push_back(buildSpec(s, p, leaves));
    }
    ++p;
    return Json(std::move(arr));
  }
  Json::Object obj;
  while (s[p] != ')')
  {
    if (s[p] == ' ')
    {
      ++p;
      continue;
    }
    size_t q = p + 1;
    while (s[q] != ' ')
      ++q;
    std::string key = vr::unhex(s.substr(p + 1, q - p - 1));
    if (leaves)
      leaves->push_back({s.substr(p, q - p), true});
    p = q + 1;
    obj[key] = buildSpec(s, p, leaves);
  }
  ++p;
  return Json(std::move(obj));
}

// ------------------------------------------------------------------ reference co-process
struct RefResp
{
  char kind = 'E'; // R rejected, U unjudged, V value
  std::string canon;
  long D = 0, N = 0, maxArr = 0, memText = 0, memVal = 0, strBytes = 0, strCps = 0;
  static RefResp parse(const std::string &line)
  {
    RefResp r;
    if (line.empty())
      return r;
    r.kind = line[0];
    if (r.kind == 'V')
    {
      size_t a = 2, b = line.find(' ', a);
      // canon contains spaces inside containers: the 7 measures are the last 7 fields
      size_t end = line.size();
      long m[7];
      for (int i = 6; i >= 0; --i)
      {
        size_t sp = line.rfind(' ', end - 1);
        m[i] = atol(line.c_str() + sp + 1);
        end = sp;
      }
      (void)b;
      r.canon = line.substr(a, end - a);
      r.D = m[0], r.N = m[1], r.maxArr = m[2], r.memText = m[3], r.memVal = m[4], r.strBytes = m[5], r.strCps = m[6];
    }
    return r;
  }
};

std::string g_oraclePath;

class Ref
{
public:
  ~Ref() { stop(); }
  RefResp ask(const std::string &bytes)
  {
    auto it = _cache.find(bytes);
    if (it != _cache.end())
      return it->second;
    if (_pid <= 0)
      start();
    std::string h = vr::hex(bytes);
    h += '\n';
    if (fwrite(h.data(), 1, h.size(), _to) != h.size() || fflush(_to) != 0)
      die("write to reference co-process failed");
    std::string line;
    int c;
    while ((c = fgetc(_from)) != EOF && c != '\n')
      line.push_back(char(c));
    if (c == EOF)
      die("reference co-process closed its output");
    RefResp r = RefResp::parse(line);
    if (r.kind != 'R' && r.kind != 'U' && r.kind != 'V')
      die("bad answer from reference co-process: " + line.substr(0, 80));
    if (bytes.size() <= 64 && _cache.size() < 200000)
      _cache.emplace(bytes, r);
    return r;
  }
  uint64_t spawned = 0;

private:
  pid_t _pid = -1;
  FILE *_to = nullptr, *_from = nullptr;
  std::unordered_map<std::string, RefResp> _cache;
  [[noreturn]] void die(const std::string &m)
  {
    fprintf(stderr, "C13_json: %s\n", m.c_str());
    fflush(nullptr);
    _exit(3); // outside any case => the supervisor reports harness-internal
  }
  void start()
  {
    int a[2], b[2];
    if (pipe(a) != 0 || pipe(b) != 0)
      die("pipe failed");
    fflush(nullptr);
    pid_t p = fork();
    if (p < 0)
      die("fork failed");
    if (p == 0)
    {
      dup2(a[0], 0);
      dup2(b[1], 1);
      close(a[0]), close(a[1]), close(b[0]), close(b[1]);
      execlp("python3", "python3", g_oraclePath.c_str(), "--serve", (char *)nullptr);
      _exit(127);
    }
    close(a[0]);
    close(b[1]);
    _to = fdopen(a[1], "w");
    _from = fdopen(b[0], "r");
    _pid = p;
    ++spawned;
  }
  void stop()
  {
    if (_pid > 0)
    {
      fclose(_to);
      fclose(_from);
      int st;
      waitpid(_pid, &st, 0);
      _pid = -1;
    }
  }
};

// ------------------------------------------------------------------ running iora
struct Outcome
{
  bool ok = false;
  bool threw = false;
  size_t overread = 0; // > 0: the parser read this many bytes past the end of the input (at least)
  size_t offset = 0;
  std::string canon, msg;
};

// Guarded input buffer.  The input is copied so that it *ends* exactly at a PROT_NONE page: a read at
// or beyond text.size() faults, the SIGSEGV handler jumps back into runParse() and the case is
// recorded as an ordinary violation (clause no-crash-no-ub, sig input-overread:...).  This keeps a
// frequent over-read from costing one worker restart (or one ~1 ms ASan report) per case.  Inputs
// larger than the window fall back to an exact-size heap block, where ASan aborts on an over-read
// and the supervisor attributes the crash.  Everything else (heap, stack, UB) stays under ASan+UBSan.
struct GuardBuf
{
  char *base = nullptr;
  char *guard = nullptr;
  size_t window = 0, page = 0;
  void init()
  {
    page = size_t(sysconf(_SC_PAGESIZE));
    window = 256 * page;
    base = (char *)mmap(nullptr, window + page, PROT_READ | PROT_WRITE, MAP_PRIVATE | MAP_ANONYMOUS, -1, 0);
    if (base == MAP_FAILED)
    {
      base = nullptr;
      return;
    }
    guard = base + window;
    mprotect(guard, page, PROT_NONE);
  }
} g_gb;

sigjmp_buf g_jmp;
volatile sig_atomic_t g_inParse = 0;
volatile size_t g_faultBy = 0;
struct sigaction g_oldSegv;

void onSegv(int sig, siginfo_t *si, void *ctx)
{
  char *a = (char *)si->si_addr;
  if (g_inParse && g_gb.guard && a >= g_gb.guard && a < g_gb.guard + g_gb.page)
  {
    g_faultBy = size_t(a - g_gb.guard) + 1;
    siglongjmp(g_jmp, 1);
  }
  // not ours: hand over to the handler that was installed before (ASan's), which reports and dies
  if (g_oldSegv.sa_flags & SA_SIGINFO)
    g_oldSegv.sa_sigaction(sig, si, ctx);
  else
  {
    signal(SIGSEGV, SIG_DFL);
    raise(SIGSEGV);
  }
}

void installGuard()
{
  g_gb.init();
  struct sigaction sa;
  memset(&sa, 0, sizeof sa);
  sa.sa_sigaction = onSegv;
  sa.sa_flags = SA_SIGINFO | SA_NODEFER;
  sigemptyset(&sa.sa_mask);
  sigaction(SIGSEGV, &sa, &g_oldSegv);
}

__attribute__((noinline)) void parseInto(std::string_view text, const Limits &lim, bool wantCanon, Outcome &o)
{
  try
  {
    auto r = Json::parse(text, lim.toIora());
    o.ok = r.ok;
    if (r.ok)
    {
      if (wantCanon)
        canon(r.value, o.canon);
    }
    else
    {
      o.offset = r.error.where.offset;
      o.msg = r.error.message;
    }
  }
  catch (const std::exception &e)
  {
    o.threw = true;
    o.msg = std::string("exception ") + typeid(e).name() + ": " + e.what();
  }
}

Outcome runParse(std::string_view text, const Limits &lim, bool wantCanon)
{
  Outcome o;
  if (g_gb.base && text.size() <= g_gb.window)
  {
    char *p = g_gb.guard - text.size();
    memcpy(p, text.data(), text.size());
    g_inParse = 1;
    if (sigsetjmp(g_jmp, 1) == 0)
      parseInto(std::string_view(p, text.size()), lim, wantCanon, o);
    else
    {
      // came back from the SIGSEGV handler: whatever the parser had allocated is leaked (LSan is off)
      o = Outcome{};
      o.overread = g_faultBy;
      o.msg = "read past the end of the input";
    }
    g_inParse = 0;
    return o;
  }
  // Parse from a heap block of exactly text.size() bytes (no terminator, no slack) so that ASan sees
  // any read at or beyond the end of the input.
  std::unique_ptr<char[]> exact(new char[text.size()]);
  memcpy(exact.get(), text.data(), text.size());
  parseInto(std::string_view(exact.get(), text.size()), lim, wantCanon, o);
  return o;
}

std::string esc(const std::string &s, size_t cap = 48)
{
  std::string o;
  char b[8];
  for (unsigned char c : s)
  {
    if (o.size() >= cap)
    {
      o += "...";
      break;
    }
    if (c >= 0x20 && c < 0x7f)
      o.push_back(char(c));
    else if (c == '\n')
      o += "\\n";
    else if (c == '\t')
      o += "\\t";
    else if (c == '\r')
      o += "\\r";
    else
    {
      snprintf(b, sizeof b, "\\x%02x", c);
      o += b;
    }
  }
  return o;
}

// ------------------------------------------------------------------ tolerant lexer (attribution only)
struct Tok
{
  enum K
  {
    WS,
    STRUCT,
    STRING,
    NUMBER,
    LITERAL,
    OTHER
  } k;
  size_t b, e;
};

std::vector<Tok> lex(const std::string &t)
{
  std::vector<Tok> v;
  size_t i = 0, n = t.size();
  while (i < n)
  {
    unsigned char c = (unsigned char)t[i];
    size_t b = i;
    if (c == ' ' || c == '\t' || c == '\n' || c == '\r')
    {
      while (i < n && (t[i] == ' ' || t[i] == '\t' || t[i] == '\n' || t[i] == '\r'))
        ++i;
      v.push_back({Tok::WS, b, i});
    }
    else if (c != 0 && strchr("{}[],:", c))
    {
      ++i;
      v.push_back({Tok::STRUCT, b, i});
    }
    else if (c == '"')
    {
      ++i;
      while (i < n && t[i] != '"')
        i += (t[i] == '\\' && i + 1 < n) ? 2 : 1;
      if (i < n)
        ++i;
      v.push_back({Tok::STRING, b, i});
    }
    else if (c == '-' || (c >= '0' && c <= '9'))
    {
      ++i;
      while (i < n && (isdigit((unsigned char)t[i]) || strchr("+-.eE", t[i])))
        ++i;
      v.push_back({Tok::NUMBER, b, i});
    }
    else if (c >= 'a' && c <= 'z')
    {
      while (i < n && t[i] >= 'a' && t[i] <= 'z')
        ++i;
      v.push_back({Tok::LITERAL, b, i});
    }
    else
    {
      ++i;
      v.push_back({Tok::OTHER, b, i});
    }
  }
  return v;
}

int hexv(char c) { return c >= '0' && c <= '9' ? c - '0' : c >= 'a' && c <= 'f' ? c - 'a' + 10 : c >= 'A' && c <= 'F' ? c - 'A' + 10 : -1; }

long u4(const std::string &s, size_t p) // value of \uXXXX at p ('\\' at p), -1 if malformed
{
  if (p + 6 > s.size() || s[p] != '\\' || s[p + 1] != 'u')
    return -1;
  long v = 0;
  for (int k = 2; k < 6; ++k)
  {
    int h = hexv(s[p + k]);
    if (h < 0)
      return -1;
    v = v * 16 + h;
  }
  return v;
}

// split a string body into lexical atoms
std::vector<std::string> atoms(const std::string &body, bool escapes = true)
{
  std::vector<std::string> v;
  size_t i = 0, n = body.size();
  while (i < n)
  {
    unsigned char c = (unsigned char)body[i];
    size_t len = 1;
    if (c == '\\' && escapes)
    {
      len = 2;
      long u = u4(body, i);
      if (u >= 0)
      {
        len = 6;
        if (u >= 0xd800 && u <= 0xdbff)
        {
          long lo = u4(body, i + 6);
          if (lo >= 0xdc00 && lo <= 0xdfff)
            len = 12;
        }
      }
    }
    else if (c >= 0xf0)
      len = 4;
    else if (c >= 0xe0)
      len = 3;
    else if (c >= 0xc0)
      len = 2;
    if (i + len > n)
      len = n - i;
    v.push_back(body.substr(i, len));
    i += len;
  }
  return v;
}

struct Ctx
{
  Ref ref;
  std::unordered_map<std::string, std::string> tokSig; // kind + token text -> "" (does not fail alone) or sig
};

// The two ways a valid text can fail; attribution probes always look for the *same* kind of failure
// as the case being explained, so that one defect is not explained by another.
enum class Fail
{
  Rejected,  // reference accepts, iora rejects
  WrongValue // both accept, values differ
};

const Limits HUGE_LIMITS{size_t(1) << 40, size_t(1) << 40, size_t(1) << 40, size_t(1) << 40};

bool failsAs(Fail kind, const std::string &text, const Limits &lim, const RefResp &ref)
{
  if (ref.kind != 'V')
    return false;
  Outcome o = runParse(text, lim, kind == Fail::WrongValue);
  if (o.threw || o.overread)
    return false;
  return kind == Fail::Rejected ? !o.ok : (o.ok && o.canon != ref.canon);
}

bool failsAlone(Ctx &cx, Fail kind, const std::string &text) { return failsAs(kind, text, Limits{}, cx.ref.ask(text)); }

std::string atomSig(Ctx &cx, Fail kind, const std::string &a)
{
  unsigned char c = (unsigned char)a[0];
  char b[64];
  if (c == '\\' && a.size() >= 2 && a[1] != 'u')
    return std::string("escape:\\") + a[1];
  if (c == '\\')
  {
    // the \u family: generalise to the simplest failing member
    if (failsAlone(cx, kind, "\"\\u0041\""))
      return "escape:\\u";
    bool upper = false;
    std::string low = a;
    for (size_t i = 0; i < low.size(); ++i)
      if (low[i] >= 'A' && low[i] <= 'F')
      {
        upper = true;
        low[i] = char(low[i] - 'A' + 'a');
      }
    if (upper && !failsAlone(cx, kind, "\"" + low + "\""))
      return "escape:\\u:upper-hex";
    long u = u4(a, 0);
    if (a.size() == 12)
      return "escape:\\u:surrogate-pair";
    if (u >= 0xd800 && u <= 0xdfff)
      return "escape:\\u:lone-surrogate";
    if (u == 0)
      return "escape:\\u:nul";
    return u < 0x80 ? "escape:\\u:1-byte" : u < 0x800 ? "escape:\\u:2-byte" : "escape:\\u:3-byte";
  }
  if (c >= 0x80)
  {
    snprintf(b, sizeof b, "raw:utf8-%zu-byte", a.size());
    return b;
  }
  snprintf(b, sizeof b, "raw:ascii:0x%02x", c);
  return b;
}

std::string numberSig(Ctx &cx, const std::string &t)
{
  std::string s = "number:";
  bool frac = t.find('.') != std::string::npos;
  size_t e = t.find_first_of("eE");
  if (!frac && e == std::string::npos)
  {
    s += "int";
    if (t == "-0")
      s += ":neg-zero";
    else
    {
      std::string digits = t[0] == '-' ? t.substr(1) : t;
      std::string lim = t[0] == '-' ? "9223372036854775808" : "9223372036854775807";
      if (digits.size() > lim.size() || (digits.size() == lim.size() && digits > lim))
        s += ":out-of-int64";
    }
    return s;
  }
  s += frac && e != std::string::npos ? "frac+exp" : frac ? "frac" : "exp";
  if (e != std::string::npos)
  {
    s += ':';
    s += t[e];
    if (e + 1 < t.size() && (t[e + 1] == '+' || t[e + 1] == '-'))
      s += t[e + 1];
  }
  RefResp r = cx.ref.ask(t);
  if (r.kind == 'V' && (r.canon == "d7ff0000000000000" || r.canon == "dfff0000000000000"))
    s += ":overflow-inf";
  return s;
}

// sig of a scalar token that fails alone (in the given way), "" if it does not
std::string tokenSig(Ctx &cx, Fail kind, const std::string &tok, Tok::K k)
{
  std::string key = (kind == Fail::Rejected ? "R" : "W") + tok;
  auto it = cx.tokSig.find(key);
  if (it != cx.tokSig.end())
    return it->second;
  std::string sig;
  if (failsAlone(cx, kind, tok))
  {
    if (k == Tok::STRING)
    {
      std::string body = tok.size() >= 2 ? tok.substr(1, tok.size() - 2) : "";
      auto as = atoms(body);
      for (auto &a : as)
        if (failsAlone(cx, kind, "\"" + a + "\""))
        {
          sig = atomSig(cx, kind, a);
          break;
        }
      if (sig.empty())
      {
        sig = "string:combination";
        for (size_t i = 0; i < as.size() && i < 3; ++i)
        {
          std::string one = atomSig(cx, kind, as[i]);
          sig += (i ? "+" : ":") + one;
        }
        if (body.empty())
          sig = "string:empty";
      }
    }
    else if (k == Tok::NUMBER)
      sig = numberSig(cx, tok);
    else
      sig = "literal:" + esc(tok, 12);
  }
  if (cx.tokSig.size() < 500000)
    cx.tokSig.emplace(key, sig);
  return sig;
}

const char *relation(long measure, size_t limit)
{
  return measure == (long)limit ? "at-limit" : measure < (long)limit ? "below-limit" : "above-limit";
}

// Attribution of an accept / decode failure to the minimal failing feature of the case itself.
std::string attributeParse(Ctx &cx, Fail kind, const std::string &text, const Limits &lim, const RefResp &ref)
{
  if (!failsAs(kind, text, HUGE_LIMITS, ref))
  {
    // fails only because of a limit: find which one, alone
    Limits l = HUGE_LIMITS;
    l.d = lim.d;
    if (failsAs(kind, text, l, ref))
      return std::string("limit:depthMax:") + relation(ref.N, lim.d);
    l = HUGE_LIMITS;
    l.a = lim.a;
    if (failsAs(kind, text, l, ref))
      return std::string("limit:arrayItemsMax:") + relation(ref.maxArr, lim.a);
    l = HUGE_LIMITS;
    l.m = lim.m;
    if (failsAs(kind, text, l, ref))
      return std::string("limit:membersMax:") + relation(ref.memText, lim.m);
    l = HUGE_LIMITS;
    l.s = lim.s;
    if (failsAs(kind, text, l, ref))
      return std::string("limit:stringLengthMax:") + relation(ref.strBytes, lim.s);
    return "limit:combination";
  }
  auto toks = lex(text);
  for (auto &t : toks)
    if (t.k == Tok::STRING || t.k == Tok::NUMBER || t.k == Tok::LITERAL)
    {
      std::string s = tokenSig(cx, kind, text.substr(t.b, t.e - t.b), t.k);
      if (!s.empty())
        return s;
    }
  // no scalar fails alone: whitespace?
  std::string stripped, wsChars;
  for (auto &t : toks)
    if (t.k == Tok::WS)
    {
      for (size_t i = t.b; i < t.e; ++i)
        if (wsChars.find(text[i]) == std::string::npos)
          wsChars.push_back(text[i]);
    }
    else
      stripped += text.substr(t.b, t.e - t.b);
  if (!wsChars.empty() && !failsAlone(cx, kind, stripped))
  {
    std::sort(wsChars.begin(), wsChars.end());
    return "ws:" + esc(wsChars);
  }
  if (ref.memText != ref.memVal)
    return "object:duplicate-name";
  std::string sk = "structure:";
  for (auto &t : toks)
  {
    if (t.k == Tok::WS)
      continue;
    if (t.k == Tok::STRUCT)
      sk += text[t.b];
    else
      sk += t.k == Tok::STRING ? 's' : t.k == Tok::NUMBER ? '0' : 'l';
    if (sk.size() > 50)
    {
      sk += "...";
      break;
    }
  }
  return sk;
}

// Minimise an input while `bad` keeps holding: shortest bad suffix, then shortest bad prefix of it,
// then substring deletions (longest first) to a fixpoint.
std::string minimise(const std::string &bytes, const std::function<bool(const std::string &)> &bad)
{
  std::string cur = bytes;
  for (size_t i = cur.size(); i-- > 0;)
    if (bad(cur.substr(i)))
    {
      cur = cur.substr(i);
      break;
    }
  for (size_t n = 0; n < cur.size(); ++n)
    if (bad(cur.substr(0, n)))
    {
      cur = cur.substr(0, n);
      break;
    }
  bool changed = true;
  while (changed)
  {
    changed = false;
    // all substrings while that is cheap (n^3 parses-bytes), single bytes only for long inputs
    for (size_t len = cur.size() > 64 ? 1 : cur.size() > 1 ? cur.size() - 1 : 0; len >= 1 && !changed; --len)
      for (size_t i = 0; i + len <= cur.size(); ++i)
      {
        std::string c2 = cur.substr(0, i) + cur.substr(i + len);
        if (bad(c2))
        {
          cur = c2;
          changed = true;
          break;
        }
      }
  }
  return cur;
}

bool offsetViolates(const std::string &bytes, const Limits &lim)
{
  Outcome o = runParse(bytes, lim, false);
  return !o.ok && !o.threw && !o.overread && o.offset > bytes.size();
}

// sig = the minimal input that still shows the failure (plus the limits if they are needed for it)
std::string minimalInputSig(const char *what, const std::string &bytes, const Limits &lim, bool (*bad)(const std::string &, const Limits &))
{
  std::string cur = minimise(bytes, [&](const std::string &b) { return bad(b, lim); });
  bool alsoDefault = lim.isDefault() || bad(cur, Limits{});
  return std::string(what) + ":min=" + esc(cur, 24) + (alsoDefault ? "" : ":only-with-limits=" + lim.str());
}

bool overreads(const std::string &bytes, const Limits &lim) { return runParse(bytes, lim, false).overread > 0; }

// ------------------------------------------------------------------ evaluation of the three case kinds
struct Eval
{
  vr::Report &r;
  Ctx &cx;
  bool verbose = false;
  bool violated = false;
  void viol(const std::string &clause, const std::string &sig, const std::string &kase, const std::string &detail)
  {
    violated = true;
    r.violation(clause, sig, kase, detail);
    if (verbose)
      printf("VIOLATION clause=%s sig=%s\n  %s\n", clause.c_str(), sig.c_str(), detail.c_str());
  }

  void checkOffset(const std::string &bytes, const Limits &lim, const Outcome &o, const std::string &kase)
  {
    if (o.threw)
    {
      viol("no-crash-no-ub", "exception", kase, o.msg);
      return;
    }
    if (o.overread)
    {
      ++r.counters["input_overreads"];
      char d[200];
      snprintf(d, sizeof d, "the parser read at least %zu byte(s) past the end of the %zu-byte input (std::string_view out of bounds)",
               (size_t)o.overread, bytes.size());
      viol("no-crash-no-ub", minimalInputSig("input-overread", bytes, lim, overreads), kase, d);
      return;
    }
    if (!o.ok && o.offset > bytes.size())
    {
      char d[200];
      snprintf(d, sizeof d, "error \"%s\" reported at offset %zu but the input has %zu bytes", o.msg.c_str(), o.offset, bytes.size());
      viol("error-offset-inside-input", minimalInputSig("offset>size", bytes, lim, offsetViolates), kase, d);
    }
  }

  void evalB(const std::string &bytes, const Limits &lim)
  {
    std::string kase = "B " + lim.str() + "\n" + bytes;
    Outcome o = runParse(bytes, lim, false);
    ++r.evaluations;
    ++r.counters[o.ok ? "robust_accepted" : "robust_rejected"];
    checkOffset(bytes, lim, o, kase);
    if (verbose)
      printf("B: ok=%d offset=%zu size=%zu msg=%s\n", o.ok, o.offset, bytes.size(), o.msg.c_str());
  }

  void evalP(const std::string &text, const Limits &lim, const RefResp &ref)
  {
    std::string kase = "P " + lim.str() + "\n" + text;
    Outcome o = runParse(text, lim, true);
    ++r.evaluations;
    ++r.counters[o.ok ? "parse_accepted" : "parse_rejected"];
    if (verbose)
      printf("P: reference=%c %s\n   iora ok=%d %s offset=%zu msg=%s\n", ref.kind, ref.canon.substr(0, 300).c_str(), o.ok,
             o.canon.substr(0, 300).c_str(), o.offset, o.msg.c_str());
    checkOffset(text, lim, o, kase);
    if (o.threw || o.overread)
      return;
    if (ref.kind == 'U')
    {
      ++r.counters["ref_unjudged_lone_surrogate"];
      return;
    }
    if (ref.kind == 'R')
    {
      ++r.counters["ref_rejected"];
      return;
    }
    bool within = ref.N <= (long)lim.d && ref.maxArr <= (long)lim.a && ref.memText <= (long)lim.m && ref.strBytes <= (long)lim.s;
    bool beyond = ref.D > (long)lim.d || ref.maxArr > (long)lim.a || ref.memVal > (long)lim.m || ref.strCps > (long)lim.s;
    if (within)
    {
      ++r.counters["judged_within_limits"];
      bool nontrivial = text.size() >= 3 && text.find_first_of("[{\\.eE") != std::string::npos;
      for (unsigned char c : text)
        nontrivial = nontrivial || c >= 0x80;
      if (nontrivial)
        ++r.distinct_nontrivial;
      if (!o.ok)
      {
        std::string sig = attributeParse(cx, Fail::Rejected, text, lim, ref);
        viol("accepts-valid-within-limits", sig, kase,
             "RFC 8259-valid text within limits rejected: \"" + o.msg + "\" at offset " + std::to_string(o.offset) + "; reference value " +
               ref.canon.substr(0, 200));
      }
      else if (o.canon != ref.canon)
      {
        std::string sig = attributeParse(cx, Fail::WrongValue, text, lim, ref);
        viol("decode-equals-reference", sig, kase, "expected " + ref.canon.substr(0, 300) + " got " + o.canon.substr(0, 300));
      }
    }
    else if (beyond)
    {
      ++r.counters["judged_beyond_limits"];
      if (o.ok)
      {
        // which limit, alone, is still not enforced?
        std::string sig = "combination";
        char b[96];
        auto rel = [&](long measure, size_t limit)
        {
          snprintf(b, sizeof b, "limit+%s", measure - (long)limit >= 2 ? "2-or-more" : "1");
          return std::string(b);
        };
        Limits l = HUGE_LIMITS;
        l.d = lim.d;
        if (ref.D > (long)lim.d && runParse(text, l, false).ok)
          sig = "depth:" + rel(ref.D, lim.d);
        else if ((l = HUGE_LIMITS, l.a = lim.a, ref.maxArr > (long)lim.a) && runParse(text, l, false).ok)
          sig = "array-items:" + rel(ref.maxArr, lim.a);
        else if ((l = HUGE_LIMITS, l.m = lim.m, ref.memVal > (long)lim.m) && runParse(text, l, false).ok)
          sig = "members:" + rel(ref.memVal, lim.m);
        else if ((l = HUGE_LIMITS, l.s = lim.s, ref.strCps > (long)lim.s) && runParse(text, l, false).ok)
          sig = "string-length:" + rel(ref.strCps, lim.s);
        snprintf(b, sizeof b, " (depth %ld, longest array %ld, members %ld, longest string %ld code points)", ref.D, ref.maxArr, ref.memVal,
                 ref.strCps);
        viol("limits-enforced", sig, kase, "accepted although a limit of {depthMax,arrayItemsMax,membersMax,stringLengthMax}=" + lim.str() +
                                             " is exceeded" + b);
      }
    }
    else
      ++r.counters["unjudged_limit_boundary"];
  }

  // ---- dump cases
  static const char *optName(int k) { return k == 0 ? "plain" : k == 1 ? "pretty" : k == 2 ? "sortKeys" : "pretty+sortKeys"; }
  static int optIndex(const std::string &n)
  {
    for (int k = 0; k < 4; ++k)
      if (n == optName(k))
        return k;
    return -1;
  }
  static std::string dumpWith(const Json &v, int k)
  {
    if (k == 0)
      return v.dump(); // the plain path through the public convenience API
    SerializeOptions o;
    o.pretty = (k & 1) != 0;
    o.sortKeys = (k & 2) != 0;
    return v.serialize(o);
  }

  enum DClause
  {
    RoundTrip,
    RefValid,
    RefEqual
  };
  // does value `spec` (expected canonical `want`) satisfy the clause under option k ?
  bool dumpHolds(const std::string &spec, int k, DClause c)
  {
    size_t p = 0;
    Json v = buildSpec(spec, p, nullptr);
    std::string want;
    canon(v, want);
    std::string text = dumpWith(v, k);
    if (c == RoundTrip)
    {
      Outcome o = runParse(text, Limits{}, true);
      return o.ok && o.canon == want;
    }
    RefResp rr = cx.ref.ask(text);
    if (c == RefValid)
      return rr.kind != 'R';
    return rr.kind == 'V' && rr.canon == want;
  }

  static std::string doubleClass(double x)
  {
    if (!std::isfinite(x))
      return "double:non-finite";
    if (x == 0)
      return std::signbit(x) ? "double:negative-zero" : "double:zero";
    // shortest round-trip representation: digits and decimal exponent
    char buf[64];
    int prec = 1;
    for (; prec <= 17; ++prec)
    {
      snprintf(buf, sizeof buf, "%.*e", prec - 1, x);
      if (strtod(buf, nullptr) == x)
        break;
    }
    int e10 = atoi(strchr(buf, 'e') + 1);
    // strip trailing zeros of the mantissa
    int nd = prec;
    {
      std::string m;
      for (char *q = buf; *q && *q != 'e'; ++q)
        if (isdigit((unsigned char)*q))
          m.push_back(*q);
      while (m.size() > 1 && m.back() == '0')
        m.pop_back();
      nd = (int)m.size();
    }
    int fracDigits = nd - 1 - e10;
    if (fracDigits > 6)
      return "double:frac-digits>6";
    if (e10 >= 21)
      return "double:magnitude>=1e21";
    return fracDigits > 0 ? "double:frac-digits<=6" : "double:integral";
  }

  static std::string stringClass(const std::string &s)
  {
    if (s.empty())
      return "string:empty";
    // class of the first character that is not plain ASCII text, else ascii
    for (size_t i = 0; i < s.size(); ++i)
    {
      unsigned char c = (unsigned char)s[i];
      if (c == '"')
        return "string:quote";
      if (c == '\\')
        return "string:backslash";
      if (c == '\b' || c == '\f' || c == '\n' || c == '\r' || c == '\t')
        return std::string("string:control:\\") + (c == '\b' ? 'b' : c == '\f' ? 'f' : c == '\n' ? 'n' : c == '\r' ? 'r' : 't');
      if (c < 0x20)
        return "string:control:u00XX";
      if (c == 0x7f)
        return "string:del";
      if (c >= 0x80)
        return c >= 0xf0 ? "string:utf8-4-byte" : c >= 0xe0 ? "string:utf8-3-byte" : "string:utf8-2-byte";
    }
    return "string:ascii";
  }

  std::string leafClass(const std::string &leaf)
  {
    switch (leaf[0])
    {
    case 'n':
      return "literal:null";
    case 't':
      return "literal:true";
    case 'f':
      return "literal:false";
    case 'i':
    {
      long long v = strtoll(leaf.c_str() + 1, nullptr, 10);
      return v == INT64_MAX ? "int:max" : v == INT64_MIN ? "int:min" : v < 0 ? "int:negative" : "int";
    }
    case 'd':
    {
      uint64_t u = strtoull(leaf.c_str() + 1, nullptr, 16);
      double d;
      memcpy(&d, &u, 8);
      return doubleClass(d);
    }
    default:
      return stringClass(vr::unhex(leaf.substr(1)));
    }
  }

  // For strings: the class of the first single character that fails alone, else the whole-string class
  std::string stringLeafSig(const std::string &leafSpec, bool isKey, int k, DClause c)
  {
    std::string s = vr::unhex(leafSpec.substr(1));
    for (auto &a : atoms(s, false)) // every byte is literal here: split into UTF-8 characters only
    {
      std::string sp = isKey ? "o(s" + vr::hex(a) + " n)" : "s" + vr::hex(a);
      if (!dumpHolds(sp, k, c))
        return stringClass(a);
    }
    return stringClass(s) + ":combination";
  }

  std::string attributeDump(const std::string &spec, const std::vector<SpecLeaf> &leaves, int k, DClause c)
  {
    std::string pre;
    int kk = k;
    if (k != 0 && dumpHolds(spec, 0, c))
      pre = std::string("opt:") + optName(k) + ":";
    else
      kk = 0; // the plain form already fails: attribute there
    for (auto &lf : leaves)
    {
      std::string alone = lf.isKey ? "o(" + lf.spec + " n)" : lf.spec;
      if (!dumpHolds(alone, kk, c))
      {
        if (lf.spec[0] == 's')
        {
          bool asValueFails = lf.isKey && !dumpHolds(lf.spec, kk, c);
          return pre + (lf.isKey && !asValueFails ? "name:" : "") + stringLeafSig(lf.spec, lf.isKey && !asValueFails, kk, c);
        }
        return pre + leafClass(lf.spec);
      }
    }
    // no leaf fails alone: structure skeleton (scalars -> their type letter, names dropped)
    std::string sk = "structure:";
    for (size_t i = 0; i < spec.size() && sk.size() < 60;)
    {
      char ch = spec[i];
      if (ch == 'a' || ch == 'o')
      {
        sk += ch;
        sk += '(';
        i += 2;
      }
      else if (ch == ')' || ch == ' ')
      {
        sk += ch;
        ++i;
      }
      else
      {
        sk += ch;
        while (i < spec.size() && spec[i] != ' ' && spec[i] != ')')
          ++i;
      }
    }
    return pre + sk;
  }

  void evalD(const std::string &spec, const std::string &wantFromGenerator, int onlyOpt = -1)
  {
    std::vector<SpecLeaf> leaves;
    size_t p = 0;
    Json v = buildSpec(spec, p, &leaves);
    std::string want;
    canon(v, want);
    if (!wantFromGenerator.empty() && want != wantFromGenerator)
    {
      // the value built through iora's constructors / read back through its accessors is not the spec'd value
      viol("construct-equals-spec", "value-api:" + (leaves.empty() ? std::string("container") : leafClass(leaves[0].spec)),
           "D plain\n" + spec, "canonical form of the constructed value " + want.substr(0, 200) + " != " + wantFromGenerator.substr(0, 200));
      return;
    }
    bool nontrivial = spec.find_first_of("(ds") != std::string::npos;
    std::string prevText;
    RefResp prevResp;
    for (int k = 0; k < 4; ++k)
    {
      if (onlyOpt >= 0 && k != onlyOpt)
        continue;
      std::string kase = std::string("D ") + optName(k) + "\n" + spec;
      std::string text;
      try
      {
        text = dumpWith(v, k);
      }
      catch (const std::exception &e)
      {
        viol("no-crash-no-ub", "exception:dump", kase, e.what());
        continue;
      }
      ++r.evaluations;
      if (nontrivial)
        ++r.distinct_nontrivial;
      Outcome o = runParse(text, Limits{}, true);
      ++r.counters[o.ok ? "dump_reparsed_ok" : "dump_reparse_rejected"];
      if (verbose)
        printf("D[%s]: dump=%s\n   want=%s\n   reparsed ok=%d %s %s\n", optName(k), esc(text, 400).c_str(), want.substr(0, 300).c_str(), o.ok,
               o.canon.substr(0, 300).c_str(), o.msg.c_str());
      checkOffset(text, Limits{}, o, kase);
      if (o.threw || o.overread)
        ; // already reported
      else if (!o.ok || o.canon != want)
      {
        std::string sig = attributeDump(spec, leaves, k, RoundTrip);
        viol("roundtrip-equal", sig, kase,
             "dump = " + esc(text, 200) + " ; parse(dump) " + (o.ok ? "= " + o.canon.substr(0, 200) : "rejected: " + o.msg) + " ; value = " +
               want.substr(0, 200));
      }
      else if (o.ok)
      {
        // informational: numerically equal but the int64/double tag changed
        auto r2 = Json::parse(std::string_view(text), ParseLimits{});
        if (r2.ok && !(r2.value == v))
          ++r.counters["roundtrip_numerically_equal_but_operator_eq_false"];
      }
      RefResp rr = (k > 0 && text == prevText) ? prevResp : cx.ref.ask(text);
      prevText = text;
      prevResp = rr;
      ++r.counters[rr.kind == 'V' ? "dump_ref_accepted" : "dump_ref_rejected"];
      if (verbose)
        printf("   reference: %c %s\n", rr.kind, rr.canon.substr(0, 300).c_str());
      if (rr.kind == 'R')
        viol("dump-valid-rfc8259", attributeDump(spec, leaves, k, RefValid), kase, "reference rejects dump output " + esc(text, 300));
      else if (rr.kind != 'V' || rr.canon != want)
        viol("dump-equals-reference", attributeDump(spec, leaves, k, RefEqual), kase,
             "dump = " + esc(text, 200) + " ; reference decodes it to " + rr.canon.substr(0, 200) + " ; value = " + want.substr(0, 200));
    }
  }
};

// 16-byte robustness alphabet of DESIGN.md C13 (iii)
const unsigned char ALPHA[16] = {'"', '\\', 'u', '{', '[', ',', ':', '-', '1', 'e', '.', 't', ' ', 0x00, 0x80, 0xff};

struct Line
{
  const char *b, *e;
};

std::vector<std::string> splitTabs(const char *b, const char *e)
{
  std::vector<std::string> f;
  const char *s = b;
  for (const char *q = b; q <= e; ++q)
    if (q == e || *q == '\t')
    {
      f.emplace_back(s, q);
      s = q + 1;
    }
  return f;
}

std::string defaultOracle()
{
  char buf[4096];
  ssize_t n = readlink("/proc/self/exe", buf, sizeof buf - 1);
  std::string p = n > 0 ? std::string(buf, size_t(n)) : "/verif/build/bin/C13_json";
  for (int k = 0; k < 3; ++k)
  {
    size_t s = p.rfind('/');
    if (s == std::string::npos)
      break;
    p.resize(s);
  }
  return p + "/oracle/c13_ref.py";
}

int replay(const vr::Args &args)
{
  std::string c = vr::readFile(args.replay);
  size_t nl = c.find('\n');
  if (c.size() < 3 || nl == std::string::npos)
  {
    printf("replay: malformed case file\n");
    return 2;
  }
  std::string head = c.substr(0, nl), payload = c.substr(nl + 1);
  vr::Report rep("C13_json");
  Ctx cx;
  Eval ev{rep, cx};
  ev.verbose = true;
  printf("replaying case: %s | %s\n", head.c_str(), esc(payload, 300).c_str());
  if (head[0] == 'P')
  {
    Limits lim = Limits::parse(head.substr(2));
    RefResp ref = cx.ref.ask(payload);
    ev.evalP(payload, lim, ref);
  }
  else if (head[0] == 'B')
    ev.evalB(payload, Limits::parse(head.substr(2)));
  else if (head[0] == 'D')
    ev.evalD(payload, "", Eval::optIndex(head.substr(2)));
  else
  {
    printf("replay: unknown case kind\n");
    return 2;
  }
  printf(ev.violated ? "=> violation reproduced\n" : "=> no violation\n");
  return ev.violated ? 1 : 0;
}

} // namespace

int main(int argc, char **argv)
{
  vr::Args args(argc, argv);
  g_oraclePath = args.get("oracle");
  if (g_oraclePath.empty() || g_oraclePath.find('{') != std::string::npos)
    g_oraclePath = defaultOracle();
  installGuard();
  if (!args.replay.empty())
    return replay(args);

  std::string casesPath = args.get("cases");
  std::string data = vr::readFile(casesPath);
  if (data.empty())
  {
    fprintf(stderr, "C13_json: cannot read cases file %s\n", casesPath.c_str());
    return 2;
  }
  std::vector<Line> lines;
  {
    const char *b = data.data(), *end = data.data() + data.size();
    while (b < end)
    {
      const char *e = (const char *)memchr(b, '\n', size_t(end - b));
      if (!e)
        e = end;
      if (e > b)
        lines.push_back({b, e});
      b = e + 1;
    }
  }
  const int bytesLen = (int)args.getInt("bytes-len", 5);
  double deadline = (double)args.getInt("deadline", 0);
  if (deadline > 40)
    deadline -= 20; // leave room for writing the parts

  const uint64_t SH = 22; // composite index = (line << SH) | sub-case
  auto body = [&](const vr::Shard &sh, vr::Report &rep)
  {
    rep.rule = "distinct generated cases (text,limits) that the reference accepts, that lie within the limits and contain a container, "
               "escape, fraction, exponent or non-ASCII byte, plus distinct (value,option-set) dump cases whose value contains a "
               "container, double or string";
    rep.bounds["texts"] = "see build/c13_cases.jsonl.summary.json: token grammar layers L1..L5 (oracle/c13_gen.py)";
    rep.bounds["robust_alphabet"] = "\" \\ u { [ , : - 1 e . t SP 00 80 ff";
    rep.bounds["robust_bytes_len_max"] = std::to_string(bytesLen);
    rep.bounds["mutations"] = "every truncation and every single-byte substitution over the robustness alphabet of each text flagged mut=1, parsed under that case's limits";
    rep.bounds["tier"] = args.tier;
    Ctx cx;
    Eval ev{rep, cx};
    auto own = [&](uint64_t line) { return int(line % uint64_t(sh.W)) == sh.w; };
    auto todo = [&](uint64_t idx) { return !sh.resumed || idx > sh.resumeAfter; };
    bool stop = false;
    for (uint64_t li = 0; li < lines.size() && !stop; ++li)
    {
      if (!own(li))
        continue;
      if ((li / uint64_t(sh.W)) % 64 == 0 && sh.timeUp())
      {
        stop = true;
        break;
      }
      auto f = splitTabs(lines[li].b, lines[li].e);
      uint64_t base = li << SH;
      if (f[0] == "P" && f.size() >= 5)
      {
        Limits lim = Limits::parse(f[1]);
        std::string text = vr::unhex(f[3]);
        if (todo(base))
        {
          sh.begin(base, "P " + f[1] + "\n" + text);
          ev.evalP(text, lim, RefResp::parse(f[4]));
          sh.end();
          rep.sampleEvery(lines.size() / uint64_t(sh.W) / 6 + 1, "P " + f[1] + " " + text.substr(0, 120));
        }
        if (f[2] == "1")
        {
          uint64_t sub = 1;
          std::string hdr = "B " + lim.str() + "\n";
          for (size_t n = 0; n < text.size(); ++n, ++sub)
            if (todo(base | sub))
            {
              std::string m = text.substr(0, n);
              sh.begin(base | sub, hdr + m);
              ev.evalB(m, lim);
              sh.end();
              ++rep.counters["mutants_truncation"];
            }
          for (size_t i = 0; i < text.size(); ++i)
            for (int a = 0; a < 16; ++a, ++sub)
            {
              if ((unsigned char)text[i] == ALPHA[a] || !todo(base | sub))
                continue;
              std::string m = text;
              m[i] = char(ALPHA[a]);
              sh.begin(base | sub, hdr + m);
              ev.evalB(m, lim);
              sh.end();
              ++rep.counters["mutants_substitution"];
            }
        }
      }
      else if (f[0] == "D" && f.size() >= 3)
      {
        if (todo(base))
        {
          sh.begin(base, "D all\n" + f[1]);
          ev.evalD(f[1], f[2]);
          sh.end();
          rep.sampleEvery(lines.size() / uint64_t(sh.W) / 6 + 1, "D " + f[1].substr(0, 120));
        }
      }
      else
      {
        rep.notes.push_back("unparseable cases line " + std::to_string(li));
        rep.exhaustive = false;
      }
    }
    // (iii-a) all byte strings of length <= bytesLen over the alphabet: virtual lines = prefixes of length <= 2
    std::vector<std::string> prefixes{""};
    for (int a = 0; a < 16; ++a)
      prefixes.push_back(std::string(1, char(ALPHA[a])));
    for (int a = 0; a < 16; ++a)
      for (int b = 0; b < 16; ++b)
        prefixes.push_back(std::string(1, char(ALPHA[a])) + char(ALPHA[b]));
    Limits tiny;
    tiny.d = tiny.a = tiny.m = tiny.s = 1;
    for (uint64_t pi = 0; pi < prefixes.size() && !stop; ++pi)
    {
      uint64_t li = lines.size() + pi;
      if (!own(li))
        continue;
      if (sh.timeUp())
      {
        stop = true;
        break;
      }
      const std::string &pre = prefixes[pi];
      int extraMax = pre.size() == 2 ? bytesLen - 2 : 0;
      uint64_t sub = 0;
      for (int extra = 0; extra <= extraMax; ++extra)
      {
        uint64_t count = 1;
        for (int k = 0; k < extra; ++k)
          count *= 16;
        for (uint64_t x = 0; x < count; ++x, ++sub)
        {
          uint64_t idx = (li << SH) | (sub * 2);
          if (!todo(idx + 1))
            continue;
          std::string s = pre;
          uint64_t y = x;
          for (int k = 0; k < extra; ++k, y /= 16)
            s.push_back(char(ALPHA[y % 16]));
          if (todo(idx))
          {
            sh.begin(idx, "B " + Limits{}.str() + "\n" + s);
            ev.evalB(s, Limits{});
            sh.end();
          }
          sh.begin(idx + 1, "B " + tiny.str() + "\n" + s);
          ev.evalB(s, tiny);
          sh.end();
          ++rep.counters["robust_short_byte_strings"];
        }
      }
    }
    if (stop)
    {
      rep.exhaustive = false;
      rep.notes.push_back("deadline reached before the enumeration was complete");
    }
    rep.counters["max_ref_coprocesses_per_worker"] = cx.ref.spawned;
  };
  vr::run_sharded(args, "C13_json", "exploration", 30.0, deadline, body);
  return 0;
}

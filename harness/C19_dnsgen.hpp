// C19 — independent DNS wire-format generator (encoder + compressor), reference decoder / walker and
// mutation enumerator.  Nothing in this file uses iora: it is the oracle side of the C19 codec check.
//
// RFC 1035 (message format, compression, A/NS/CNAME/SOA/PTR/MX/TXT), RFC 3596 (AAAA), RFC 2782 (SRV),
// RFC 3403 (NAPTR), RFC 3597 (unknown types; which RDATA names may be compressed).
#pragma once
#include <cstdint>
#include <cstdio>
#include <cstring>
#include <functional>
#include <string>
#include <vector>

namespace c19
{
typedef std::string Bytes;

enum : uint16_t
{
  T_A = 1,
  T_NS = 2,
  T_CNAME = 5,
  T_SOA = 6,
  T_PTR = 12,
  T_MX = 15,
  T_TXT = 16,
  T_AAAA = 28,
  T_SRV = 33,
  T_NAPTR = 35,
  T_UNK = 0xff00 // private-use type: opaque RDATA
};

inline const char *typeName(uint16_t t)
{
  switch (t)
  {
  case T_A: return "A";
  case T_NS: return "NS";
  case T_CNAME: return "CNAME";
  case T_SOA: return "SOA";
  case T_PTR: return "PTR";
  case T_MX: return "MX";
  case T_TXT: return "TXT";
  case T_AAAA: return "AAAA";
  case T_SRV: return "SRV";
  case T_NAPTR: return "NAPTR";
  case T_UNK: return "UNKNOWN";
  }
  return "OTHER";
}
inline bool typeHasName(uint16_t t)
{
  return t == T_NS || t == T_CNAME || t == T_SOA || t == T_PTR || t == T_MX || t == T_SRV || t == T_NAPTR;
}
// RFC 3597 s.4: senders may compress only the RDATA names of the well-known RFC 1035 types.
inline bool typeMayCompressRdata(uint16_t t) { return t == T_NS || t == T_CNAME || t == T_SOA || t == T_PTR || t == T_MX; }

struct Name
{
  std::vector<Bytes> labels; // root = no labels
  bool operator==(const Name &o) const { return labels == o.labels; }
  bool operator!=(const Name &o) const { return !(labels == o.labels); }
};
inline std::string text(const Name &n)
{
  std::string s;
  for (size_t i = 0; i < n.labels.size(); ++i)
  {
    if (i)
      s += ".";
    s += n.labels[i];
  }
  return s;
}
inline size_t wireLen(const Name &n)
{
  size_t l = 1;
  for (auto &x : n.labels)
    l += 1 + x.size();
  return l;
}
inline Name mkName(std::initializer_list<Bytes> l)
{
  Name n;
  n.labels.assign(l.begin(), l.end());
  return n;
}
inline Name nameRoot() { return Name(); }
inline Name nameA() { return mkName({"a"}); }
inline Name nameB() { return mkName({"b"}); }
inline Name nameAB() { return mkName({"a", "b"}); }
inline Name nameL63() { return mkName({Bytes(63, 'x')}); }
// wire length 64*3 + (w+1) + 2 + 2 + 1 ;  w=57 -> 255 (the RFC 1035 maximum), 56 -> 254, 55 -> 253
inline Name nameLong(int w) { return mkName({Bytes(63, 'x'), Bytes(63, 'y'), Bytes(63, 'z'), Bytes(size_t(w), 'w'), "a", "b"}); }
inline Name name255() { return nameLong(57); }
inline Name name254() { return nameLong(56); }
inline Name name253() { return nameLong(55); }

struct RecSpec
{
  int section = 0; // 0 answer, 1 authority, 2 additional
  Name owner;
  uint16_t type = T_A, cls = 1;
  uint32_t ttl = 3600;
  Bytes addr;                 // A (4) / AAAA (16) / UNKNOWN (opaque)
  std::vector<Bytes> strings; // TXT strings ; NAPTR flags, service, regexp
  uint16_t u16[3] = {0, 0, 0}; // MX preference ; SRV priority, weight, port ; NAPTR order, preference
  uint32_t u32[5] = {0, 0, 0, 0, 0}; // SOA serial, refresh, retry, expire, minimum
  Name n1, n2;                // NS/CNAME/PTR/MX/SRV/NAPTR name ; SOA mname, rname
  Bytes rdataRaw;             // filled by the builder / decoder: RDATA exactly as on the wire
};

struct MsgSpec
{
  uint16_t id = 0x1234, flags = 0x8180;
  bool hasQuestion = true;
  Name qname;
  uint16_t qtype = T_A, qclass = 1;
  std::vector<RecSpec> recs; // ordered by section
};

// ------------------------------------------------------------------------------------------------
// Odometer over lazily discovered choice points (depth-first enumeration of all compression layouts)
// ------------------------------------------------------------------------------------------------
struct Odo
{
  std::vector<int> choice, radix;
  size_t pos = 0;
  bool fixed = false; // replay of a given choice vector: out-of-range / missing entries read as 0
  int next(int n)
  {
    if (fixed)
    {
      int c = pos < choice.size() ? choice[pos] : 0;
      ++pos;
      return c < n ? c : 0;
    }
    if (pos == choice.size())
    {
      choice.push_back(0);
      radix.push_back(n);
    }
    else
      radix[pos] = n;
    return choice[pos++];
  }
  void restart() { pos = 0; }
  bool advance()
  {
    choice.resize(pos);
    radix.resize(pos);
    while (!choice.empty())
    {
      if (++choice.back() < radix.back())
      {
        pos = 0;
        return true;
      }
      choice.pop_back();
      radix.pop_back();
    }
    pos = 0;
    return false;
  }
  std::string str() const
  {
    std::string s;
    char b[16];
    for (size_t i = 0; i < choice.size(); ++i)
    {
      snprintf(b, sizeof b, "%s%d", i ? "," : "", choice[i]);
      s += b;
    }
    return s;
  }
};

// ------------------------------------------------------------------------------------------------
// Builder
// ------------------------------------------------------------------------------------------------
enum PoisonKind
{
  P_NONE = 0,
  P_SELF,       // name replaced by a pointer to itself                         (loop)
  P_SELF_LABEL, // label "a" followed by a pointer back to that label           (loop that grows a name)
  P_MUTUAL,     // two names replaced by pointers at each other                 (loop)
  P_OOB_SIZE,   // pointer to offset == message size                            (out of range by one)
  P_OOB_MAX,    // pointer to offset 0x3fff                                     (far out of range)
  P_LAST_BYTE,  // pointer to the last byte of the message                      (in range; no demand)
  P_FWD_NEXT    // pointer to the byte following the pointer (forward pointer)  (in range; no demand)
};
inline const char *poisonName(int k)
{
  static const char *n[] = {"none", "self", "self-label", "mutual", "oob-size", "oob-max", "last-byte", "fwd-next"};
  return n[k];
}
struct Poison
{
  int kind = P_NONE;
  int occ = -1, occ2 = -1; // name occurrence indices (in writing order; 0 = question name)
};

struct NameSite
{
  uint32_t start = 0, end = 0; // [start,end) bytes occupied in place by this occurrence
  int rec = -1;                // -1 question, else record index
  bool inRdata = false;
  std::vector<uint32_t> positions; // offsets of every length byte / pointer / terminator of the occurrence
};
struct RecSite
{
  uint32_t start = 0, typeOff = 0, rdlenOff = 0, rdataOff = 0;
  uint16_t rdlen = 0, type = 0;
};
struct Built
{
  Bytes wire;
  std::vector<NameSite> names;
  std::vector<RecSite> recs;
  int pointers = 0;
};

class Builder
{
public:
  Built b;
  Odo *odo = nullptr;
  Poison poison;
  bool compressOwner = true, compressRdata = true;
  bool compressAny = false; // lenient family: also compress SRV/NAPTR RDATA names (RFC 2052 style)
  bool allTargets = true;   // pointer targets: label starts, and also earlier pointers (pointer-to-pointer chains) and
                            // earlier root bytes; false = label starts only
  bool latestOnly = false;  // per split point only the most recent matching target (instead of every earlier one)

  void u8(unsigned v) { b.wire.push_back(char(v & 0xff)); }
  void u16(unsigned v)
  {
    u8(v >> 8);
    u8(v);
  }
  void u32(uint32_t v)
  {
    u16(v >> 16);
    u16(v & 0xffff);
  }

  void name(const Name &n, bool mayCompress, int rec, bool inRdata)
  {
    int occ = int(b.names.size());
    NameSite site;
    site.start = uint32_t(b.wire.size());
    site.rec = rec;
    site.inRdata = inRdata;
    if (poison.kind != P_NONE && (occ == poison.occ || occ == poison.occ2))
    {
      uint32_t at = uint32_t(b.wire.size());
      if (poison.kind == P_SELF_LABEL)
      {
        site.positions.push_back(at);
        u8(1);
        u8('a');
        site.positions.push_back(at + 2);
        u16(0xc000 | at);
      }
      else
      {
        site.positions.push_back(at);
        patch_.push_back({at, occ});
        u16(0xc000); // patched in finish()
      }
      site.end = uint32_t(b.wire.size());
      b.names.push_back(site);
      b.pointers++;
      return;
    }
    size_t k = n.labels.size();
    // options: (j, target) — write labels [0,j) literally, then a pointer to `target`; option 0 = in full
    struct Opt
    {
      size_t j;
      uint32_t target;
    };
    std::vector<Opt> opts;
    opts.push_back({k, 0xffffffffu});
    if (mayCompress)
      for (size_t j = 0; j <= k; ++j)
      {
        size_t first = opts.size();
        for (auto &e : table_)
          if (e.off < 0x4000 && (allTargets || e.label) && e.suffix.size() == k - j &&
              std::equal(e.suffix.begin(), e.suffix.end(), n.labels.begin() + long(j)))
          {
            if (latestOnly && opts.size() > first)
              opts.back() = {j, e.off};
            else
              opts.push_back({j, e.off});
          }
      }
    int c = odo ? odo->next(int(opts.size())) : 0;
    Opt o = opts[size_t(c)];
    for (size_t i = 0; i < o.j; ++i)
    {
      uint32_t at = uint32_t(b.wire.size());
      site.positions.push_back(at);
      Entry e;
      e.off = at;
      e.label = true;
      e.suffix.assign(n.labels.begin() + long(i), n.labels.end());
      pending_.push_back(e);
      u8(unsigned(n.labels[i].size()));
      b.wire += n.labels[i];
    }
    uint32_t at = uint32_t(b.wire.size());
    site.positions.push_back(at);
    Entry e;
    e.off = at;
    e.label = false;
    e.suffix.assign(n.labels.begin() + long(o.j), n.labels.end());
    pending_.push_back(e);
    if (o.target == 0xffffffffu)
      u8(0);
    else
    {
      u16(0xc000 | o.target);
      b.pointers++;
    }
    // a name becomes a legal pointer target only once it is complete (pointers go to PRIOR occurrences)
    for (auto &p : pending_)
      table_.push_back(p);
    pending_.clear();
    site.end = uint32_t(b.wire.size());
    b.names.push_back(site);
  }

  void charString(const Bytes &s)
  {
    u8(unsigned(s.size()));
    b.wire += s;
  }

  void record(RecSpec &r, int idx)
  {
    RecSite rs;
    rs.start = uint32_t(b.wire.size());
    name(r.owner, compressOwner, idx, false);
    rs.typeOff = uint32_t(b.wire.size());
    u16(r.type);
    u16(r.cls);
    u32(r.ttl);
    rs.rdlenOff = uint32_t(b.wire.size());
    u16(0);
    rs.rdataOff = uint32_t(b.wire.size());
    rs.type = r.type;
    bool mc = compressRdata && (typeMayCompressRdata(r.type) || compressAny);
    switch (r.type)
    {
    case T_A:
    case T_AAAA:
    case T_UNK:
      b.wire += r.addr;
      break;
    case T_NS:
    case T_CNAME:
    case T_PTR:
      name(r.n1, mc, idx, true);
      break;
    case T_MX:
      u16(r.u16[0]);
      name(r.n1, mc, idx, true);
      break;
    case T_SRV:
      u16(r.u16[0]);
      u16(r.u16[1]);
      u16(r.u16[2]);
      name(r.n1, mc, idx, true);
      break;
    case T_NAPTR:
      u16(r.u16[0]);
      u16(r.u16[1]);
      for (int i = 0; i < 3; ++i)
        charString(i < int(r.strings.size()) ? r.strings[size_t(i)] : Bytes());
      name(r.n1, mc, idx, true);
      break;
    case T_TXT:
      for (auto &s : r.strings)
        charString(s);
      break;
    case T_SOA:
      name(r.n1, mc, idx, true);
      name(r.n2, mc, idx, true);
      for (int i = 0; i < 5; ++i)
        u32(r.u32[i]);
      break;
    default:
      b.wire += r.addr;
    }
    size_t len = b.wire.size() - rs.rdataOff;
    rs.rdlen = uint16_t(len);
    b.wire[rs.rdlenOff] = char(len >> 8);
    b.wire[rs.rdlenOff + 1] = char(len & 0xff);
    r.rdataRaw = b.wire.substr(rs.rdataOff, len);
    b.recs.push_back(rs);
  }

  // Encodes the whole message; fills spec.recs[i].rdataRaw.
  Built &build(MsgSpec &m)
  {
    b = Built();
    table_.clear();
    pending_.clear();
    patch_.clear();
    if (odo)
      odo->restart();
    unsigned cnt[3] = {0, 0, 0};
    for (auto &r : m.recs)
      cnt[r.section]++;
    u16(m.id);
    u16(m.flags);
    u16(m.hasQuestion ? 1 : 0);
    u16(cnt[0]);
    u16(cnt[1]);
    u16(cnt[2]);
    if (m.hasQuestion)
    {
      name(m.qname, false, -1, false);
      u16(m.qtype);
      u16(m.qclass);
    }
    for (size_t i = 0; i < m.recs.size(); ++i)
      record(m.recs[i], int(i));
    finish(m);
    return b;
  }

private:
  struct Entry
  {
    uint32_t off;
    bool label; // a literal label starts here (else: a pointer or a root byte)
    std::vector<Bytes> suffix;
  };
  struct Patch
  {
    uint32_t at;
    int occ;
  };
  std::vector<Entry> table_, pending_;
  std::vector<Patch> patch_;

  void finish(MsgSpec &m)
  {
    uint32_t size = uint32_t(b.wire.size());
    for (size_t i = 0; i < patch_.size(); ++i)
    {
      uint32_t at = patch_[i].at, tgt = 0;
      switch (poison.kind)
      {
      case P_SELF: tgt = at; break;
      case P_MUTUAL: tgt = patch_.size() == 2 ? patch_[1 - i].at : at; break;
      case P_OOB_SIZE: tgt = size; break;
      case P_OOB_MAX: tgt = 0x3fff; break;
      case P_LAST_BYTE: tgt = size - 1; break;
      case P_FWD_NEXT: tgt = at + 2; break;
      default: tgt = at;
      }
      b.wire[at] = char(0xc0 | ((tgt >> 8) & 0x3f));
      b.wire[at + 1] = char(tgt & 0xff);
    }
    if (!patch_.empty()) // rdataRaw of poisoned records changed
      for (size_t i = 0; i < m.recs.size(); ++i)
        m.recs[i].rdataRaw = b.wire.substr(b.recs[i].rdataOff, b.recs[i].rdlen);
  }
};

// ------------------------------------------------------------------------------------------------
// Reference decoder / walker (independent of the builder above)
// ------------------------------------------------------------------------------------------------
enum NameStatus
{
  NS_OK = 0,
  NS_TRUNC,       // ran off the end of the buffer / of the enclosing RDATA
  NS_BAD_LABEL,   // length byte 0x40..0xbf (reserved label types / oversize label)
  NS_PTR_OOB,     // pointer target >= message size
  NS_PTR_LOOP,    // pointer chain revisits a pointer
  NS_TOO_LONG     // more than 255 octets accumulated: a decoder has to stop here (RFC 1035 2.3.4), whatever follows
};
struct NameWalk
{
  NameStatus st = NS_OK;
  Name name;
  size_t next = 0;      // offset after the in-place part
  size_t wireLen = 1;   // uncompressed length (labels + terminator)
  bool forward = false; // some pointer goes forward (not a prior occurrence): not strictly well-formed
  int pointers = 0;
};
// [lo,hi): extent the in-place part (up to and including the first pointer / the terminator) must stay in.
inline NameWalk walkName(const Bytes &m, size_t pos, size_t lo, size_t hi, bool capture = true)
{
  NameWalk w;
  size_t size = m.size();
  bool jumped = false;
  size_t p = pos;
  size_t seenBuf[16];
  size_t nseen = 0;
  std::vector<size_t> seenMore; // pointer positions already followed (beyond the first 16)
  (void)lo;
  for (;;)
  {
    size_t limit = jumped ? size : hi;
    if (p >= limit)
    {
      w.st = NS_TRUNC;
      return w;
    }
    unsigned c = (unsigned char)m[p];
    if ((c & 0xc0) == 0xc0)
    {
      if (p + 1 >= limit)
      {
        w.st = NS_TRUNC;
        return w;
      }
      size_t tgt = ((c & 0x3f) << 8) | (unsigned char)m[p + 1];
      w.pointers++;
      if (!jumped)
      {
        w.next = p + 2;
        jumped = true;
      }
      if (tgt >= size)
      {
        w.st = NS_PTR_OOB;
        return w;
      }
      for (size_t i = 0; i < nseen; ++i)
        if (seenBuf[i] == p)
        {
          w.st = NS_PTR_LOOP;
          return w;
        }
      for (size_t s : seenMore)
        if (s == p)
        {
          w.st = NS_PTR_LOOP;
          return w;
        }
      if (nseen < 16)
        seenBuf[nseen++] = p;
      else
        seenMore.push_back(p);
      if (tgt >= p)
        w.forward = true;
      p = tgt;
      continue;
    }
    if (c == 0)
    {
      if (!jumped)
        w.next = p + 1;
      return w;
    }
    if (c > 63)
    {
      w.st = NS_BAD_LABEL;
      return w;
    }
    if (p + 1 + c > limit)
    {
      w.st = NS_TRUNC;
      return w;
    }
    w.wireLen += 1 + c;
    if (w.wireLen > 255)
    {
      // events are judged in decoding order: the length limit is reached before anything that lies further on
      // (including a pointer that would close a cycle), so this is an oversize name, not a pointer loop
      w.st = NS_TOO_LONG;
      return w;
    }
    if (capture)
      w.name.labels.push_back(m.substr(p + 1, c));
    p += 1 + c;
  }
}

struct RefDecoded
{
  bool ok = false;         // every field demanded by the header counts could be located
  bool strict = false;     // ok, and strictly well-formed: backward pointers only, names <= 255, RDATA exactly
                           // consumed by its type's format, no trailing bytes
  std::string fail;        // first structural failure (when !ok)
  std::string lax;         // first strictness failure (when ok && !strict)
  bool badPointer = false; // a loop / out-of-range pointer lies on the path the counts require to be read and
                           // everything before it on that path is structurally sound
  std::string badSite;     // "qname" | "owner" | "rdata"
  std::string badKind;     // "loop" | "oob"
  uint16_t badType = 0;
  MsgSpec msg;
  unsigned counts[4] = {0, 0, 0, 0};
  size_t maxNameWire = 0;
};

inline unsigned rd16(const Bytes &m, size_t p) { return ((unsigned char)m[p] << 8) | (unsigned char)m[p + 1]; }
inline uint32_t rd32(const Bytes &m, size_t p) { return (uint32_t(rd16(m, p)) << 16) | rd16(m, p + 2); }

// full = false: walk only (statuses, bad-pointer analysis, strictness) without materialising names and records
inline RefDecoded refDecode(const Bytes &m, bool full = true)
{
  RefDecoded d;
  auto failName = [&](const NameWalk &w, const char *site, uint16_t type) -> bool
  {
    if (w.st == NS_OK)
      return false;
    // NS is not a supported (typed) record of the library: its RDATA is opaque to it, so a pointer inside is not
    // on a path that has to be read
    if ((w.st == NS_PTR_OOB || w.st == NS_PTR_LOOP) && !d.badPointer && !(type == T_NS && site[0] == 'r'))
    {
      d.badPointer = true;
      d.badSite = site;
      d.badKind = w.st == NS_PTR_OOB ? "oob" : "loop";
      d.badType = type;
    }
    return true;
  };
  auto note = [&](const NameWalk &w)
  {
    if (w.wireLen > d.maxNameWire)
      d.maxNameWire = w.wireLen;
    if (d.lax.empty())
    {
      if (w.forward)
        d.lax = "forward pointer";
    }
  };
  size_t size = m.size();
  if (size < 12)
  {
    d.fail = "short header";
    return d;
  }
  d.msg.id = uint16_t(rd16(m, 0));
  d.msg.flags = uint16_t(rd16(m, 2));
  for (int i = 0; i < 4; ++i)
    d.counts[i] = rd16(m, size_t(4 + 2 * i));
  size_t p = 12;
  d.msg.hasQuestion = d.counts[0] > 0;
  for (unsigned q = 0; q < d.counts[0]; ++q)
  {
    NameWalk w = walkName(m, p, p, size, full);
    if (failName(w, "qname", 0))
    {
      d.fail = "question name";
      return d;
    }
    note(w);
    p = w.next;
    if (p + 4 > size)
    {
      d.fail = "question fixed part truncated";
      return d;
    }
    if (q == 0)
    {
      d.msg.qname = w.name;
      d.msg.qtype = uint16_t(rd16(m, p));
      d.msg.qclass = uint16_t(rd16(m, p + 2));
    }
    else if (d.lax.empty())
      d.lax = "more than one question";
    p += 4;
  }
  for (int sec = 0; sec < 3; ++sec)
    for (unsigned i = 0; i < d.counts[1 + sec]; ++i)
    {
      RecSpec r;
      r.section = sec;
      NameWalk w = walkName(m, p, p, size, full);
      if (failName(w, "owner", 0))
      {
        d.fail = "owner name";
        return d;
      }
      note(w);
      r.owner = w.name;
      p = w.next;
      if (p + 10 > size)
      {
        d.fail = "record fixed part truncated";
        return d;
      }
      r.type = uint16_t(rd16(m, p));
      r.cls = uint16_t(rd16(m, p + 2));
      r.ttl = rd32(m, p + 4);
      size_t rdlen = rd16(m, p + 8);
      p += 10;
      if (p + rdlen > size)
      {
        d.fail = "RDATA truncated";
        return d;
      }
      size_t rs = p, re = p + rdlen;
      if (full)
        r.rdataRaw = m.substr(rs, rdlen);
      p = re; // framing continues whatever the RDATA holds
      // typed view; a record whose RDATA does not fit its type's format makes the message non-strict
      std::string bad;
      size_t q = rs;
      auto rdName = [&](Name &out) -> bool
      {
        if (q >= re)
        {
          bad = "RDATA name missing";
          return false;
        }
        NameWalk nw = walkName(m, q, rs, re, full);
        if (failName(nw, "rdata", r.type))
        {
          bad = "RDATA name";
          return false;
        }
        note(nw);
        out = nw.name;
        q = nw.next;
        return true;
      };
      auto cstr = [&](Bytes &out) -> bool
      {
        if (q >= re || q + 1 + (unsigned char)m[q] > re)
        {
          bad = "character-string overruns RDATA";
          return false;
        }
        if (full)
          out = m.substr(q + 1, (unsigned char)m[q]);
        q += 1 + (unsigned char)m[q];
        return true;
      };
      switch (r.type)
      {
      case T_A:
        if (rdlen != 4)
          bad = "A length";
        if (full)
          r.addr = r.rdataRaw;
        q = re;
        break;
      case T_AAAA:
        if (rdlen != 16)
          bad = "AAAA length";
        if (full)
          r.addr = r.rdataRaw;
        q = re;
        break;
      case T_NS:
      case T_CNAME:
      case T_PTR:
        rdName(r.n1);
        break;
      case T_MX:
        if (rdlen < 3)
          bad = "MX length";
        else
        {
          r.u16[0] = uint16_t(rd16(m, q));
          q += 2;
          rdName(r.n1);
        }
        break;
      case T_SRV:
        if (rdlen < 7)
          bad = "SRV length";
        else
        {
          for (int k = 0; k < 3; ++k)
            r.u16[k] = uint16_t(rd16(m, q + size_t(2 * k)));
          q += 6;
          rdName(r.n1);
        }
        break;
      case T_NAPTR:
        if (rdlen < 8)
          bad = "NAPTR length";
        else
        {
          r.u16[0] = uint16_t(rd16(m, q));
          r.u16[1] = uint16_t(rd16(m, q + 2));
          q += 4;
          r.strings.resize(3);
          if (cstr(r.strings[0]) && cstr(r.strings[1]) && cstr(r.strings[2]))
            rdName(r.n1);
        }
        break;
      case T_TXT:
        if (rdlen == 0)
          bad = "TXT without a character-string";
        while (q < re && bad.empty())
        {
          Bytes s;
          if (cstr(s) && full)
            r.strings.push_back(s);
        }
        break;
      case T_SOA:
        if (rdlen < 22) // two names + five 32-bit fields: a decoder may reject on length before reading any name
          bad = "SOA length";
        else if (rdName(r.n1) && rdName(r.n2))
        {
          if (q + 20 > re)
            bad = "SOA numeric fields truncated";
          else
          {
            for (int k = 0; k < 5; ++k)
              r.u32[k] = rd32(m, q + size_t(4 * k));
            q += 20;
          }
        }
        break;
      default:
        if (full)
          r.addr = r.rdataRaw;
        q = re;
      }
      if (bad.empty() && q != re)
        bad = "RDATA not exactly consumed";
      if (!bad.empty() && d.lax.empty())
        d.lax = std::string(typeName(r.type)) + ": " + bad;
      if (full)
        d.msg.recs.push_back(r);
    }
  d.ok = true;
  if (p != size && d.lax.empty())
    d.lax = "trailing bytes";
  d.strict = d.lax.empty();
  return d;
}

// ------------------------------------------------------------------------------------------------
// Mutations of one built message.  fn(descriptor, mutated bytes)
// ------------------------------------------------------------------------------------------------
static const unsigned char kByteClasses[6] = {0x00, 0x01, 0x3f, 0x40, 0xc0, 0xff};

// headerMutations = false: byte substitutions inside the 12 header bytes and the header-count mutations are skipped
// (they are applied to the first compression layout of every spec only: a decoder reserves memory for 0xffff
// records on each of them, ~1 ms under ASan, and the header is identical across the layouts of one spec).
inline void forEachMutant(const Built &b, const std::function<void(const char *, const Bytes &)> &fn, bool headerMutations = true)
{
  const Bytes &w = b.wire;
  size_t n = w.size();
  char d[96];
  // 1. every truncation
  for (size_t l = 0; l < n; ++l)
  {
    snprintf(d, sizeof d, "trunc@%zu", l);
    fn(d, w.substr(0, l));
  }
  // 2. every single-byte substitution over the byte classes
  Bytes m = w;
  for (size_t i = headerMutations ? 0 : (n < 12 ? n : 12); i < n; ++i)
  {
    for (unsigned char c : kByteClasses)
    {
      if ((unsigned char)w[i] == c)
        continue;
      m[i] = char(c);
      snprintf(d, sizeof d, "sub@%zu=%02x", i, c);
      fn(d, m);
    }
    m[i] = w[i];
  }
  // 3. header counts +-1 and 0xffff
  for (int k = 0; k < 4 && headerMutations; ++k)
  {
    size_t off = size_t(4 + 2 * k);
    unsigned v = rd16(w, off);
    unsigned alts[3] = {(v + 1) & 0xffff, (v - 1) & 0xffff, 0xffff};
    for (int a = 0; a < 3; ++a)
    {
      if (alts[a] == v || (a == 2 && (alts[2] == alts[0] || alts[2] == alts[1])))
        continue;
      m = w;
      m[off] = char(alts[a] >> 8);
      m[off + 1] = char(alts[a] & 0xff);
      snprintf(d, sizeof d, "count[%d]=%u", k, alts[a]);
      fn(d, m);
    }
  }
  // 4. pointers written over every name position (each length byte / pointer / terminator of every name)
  std::vector<uint32_t> starts;
  for (auto &s : b.names)
  {
    starts.push_back(s.start);
    for (uint32_t pos : s.positions)
    {
      if (pos + 2 > n)
        continue;
      struct
      {
        const char *k;
        size_t tgt;
      } alts[] = {{"self", pos}, {"fwd", pos + 2}, {"back-into-self", pos > 0 ? pos - 1 : 0}, {"oob-size", n}, {"oob-max", 0x3fff},
                  {"last", n - 1},  {"header", 0}};
      for (auto &a : alts)
      {
        if (a.tgt > 0x3fff)
          continue;
        m = w;
        m[pos] = char(0xc0 | (a.tgt >> 8));
        m[pos + 1] = char(a.tgt & 0xff);
        if (m == w)
          continue;
        snprintf(d, sizeof d, "ptr@%u->%s", pos, a.k);
        fn(d, m);
      }
    }
  }
  //    mutually referential pointers over every pair of name occurrences
  for (size_t i = 0; i < starts.size(); ++i)
    for (size_t j = i + 1; j < starts.size(); ++j)
    {
      if (starts[j] + 2 > n || starts[i] + 2 > starts[j])
        continue;
      m = w;
      m[starts[i]] = char(0xc0 | (starts[j] >> 8));
      m[starts[i] + 1] = char(starts[j] & 0xff);
      m[starts[j]] = char(0xc0 | (starts[i] >> 8));
      m[starts[j] + 1] = char(starts[i] & 0xff);
      snprintf(d, sizeof d, "ptr@%u<->%u", starts[i], starts[j]);
      fn(d, m);
    }
  // 5. RDLENGTH in {0, len-1, len+1}
  for (size_t r = 0; r < b.recs.size(); ++r)
  {
    unsigned len = b.recs[r].rdlen;
    unsigned alts[3] = {0, (len - 1) & 0xffff, (len + 1) & 0xffff};
    for (int a = 0; a < 3; ++a)
    {
      if (alts[a] == len || (a == 1 && alts[1] == alts[0]))
        continue;
      m = w;
      m[b.recs[r].rdlenOff] = char(alts[a] >> 8);
      m[b.recs[r].rdlenOff + 1] = char(alts[a] & 0xff);
      snprintf(d, sizeof d, "rdlen[%zu]=%u", r, alts[a]);
      fn(d, m);
    }
  }
}

// ------------------------------------------------------------------------------------------------
// Address text parsing (semantic comparison of A / AAAA presentation strings)
// ------------------------------------------------------------------------------------------------
inline bool parseIPv4(const std::string &s, unsigned char out[4])
{
  size_t p = 0;
  for (int i = 0; i < 4; ++i)
  {
    if (p >= s.size() || s[p] < '0' || s[p] > '9')
      return false;
    unsigned v = 0;
    int digits = 0;
    while (p < s.size() && s[p] >= '0' && s[p] <= '9' && digits < 4)
    {
      v = v * 10 + unsigned(s[p] - '0');
      ++p;
      ++digits;
    }
    if (v > 255)
      return false;
    out[i] = (unsigned char)v;
    if (i < 3)
    {
      if (p >= s.size() || s[p] != '.')
        return false;
      ++p;
    }
  }
  return p == s.size();
}
inline bool parseIPv6(const std::string &s, unsigned char out[16])
{
  // groups before and after "::"
  std::vector<unsigned> head, tail;
  std::vector<unsigned> *cur = &head;
  bool gap = false;
  size_t p = 0;
  if (s.size() >= 2 && s[0] == ':' && s[1] == ':')
  {
    gap = true;
    cur = &tail;
    p = 2;
  }
  else if (!s.empty() && s[0] == ':')
    return false;
  while (p < s.size())
  {
    // dotted quad tail?
    size_t e = p;
    while (e < s.size() && s[e] != ':')
      ++e;
    std::string tok = s.substr(p, e - p);
    if (tok.find('.') != std::string::npos)
    {
      unsigned char q[4];
      if (e != s.size() || !parseIPv4(tok, q))
        return false;
      cur->push_back((q[0] << 8) | q[1]);
      cur->push_back((q[2] << 8) | q[3]);
      p = e;
      break;
    }
    if (tok.empty() || tok.size() > 4)
      return false;
    unsigned v = 0;
    for (char c : tok)
    {
      int h = c >= '0' && c <= '9' ? c - '0' : c >= 'a' && c <= 'f' ? c - 'a' + 10 : c >= 'A' && c <= 'F' ? c - 'A' + 10 : -1;
      if (h < 0)
        return false;
      v = v * 16 + unsigned(h);
    }
    cur->push_back(v);
    p = e;
    if (p < s.size())
    {
      // s[p] == ':'
      if (p + 1 < s.size() && s[p + 1] == ':')
      {
        if (gap)
          return false;
        gap = true;
        cur = &tail;
        p += 2;
      }
      else
      {
        ++p;
        if (p >= s.size())
          return false;
      }
    }
  }
  size_t n = head.size() + tail.size();
  if (gap ? n > 7 : n != 8)
    return false;
  unsigned g[8] = {0, 0, 0, 0, 0, 0, 0, 0};
  for (size_t i = 0; i < head.size(); ++i)
    g[i] = head[i];
  for (size_t i = 0; i < tail.size(); ++i)
    g[8 - tail.size() + i] = tail[i];
  for (int i = 0; i < 8; ++i)
  {
    out[2 * i] = (unsigned char)(g[i] >> 8);
    out[2 * i + 1] = (unsigned char)(g[i] & 0xff);
  }
  return true;
}

inline std::string hexs(const Bytes &s)
{
  static const char *d = "0123456789abcdef";
  std::string o;
  for (unsigned char c : s)
  {
    o.push_back(d[c >> 4]);
    o.push_back(d[c & 15]);
  }
  return o;
}
inline std::string show(const Bytes &s, size_t max = 40)
{
  std::string o;
  for (unsigned char c : s)
  {
    if (o.size() >= max)
    {
      o += "...";
      break;
    }
    char b[8];
    if (c >= 0x21 && c < 0x7f && c != '\\')
      o.push_back(char(c));
    else
    {
      snprintf(b, sizeof b, "\\x%02x", c);
      o += b;
    }
  }
  return o;
}
inline std::string showName(const Name &n)
{
  if (n.labels.empty())
    return "<root>";
  size_t wl = wireLen(n);
  if (wl > 40)
  {
    char b[64];
    snprintf(b, sizeof b, "<%zu-label name, %zu wire bytes>", n.labels.size(), wl);
    return b;
  }
  return show(text(n));
}

inline uint64_t fnv(const Bytes &s)
{
  uint64_t h = 1469598103934665603ull;
  for (unsigned char c : s)
  {
    h ^= c;
    h *= 1099511628211ull;
  }
  return h;
}

} // namespace c19

// C18: global operator new/delete replacement used as an allocation oracle.
//
// Records the largest single request made while `track` is on and REFUSES absurd requests
// (>= 1 GiB) by throwing std::bad_alloc, so that a length taken from a hostile frame header can
// never take the machine down: it surfaces as an escaping exception instead.
// Everything funnels into malloc/free, so ASan still sees every block (no new/free mismatch
// because both sides are replaced).  Must be included in exactly one TU, before anything else.
#pragma once
#include <cstdint>
#include <cstdlib>
#include <new>

namespace allochook
{
static volatile bool track = false;
static volatile size_t maxReq = 0;
static volatile uint64_t refused = 0;
static constexpr size_t REFUSE = size_t(1) << 30;

inline void note(size_t n)
{
  if (track && n > maxReq)
    maxReq = n;
  if (n >= REFUSE)
  {
    refused = refused + 1;
    throw std::bad_alloc();
  }
}
inline void *get(size_t n)
{
  note(n);
  void *p = std::malloc(n ? n : 1);
  if (!p)
    throw std::bad_alloc();
  return p;
}
inline void *getAligned(size_t n, size_t a)
{
  note(n);
  void *p = nullptr;
  if (a < sizeof(void *))
    a = sizeof(void *);
  if (posix_memalign(&p, a, n ? n : 1) != 0)
    throw std::bad_alloc();
  return p;
}
} // namespace allochook

void *operator new(size_t n) { return allochook::get(n); }
void *operator new[](size_t n) { return allochook::get(n); }
void *operator new(size_t n, const std::nothrow_t &) noexcept
{
  try
  {
    return allochook::get(n);
  }
  catch (...)
  {
    return nullptr;
  }
}
void *operator new[](size_t n, const std::nothrow_t &) noexcept
{
  try
  {
    return allochook::get(n);
  }
  catch (...)
  {
    return nullptr;
  }
}
void *operator new(size_t n, std::align_val_t a) { return allochook::getAligned(n, size_t(a)); }
void *operator new[](size_t n, std::align_val_t a) { return allochook::getAligned(n, size_t(a)); }
void operator delete(void *p) noexcept { std::free(p); }
void operator delete[](void *p) noexcept { std::free(p); }
void operator delete(void *p, size_t) noexcept { std::free(p); }
void operator delete[](void *p, size_t) noexcept { std::free(p); }
void operator delete(void *p, const std::nothrow_t &) noexcept { std::free(p); }
void operator delete[](void *p, const std::nothrow_t &) noexcept { std::free(p); }
void operator delete(void *p, std::align_val_t) noexcept { std::free(p); }
void operator delete[](void *p, std::align_val_t) noexcept { std::free(p); }
void operator delete(void *p, size_t, std::align_val_t) noexcept { std::free(p); }
void operator delete[](void *p, size_t, std::align_val_t) noexcept { std::free(p); }

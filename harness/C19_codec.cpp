// C19 part A — DNS codec: bounded-exhaustive decode-exactness, query round trip and malformed-input robustness
// of iora::network::dns::DnsMessage on the real code (ASan + UBSan build).
//
//  positive families : messages produced by the independent encoder/compressor of C19_dnsgen.hpp (every legal
//                      compression layout) -> DnsMessage::parse must return exactly the generator's record list.
//  query family      : DnsMessage::buildQuery(question) decodes back (reference decoder and iora) to the question.
//  mutation families : for every generated message every truncation, every single-byte substitution over
//                      {00,01,3f,40,c0,ff}, header counts +-1/0xffff, pointers (self, forward, out of range, ...)
//                      over every name position, mutual pointers over every pair of names, RDLENGTH in
//                      {0,len-1,len+1}; plus "clean" poisoned messages built by the generator whose only defect is
//                      one looping / out-of-range pointer.
//                      Oracle: terminates, no sanitizer report, ends in a decoded message or DnsParseException,
//                      and is an error whenever the reference walker finds a pointer loop / out-of-range pointer
//                      on the path the header counts require to be read.
//
// Isolation: run_sharded workers never run iora code themselves; each forks an evaluator child per batch of
// messages and resumes after the exact case in which an evaluator dies (sanitizer abort) or stalls.
#include "bexh.hpp"
#include "C19_dnsgen.hpp"
#include "iora/network/dns/dns_message.hpp"
#include <cxxabi.h>
#include <fcntl.h>
#include <poll.h>
#include <map>
#include <typeinfo>
#include <unordered_set>

using namespace c19;
namespace dns = iora::network::dns;


// ------------------------------------------------------------------------------------------------------------
// iora adapter
// ------------------------------------------------------------------------------------------------------------
struct Outcome
{
  int kind = 0; // 0 decoded, 1 DnsParseException, 2 any other exception
  std::string what, type;
  dns::DnsResult res;
};

static std::string demangle(const char *n)
{
  int st = 0;
  char *d = abi::__cxa_demangle(n, nullptr, nullptr, &st);
  std::string s = d ? d : n;
  free(d);
  return s;
}

static Outcome runParse(const Bytes &wire)
{
  Outcome o;
  // exact-size heap block: any read outside [0,size) hits an ASan red zone
  uint8_t *buf = static_cast<uint8_t *>(malloc(wire.size() ? wire.size() : 1));
  if (wire.size())
    memcpy(buf, wire.data(), wire.size());
  uint8_t *p = wire.size() ? buf : buf + 1; // size 0: one-past pointer of a 1-byte block, nothing readable
  try
  {
    o.res = dns::DnsMessage::parse(p, wire.size());
    o.kind = 0;
  }
  catch (const dns::DnsParseException &e)
  {
    o.kind = 1;
    o.what = e.what();
  }
  catch (const std::exception &e)
  {
    o.kind = 2;
    o.what = e.what();
    o.type = demangle(typeid(e).name());
  }
  catch (...)
  {
    o.kind = 2;
    o.what = "non-std exception";
    o.type = "unknown";
  }
  free(buf);
  return o;
}

static std::string normName(std::string s)
{
  if (!s.empty() && s.back() == '.')
    s.pop_back();
  return s;
}
static std::string normMsg(std::string w)
{
  const std::string pre = "DNS Parse Error: ";
  if (w.rfind(pre, 0) == 0)
    w = w.substr(pre.size());
  std::string o;
  for (size_t i = 0; i < w.size();)
  {
    if (isdigit((unsigned char)w[i]))
    {
      size_t j = i;
      while (j < w.size() && isdigit((unsigned char)w[j]))
        ++j;
      if (w.compare(j, 7, " record") == 0)
        o += w.substr(i, j - i); // keep the record type number
      else
        o += "N";
      i = j;
    }
    else
      o.push_back(w[i++]);
  }
  return o.substr(0, 120);
}

// First difference between the generator's record list and iora's decode; "" if none.  sig gets a short field path.
static std::string compareDecoded(const MsgSpec &m, const dns::DnsResult &r, std::string &sig)
{
  char b[512];
  auto fail = [&](const std::string &s, const std::string &detail) -> std::string
  {
    sig = s;
    return detail;
  };
#define CMPN(field, exp, got)                                                                                         \
  if ((unsigned long long)(exp) != (unsigned long long)(got))                                                         \
  {                                                                                                                   \
    snprintf(b, sizeof b, "%s: expected %llu got %llu", field, (unsigned long long)(exp), (unsigned long long)(got)); \
    return fail(field, b);                                                                                            \
  }
  const dns::DnsHeader &h = r.header;
  CMPN("header.id", m.id, h.id);
  unsigned fl = (h.qr ? 0x8000u : 0) | (unsigned(h.opcode) & 15) << 11 | (h.aa ? 0x400u : 0) | (h.tc ? 0x200u : 0) | (h.rd ? 0x100u : 0) |
                (h.ra ? 0x80u : 0) | (unsigned(h.z) & 7) << 4 | (unsigned(h.rcode) & 15);
  CMPN("header.flags", m.flags, fl);
  unsigned cnt[3] = {0, 0, 0};
  for (auto &x : m.recs)
    cnt[x.section]++;
  CMPN("header.qdcount", m.hasQuestion ? 1 : 0, h.qdcount);
  CMPN("header.ancount", cnt[0], h.ancount);
  CMPN("header.nscount", cnt[1], h.nscount);
  CMPN("header.arcount", cnt[2], h.arcount);
  CMPN("questions.size", m.hasQuestion ? 1 : 0, r.questions.size());
  auto cmpName = [&](const std::string &field, const Name &exp, const std::string &got) -> std::string
  {
    if (text(exp) != normName(got))
      return fail(field, field + ": expected name " + showName(exp) + " (" + std::to_string(wireLen(exp)) + " wire bytes) got '" +
                           show(got, 80) + "' (" + std::to_string(got.size()) + " chars)");
    return "";
  };
  std::string e;
  if (m.hasQuestion)
  {
    if (!(e = cmpName("question.qname", m.qname, r.questions[0].qname)).empty())
      return e;
    CMPN("question.qtype", m.qtype, uint16_t(r.questions[0].qtype));
    CMPN("question.qclass", m.qclass, uint16_t(r.questions[0].qclass));
  }
  const std::vector<dns::DnsResourceRecord> *secs[3] = {&r.answers, &r.authority, &r.additional};
  static const char *secName[3] = {"answers", "authority", "additional"};
  size_t pos[3] = {0, 0, 0};
  CMPN("answers.size", cnt[0], r.answers.size());
  CMPN("authority.size", cnt[1], r.authority.size());
  CMPN("additional.size", cnt[2], r.additional.size());
  size_t ia = 0, i6 = 0, isrv = 0, inap = 0, icn = 0, imx = 0, itxt = 0, iptr = 0, isoa = 0;
  for (auto &x : m.recs)
  {
    std::string T = typeName(x.type);
    const dns::DnsResourceRecord &g = (*secs[x.section])[pos[x.section]++];
    std::string f = std::string(secName[x.section]) + "[" + T + "]";
    if (!(e = cmpName(f + ".name", x.owner, g.name)).empty())
      return e;
    CMPN((f + ".type").c_str(), x.type, uint16_t(g.type));
    CMPN((f + ".class").c_str(), x.cls, uint16_t(g.cls));
    CMPN((f + ".ttl").c_str(), x.ttl, g.ttl);
    CMPN((f + ".rdlength").c_str(), x.rdataRaw.size(), g.rdlength);
    if (Bytes(g.rdata.begin(), g.rdata.end()) != x.rdataRaw)
      return fail(f + ".rdata", f + ".rdata: expected " + hexs(x.rdataRaw).substr(0, 80) + " got " +
                                  hexs(Bytes(g.rdata.begin(), g.rdata.end())).substr(0, 80));
    // typed views
    auto base = [&](const std::string &tf, const dns::DnsResourceRecord &t) -> std::string
    {
      std::string ee;
      if (!(ee = cmpName(tf + ".name", x.owner, t.name)).empty())
        return ee;
      if (uint16_t(t.type) != x.type)
        return fail(tf + ".type", tf + ".type differs");
      if (t.ttl != x.ttl)
        return fail(tf + ".ttl", tf + ".ttl: expected " + std::to_string(x.ttl) + " got " + std::to_string(t.ttl));
      return "";
    };
#define NEED(vec, idx, tf)                                                                                      \
  if (idx >= r.vec.size())                                                                                      \
    return fail(std::string(tf) + ".missing", std::string(tf) + ": typed record missing (" #vec ".size()=" +    \
                                                std::to_string(r.vec.size()) + ", generic record is present)");
    switch (x.type)
    {
    case T_A:
    {
      NEED(a_records, ia, "a_records");
      const auto &t = r.a_records[ia++];
      if (!(e = base("a_records", t)).empty())
        return e;
      unsigned char q[4];
      if (!parseIPv4(t.address, q) || memcmp(q, x.addr.data(), 4) != 0)
        return fail("a_records.address", "a_records.address: expected " + hexs(x.addr) + " got '" + show(t.address) + "'");
      break;
    }
    case T_AAAA:
    {
      NEED(aaaa_records, i6, "aaaa_records");
      const auto &t = r.aaaa_records[i6++];
      if (!(e = base("aaaa_records", t)).empty())
        return e;
      unsigned char q[16];
      if (!parseIPv6(t.address, q) || memcmp(q, x.addr.data(), 16) != 0)
        return fail("aaaa_records.address", "aaaa_records.address: expected " + hexs(x.addr) + " got '" + show(t.address, 60) + "'");
      break;
    }
    case T_CNAME:
    {
      NEED(cname_records, icn, "cname_records");
      const auto &t = r.cname_records[icn++];
      if (!(e = base("cname_records", t)).empty() || !(e = cmpName("cname_records.cname", x.n1, t.cname)).empty())
        return e;
      break;
    }
    case T_PTR:
    {
      NEED(ptr_records, iptr, "ptr_records");
      const auto &t = r.ptr_records[iptr++];
      if (!(e = base("ptr_records", t)).empty() || !(e = cmpName("ptr_records.ptrdname", x.n1, t.ptrdname)).empty())
        return e;
      break;
    }
    case T_MX:
    {
      NEED(mx_records, imx, "mx_records");
      const auto &t = r.mx_records[imx++];
      if (!(e = base("mx_records", t)).empty())
        return e;
      CMPN("mx_records.preference", x.u16[0], t.preference);
      if (!(e = cmpName("mx_records.exchange", x.n1, t.exchange)).empty())
        return e;
      break;
    }
    case T_SRV:
    {
      NEED(srv_records, isrv, "srv_records");
      const auto &t = r.srv_records[isrv++];
      if (!(e = base("srv_records", t)).empty())
        return e;
      CMPN("srv_records.priority", x.u16[0], t.priority);
      CMPN("srv_records.weight", x.u16[1], t.weight);
      CMPN("srv_records.port", x.u16[2], t.port);
      if (!(e = cmpName("srv_records.target", x.n1, t.target)).empty())
        return e;
      break;
    }
    case T_NAPTR:
    {
      NEED(naptr_records, inap, "naptr_records");
      const auto &t = r.naptr_records[inap++];
      if (!(e = base("naptr_records", t)).empty())
        return e;
      CMPN("naptr_records.order", x.u16[0], t.order);
      CMPN("naptr_records.preference", x.u16[1], t.preference);
      const std::string *gs[3] = {&t.flags, &t.service, &t.regexp};
      static const char *fn[3] = {"naptr_records.flags", "naptr_records.service", "naptr_records.regexp"};
      for (int k = 0; k < 3; ++k)
        if (*gs[k] != x.strings[size_t(k)])
          return fail(fn[k], std::string(fn[k]) + ": expected '" + show(x.strings[size_t(k)]) + "' got '" + show(*gs[k]) + "'");
      if (!(e = cmpName("naptr_records.replacement", x.n1, t.replacement)).empty())
        return e;
      break;
    }
    case T_TXT:
    {
      NEED(txt_records, itxt, "txt_records");
      const auto &t = r.txt_records[itxt++];
      if (!(e = base("txt_records", t)).empty())
        return e;
      CMPN("txt_records.text.size", x.strings.size(), t.text.size());
      for (size_t k = 0; k < x.strings.size(); ++k)
        if (t.text[k] != x.strings[k])
          return fail("txt_records.text", "txt_records.text[" + std::to_string(k) + "]: expected '" + show(x.strings[k]) + "' got '" +
                                            show(t.text[k]) + "'");
      break;
    }
    case T_SOA:
    {
      NEED(soa_records, isoa, "soa_records");
      const auto &t = r.soa_records[isoa++];
      if (!(e = base("soa_records", t)).empty() || !(e = cmpName("soa_records.mname", x.n1, t.mname)).empty() ||
          !(e = cmpName("soa_records.rname", x.n2, t.rname)).empty())
        return e;
      CMPN("soa_records.serial", x.u32[0], t.serial);
      CMPN("soa_records.refresh", x.u32[1], t.refresh);
      CMPN("soa_records.retry", x.u32[2], t.retry);
      CMPN("soa_records.expire", x.u32[3], t.expire);
      CMPN("soa_records.minimum", x.u32[4], t.minimum);
      break;
    }
    default:
      break;
    }
  }
  CMPN("a_records.size", ia, r.a_records.size());
  CMPN("aaaa_records.size", i6, r.aaaa_records.size());
  CMPN("srv_records.size", isrv, r.srv_records.size());
  CMPN("naptr_records.size", inap, r.naptr_records.size());
  CMPN("cname_records.size", icn, r.cname_records.size());
  CMPN("mx_records.size", imx, r.mx_records.size());
  CMPN("txt_records.size", itxt, r.txt_records.size());
  CMPN("ptr_records.size", iptr, r.ptr_records.size());
  CMPN("soa_records.size", isoa, r.soa_records.size());
  return "";
}

// Does the reference decode of the wire equal the spec (self-check of generator + reference decoder)?
static bool sameSpec(const MsgSpec &a, const MsgSpec &b)
{
  if (a.id != b.id || a.flags != b.flags || a.hasQuestion != b.hasQuestion || a.recs.size() != b.recs.size())
    return false;
  if (a.hasQuestion && (a.qname != b.qname || a.qtype != b.qtype || a.qclass != b.qclass))
    return false;
  for (size_t i = 0; i < a.recs.size(); ++i)
  {
    const RecSpec &x = a.recs[i], &y = b.recs[i];
    if (x.section != y.section || x.owner != y.owner || x.type != y.type || x.cls != y.cls || x.ttl != y.ttl || x.rdataRaw != y.rdataRaw)
      return false;
    uint16_t t = x.type;
    if ((t == T_A || t == T_AAAA || t == T_UNK) && x.addr != y.addr)
      return false;
    if ((t == T_TXT || t == T_NAPTR) && x.strings != y.strings)
      return false;
    if (typeHasName(t) && x.n1 != y.n1)
      return false;
    if (t == T_SOA && x.n2 != y.n2)
      return false;
    int nu = t == T_MX ? 1 : t == T_SRV ? 3 : t == T_NAPTR ? 2 : 0;
    for (int k = 0; k < nu; ++k)
      if (x.u16[k] != y.u16[k])
        return false;
    if (t == T_SOA)
      for (int k = 0; k < 5; ++k)
        if (x.u32[k] != y.u32[k])
          return false;
  }
  return true;
}

// ------------------------------------------------------------------------------------------------------------
// Shared memory between a worker and its evaluator child
// ------------------------------------------------------------------------------------------------------------
enum Ctr
{
  C_EVAL = 0,
  C_POS,
  C_POS_OK,
  C_POS_REJECTED,
  C_POS_MISMATCH,
  C_MUT,
  C_MUT_DECODED,
  C_MUT_REJECTED,
  C_MUT_BADPTR_DEMAND,
  C_MUT_BADPTR_LOOP,
  C_MUT_BADPTR_OOB,
  C_MUT_STRICT,
  C_POISON,
  C_QUERY,
  C_QUERY_OK,
  C_QUERY_REFUSED_LEGAL,
  C_QUERY_REFUSED_ILLEGAL,
  C_MUT_TRUNC,
  C_MUT_SUB,
  C_MUT_COUNT,
  C_MUT_PTR,
  C_MUT_RDLEN,
  C_TYPED_CLS_UNPOPULATED,
  C_N
};
static const char *kCtrName[C_N] = {"evaluations",
                                    "positive_messages",
                                    "positive_decoded_exactly",
                                    "positive_rejected",
                                    "positive_mismatch",
                                    "mutants",
                                    "mutants_decoded",
                                    "mutants_rejected_with_DnsParseException",
                                    "mutants_with_bad_pointer_on_required_path",
                                    "mutants_bad_pointer_loop",
                                    "mutants_bad_pointer_out_of_range",
                                    "mutants_strictly_well_formed",
                                    "poisoned_messages",
                                    "queries",
                                    "queries_roundtrip_ok",
                                    "queries_refused_for_legal_name",
                                    "queries_refused_for_illegal_name",
                                    "mutants_truncation",
                                    "mutants_substitution",
                                    "mutants_header_count",
                                    "mutants_pointer",
                                    "mutants_rdlength",
                                    "typed_records_with_unpopulated_class"};

static_assert(C_N <= 48, "enlarge ISO_MAX_CTR in C19_iso.hpp");
#include "C19_iso.hpp"

// ------------------------------------------------------------------------------------------------------------
// Evaluation (runs in the evaluator child)
// ------------------------------------------------------------------------------------------------------------
struct QuerySpec
{
  std::vector<std::string> names; // presentation form given to the library
  std::vector<Name> expect;       // the question names they denote
  std::vector<bool> legal;        // RFC 1035: labels <= 63, wire length <= 255
  uint16_t qtype = 1, qclass = 1, id = 1;
  bool rd = true;
};
struct Job
{
  int kind = 0; // 0 message, 1 query
  MsgSpec spec;
  Built built;
  bool positive = true, mutate = true;
  bool headerMutations = true; // first compression layout of a spec
  std::string label; // family / layout description (details only)
  QuerySpec q;
  Bytes kase; // "W:"+wire | "Q:"+text
};

static std::string describe(const MsgSpec &m)
{
  std::string s = "q=" + showName(m.qname);
  static const char *sec[3] = {"AN", "NS", "AR"};
  for (auto &r : m.recs)
  {
    s += std::string(" | ") + sec[r.section] + " " + typeName(r.type) + " owner=" + showName(r.owner) + " cls=" + std::to_string(r.cls) +
         " ttl=" + std::to_string(r.ttl) + " rdata=" + hexs(r.rdataRaw).substr(0, 48) + (r.rdataRaw.size() > 24 ? "..." : "");
  }
  return s;
}

static void evalPositive(const MsgSpec &spec, const Bytes &wire, const Bytes &kase, const std::string &label, bool selfCheck)
{
  CTR(C_EVAL)++;
  CTR(C_POS)++;
  RefDecoded ref = refDecode(wire);
  if (selfCheck && (!ref.ok || !ref.strict || !sameSpec(spec, ref.msg)))
  {
    gViolation("harness-internal", "generator-vs-reference-decoder", kase,
               "reference decoder disagrees with the generator: ok=" + std::to_string(ref.ok) + " strict=" + std::to_string(ref.strict) + " " +
                 ref.fail + ref.lax + " :: " + describe(spec));
    return;
  }
  Outcome o = runParse(wire);
  if (o.kind == 2)
  {
    gViolation("error-is-documented-type", o.type, kase, "well-formed message: exception " + o.type + ": " + o.what);
    return;
  }
  if (o.kind == 1)
  {
    CTR(C_POS_REJECTED)++;
    std::string sig = "reject:" + normMsg(o.what);
    if (sig.find("name too long") != std::string::npos)
      sig += ":maxname=" + std::to_string(ref.maxNameWire);
    gViolation("decode-equals-generator", sig, kase,
               "well-formed message rejected: " + o.what + " :: " + describe(spec) + " [" + label + "]");
    return;
  }
  std::string sig;
  std::string diff = compareDecoded(spec, o.res, sig);
  if (!diff.empty())
  {
    CTR(C_POS_MISMATCH)++;
    if (sig.size() > 8 && sig.compare(sig.size() - 8, 8, ".missing") == 0)
    {
      // which record lost its typed view?  qualify by the longest RDATA name of the records of that type
      size_t mx = 0;
      for (auto &r : spec.recs)
        if (typeHasName(r.type))
          mx = std::max(mx, std::max(wireLen(r.n1), r.type == T_SOA ? wireLen(r.n2) : size_t(0)));
      sig += ":max-rdata-name-wire=" + std::to_string(mx);
    }
    gViolation("decode-equals-generator", "mismatch:" + sig, kase, diff + " :: " + describe(spec) + " [" + label + "]");
    return;
  }
  CTR(C_POS_OK)++;
  for (auto &r : spec.recs)
    if (r.cls != 1 && r.type != T_UNK && r.type != T_NS)
      CTR(C_TYPED_CLS_UNPOPULATED)++; // typed views always carry cls=IN (informational, not demanded)
}

static void evalMutant(const Bytes &m, const Bytes &kase, const char *desc)
{
  CTR(C_EVAL)++;
  CTR(C_MUT)++;
  RefDecoded ref = refDecode(m, false);
  if (ref.ok && ref.strict)
    CTR(C_MUT_STRICT)++;
  if (ref.badPointer)
  {
    CTR(C_MUT_BADPTR_DEMAND)++;
    CTR(ref.badKind == "loop" ? C_MUT_BADPTR_LOOP : C_MUT_BADPTR_OOB)++;
  }
  Outcome o = runParse(m);
  if (o.kind == 2)
  {
    gViolation("error-is-documented-type", o.type, kase, std::string(desc) + ": exception " + o.type + ": " + o.what);
    return;
  }
  if (o.kind == 1)
    CTR(C_MUT_REJECTED)++;
  else
  {
    CTR(C_MUT_DECODED)++;
    if (ref.badPointer)
      gViolation("bad-pointer-is-error", ref.badSite + ":" + ref.badKind + ":accepted", kase,
                 std::string(desc) + ": message has a " + (ref.badKind == "loop" ? "pointer loop" : "out-of-range pointer") + " in " +
                   ref.badSite + (ref.badSite == "rdata" ? std::string(" of a ") + typeName(ref.badType) + " record" : std::string()) +
                   " on the path required by the header counts, yet parse() returned a decoded message (answers=" +
                   std::to_string(o.res.answers.size()) + ")");
  }
}

static bool nameLegal(const Name &n)
{
  for (auto &l : n.labels)
    if (l.empty() || l.size() > 63)
      return false;
  return wireLen(n) <= 255;
}

static void evalQuery(const Job &j)
{
  CTR(C_EVAL)++;
  CTR(C_QUERY)++;
  const QuerySpec &q = j.q;
  std::vector<dns::DnsQuestion> qs;
  bool legal = true;
  for (size_t i = 0; i < q.names.size(); ++i)
  {
    qs.emplace_back(q.names[i], dns::DnsType(q.qtype), dns::DnsClass(q.qclass));
    legal = legal && q.legal[i];
  }
  std::vector<uint8_t> out;
  try
  {
    out = dns::DnsMessage::buildQuery(qs, q.rd, q.id);
  }
  catch (const dns::DnsParseException &e)
  {
    // a refusal builds no query: outside the statement ("queries built by the library ..."); counted only
    CTR(legal ? C_QUERY_REFUSED_LEGAL : C_QUERY_REFUSED_ILLEGAL)++;
    return;
  }
  catch (const std::exception &e)
  {
    gViolation("error-is-documented-type", demangle(typeid(e).name()), j.kase, std::string("buildQuery threw ") + e.what());
    return;
  }
  Bytes wire(out.begin(), out.end());
  if (!legal)
  {
    // the library built a query for a name that cannot be represented: it cannot decode back to the question
    gViolation("query-roundtrip", "built-for-unrepresentable-name", j.kase, "buildQuery accepted a name with an oversize label / name");
    return;
  }
  // reference decode
  auto bad = [&](const std::string &sig, const std::string &d) { gViolation("query-roundtrip", sig, j.kase, d + " wire=" + hexs(wire).substr(0, 200)); };
  if (wire.size() < 12)
    return bad("short", "query shorter than a header");
  unsigned id = rd16(wire, 0), fl = rd16(wire, 2);
  if (q.id != 0 && id != q.id)
    return bad("header.id", "id differs");
  if (fl != (q.rd ? 0x0100u : 0u))
    return bad("header.flags", "flags " + std::to_string(fl) + " for a standard query with RD=" + std::to_string(q.rd));
  if (rd16(wire, 4) != q.names.size() || rd16(wire, 6) || rd16(wire, 8) || rd16(wire, 10))
    return bad("header.counts", "section counts differ");
  size_t p = 12;
  for (size_t i = 0; i < q.names.size(); ++i)
  {
    NameWalk w = walkName(wire, p, p, wire.size());
    if (w.st != NS_OK || w.pointers)
      return bad("qname.encoding", "question name not decodable by the reference decoder");
    if (w.name != q.expect[i])
      return bad("qname", "question name decodes (reference) to '" + show(text(w.name), 80) + "' expected '" + show(text(q.expect[i]), 80) + "'");
    p = w.next;
    if (p + 4 > wire.size() || rd16(wire, p) != q.qtype || rd16(wire, p + 2) != q.qclass)
      return bad("qtype-qclass", "type/class differ");
    p += 4;
  }
  if (p != wire.size())
    return bad("trailing", "trailing bytes after the question section");
  // iora's own decoder
  Outcome o = runParse(wire);
  if (o.kind != 0)
  {
    std::string sig = "iora-rejects-own-query:" + normMsg(o.what);
    return bad(sig, "DnsMessage::parse rejects the query built by the library: " + o.what);
  }
  if (o.res.questions.size() != q.names.size() || o.res.header.id != id || o.res.header.qr || o.res.header.rd != q.rd ||
      !o.res.answers.empty() || !o.res.authority.empty() || !o.res.additional.empty())
    return bad("iora-decode.header", "iora decodes its own query to a different header / section sizes");
  for (size_t i = 0; i < q.names.size(); ++i)
    if (normName(o.res.questions[i].qname) != text(q.expect[i]) || uint16_t(o.res.questions[i].qtype) != q.qtype ||
        uint16_t(o.res.questions[i].qclass) != q.qclass)
      return bad("iora-decode.question", "iora decodes its own query to a different question: '" + show(o.res.questions[i].qname, 80) + "'");
  CTR(C_QUERY_OK)++;
}

// Evaluate jobs [startJob..) ; within startJob skip case indices < startMutant.
static void evalBatch(const std::vector<Job> &jobs, uint32_t startJob, uint32_t startMutant)
{
  for (uint32_t ji = startJob; ji < jobs.size(); ++ji)
  {
    const Job &j = jobs[ji];
    uint32_t from = ji == startJob ? startMutant : 0;
    uint32_t idx = 0;
    if (j.kind == 1)
    {
      if (idx >= from)
      {
        gPublish(ji, idx, j.kase, "query");
        evalQuery(j);
        g_shm->inCase = 0;
      }
      continue;
    }
    if (idx >= from)
    {
      gPublish(ji, idx, j.kase, j.positive ? "positive" : "poisoned");
      if (j.positive)
        evalPositive(j.spec, j.built.wire, j.kase, j.label, true);
      else
      {
        CTR(C_POISON)++;
        evalMutant(j.built.wire, j.kase, j.label.c_str());
      }
      g_shm->inCase = 0;
    }
    ++idx;
    if (!j.mutate)
      continue;
    forEachMutant(j.built,
                  [&](const char *desc, const Bytes &m)
                  {
                    uint32_t my = idx++;
                    if (my < from)
                      return;
                    Bytes kase = "M:" + m;
                    gPublish(ji, my, kase, desc);
                    switch (desc[0])
                    {
                    case 't': CTR(C_MUT_TRUNC)++; break;
                    case 's': CTR(C_MUT_SUB)++; break;
                    case 'c': CTR(C_MUT_COUNT)++; break;
                    case 'p': CTR(C_MUT_PTR)++; break;
                    case 'r': CTR(C_MUT_RDLEN)++; break;
                    }
                    evalMutant(m, kase, desc);
                    g_shm->inCase = 0;
                  },
                  j.headerMutations);
  }
}

// ------------------------------------------------------------------------------------------------------------
// Families
// ------------------------------------------------------------------------------------------------------------
static const uint16_t kTypes[11] = {T_A, T_AAAA, T_CNAME, T_MX, T_SRV, T_NAPTR, T_TXT, T_PTR, T_SOA, T_UNK, T_NS};

static Bytes B(std::initializer_list<int> l)
{
  Bytes s;
  for (int c : l)
    s.push_back(char(c));
  return s;
}
static Bytes rep(int n, int c) { return Bytes(size_t(n), char(c)); }

static RecSpec defaultRec(uint16_t type, int section = 0)
{
  RecSpec r;
  r.type = type;
  r.section = section;
  r.owner = nameAB();
  switch (type)
  {
  case T_A: r.addr = B({10, 0, 0, 1}); break;
  case T_AAAA: r.addr = B({0x20, 1, 0x0d, 0xb8, 0, 0, 0, 0, 0, 0, 0, 0, 0, 0, 0, 1}); break;
  case T_UNK: r.addr = B({1, 2, 3}); break;
  case T_TXT: r.strings = {"v=1"}; break;
  case T_MX: r.u16[0] = 10; break;
  case T_SRV:
    r.u16[0] = 1;
    r.u16[1] = 2;
    r.u16[2] = 5060;
    break;
  case T_NAPTR:
    r.u16[0] = 100;
    r.u16[1] = 10;
    r.strings = {"S", "SIP+D2U", ""};
    break;
  case T_SOA:
    for (int i = 0; i < 5; ++i)
      r.u32[i] = uint32_t(i + 1);
    break;
  }
  r.n1 = nameAB();
  r.n2 = nameAB();
  return r;
}

// all value variants of one type (the first is the default)
static std::vector<RecSpec> valueVariants(uint16_t type)
{
  std::vector<RecSpec> v;
  RecSpec d = defaultRec(type);
  auto add = [&](const RecSpec &r) { v.push_back(r); };
  switch (type)
  {
  case T_A:
    for (Bytes a : {B({10, 0, 0, 1}), B({0, 0, 0, 0}), B({0x3f, 0x40, 0xc0, 0xff}), B({0xc0, 0, 0, 0}), B({0xc0, 0x3f, 0, 0}), B({0xc0, 0x40, 0, 0}),
                    B({0xc0, 0, 2, 1}), B({0xc0, 0xa8, 0, 0}), B({0xff, 0xff, 0xff, 0xff}), B({0x7f, 0, 0, 1}), B({0, 0xc0, 0, 0})})
    {
      d.addr = a;
      add(d);
    }
    break;
  case T_AAAA:
    for (Bytes a : {B({0x20, 1, 0x0d, 0xb8, 0, 0, 0, 0, 0, 0, 0, 0, 0, 0, 0, 1}), rep(16, 0), rep(15, 0) + B({1}), B({0xfe, 0x80}) + rep(13, 0) + B({1}),
                    B({0xff, 2}) + rep(13, 0) + B({1}), rep(10, 0) + B({0xff, 0xff, 0xc0, 0, 2, 1}), rep(16, 0xff),
                    B({0, 0x3f, 0, 0x40, 0, 0xc0, 0, 0xff, 0x3f, 0, 0x40, 0, 0xc0, 0, 0xff, 0}), rep(15, 0) + B({0xc0}), rep(12, 0) + B({10, 0, 0, 1}),
                    B({0x3f, 0x3f, 0x40, 0x40}) + rep(12, 0x3f)})
    {
      d.addr = a;
      add(d);
    }
    break;
  case T_UNK:
    for (Bytes a : {B({1, 2, 3}), Bytes(), B({0}), B({0xc0, 0x0c}), B({0xff, 0xff, 0xff}), B({0x3f, 0x40}), B({0xc0})})
    {
      d.addr = a;
      add(d);
    }
    break;
  case T_TXT:
    for (std::vector<Bytes> s : std::vector<std::vector<Bytes>>{{"v=1"},
                                                                {""},
                                                                {"a"},
                                                                {B({0})},
                                                                {B({0x3f})},
                                                                {B({0x40})},
                                                                {B({0xc0})},
                                                                {B({0xff})},
                                                                {B({0xc0, 'a'})},
                                                                {B({'a', 0xff, 'a'})},
                                                                {"a", "b"},
                                                                {"", ""},
                                                                {rep(63, 't')},
                                                                {rep(64, 't')},
                                                                {rep(191, 't')},
                                                                {rep(192, 't')},
                                                                {rep(255, 't')},
                                                                {B({0, 0x3f, 0x40, 0xc0, 0xff})},
                                                                {"a", B({0xc0})}})
    {
      d.strings = s;
      add(d);
    }
    break;
  case T_MX:
    for (int p : {10, 0, 0xc00c, 0xffff, 0x3f40})
    {
      d.u16[0] = uint16_t(p);
      add(d);
    }
    break;
  case T_SRV:
    for (auto t : std::vector<std::vector<int>>{{1, 2, 5060}, {0, 0, 0}, {0xc00c, 0x3f40, 0xffff}, {0xffff, 0xc0c0, 0x00c0}})
    {
      for (int i = 0; i < 3; ++i)
        d.u16[i] = uint16_t(t[size_t(i)]);
      add(d);
    }
    break;
  case T_NAPTR:
    for (auto t : std::vector<std::vector<int>>{{100, 10}, {0, 0}, {0xc00c, 0xffff}})
      for (std::vector<Bytes> s : std::vector<std::vector<Bytes>>{{"S", "SIP+D2U", ""},
                                                                  {"", "", ""},
                                                                  {"U", "E2U+sip", "!^.*$!sip:a@b!"},
                                                                  {B({0xc0}), B({0xff, 0}), B({0x3f, 0x40})},
                                                                  {rep(255, 'f'), "", rep(64, 'r')}})
      {
        d.u16[0] = uint16_t(t[0]);
        d.u16[1] = uint16_t(t[1]);
        d.strings = s;
        add(d);
      }
    break;
  case T_SOA:
    for (auto t : std::vector<std::vector<uint32_t>>{{1, 2, 3, 4, 5}, {0, 0, 0, 0, 0}, {0xffffffffu, 0xc00c0000u, 0x3f40c0ffu, 0x80000000u, 0x7fffffffu}})
    {
      for (int i = 0; i < 5; ++i)
        d.u32[i] = t[size_t(i)];
      add(d);
    }
    break;
  default:
    add(d);
  }
  return v;
}

struct Gen
{
  const vr::Shard *sh = nullptr;
  vr::Report *rep = nullptr;
  Iso iso;
  std::vector<Job> batch;
  size_t batchBytes = 0;
  uint64_t idx = 0;
  std::unordered_set<uint64_t> seen;
  bool stop = false, dry = false;
  uint64_t lastIdxBegun = 0;

  bool timeUp()
  {
    if (stop)
      return true;
    if (sh->timeUp() || iso.aborted)
    {
      stop = true;
      rep->exhaustive = false;
      if (!iso.aborted)
        rep->notes.push_back("deadline reached: enumeration stopped early");
    }
    return stop;
  }
  void flush()
  {
    if (batch.empty())
      return;
    sh->begin(lastIdxBegun, batch.front().kase);
    iso.run(batch.size(), [&](uint32_t sj, uint32_t sm) { evalBatch(batch, sj, sm); });
    sh->end();
    batch.clear();
    batchBytes = 0;
  }
  bool route(const Bytes &key)
  {
    uint64_t h = fnv(key);
    ++idx;
    if (int(h % uint64_t(sh->W)) != sh->w)
      return false;
    if (!seen.insert(h).second)
    {
      rep->counters["duplicate_cases_skipped"]++;
      return false;
    }
    return true;
  }
  void push(Job &&j, size_t weight)
  {
    if (dry)
    {
      rep->counters["dry_messages"]++;
      if (j.mutate)
      {
        uint64_t n = j.built.wire.size() * 15 / 2; // estimate
        rep->counters["dry_mutants"] += n;
        rep->counters[std::string("dry_mutants_") + j.label.substr(0, j.label.find(' '))] += n;
      }
      rep->counters[std::string("dry_messages_") + (j.kind ? "Q" : j.label.substr(0, j.label.find(' ')))]++;
      return;
    }
    lastIdxBegun = idx;
    batch.push_back(std::move(j));
    batchBytes += weight;
    if (batch.size() >= 128 || batchBytes > 60000)
      flush();
  }

  // one spec, every compression layout
  // allTargets / latestOnly: see Builder
  void layouts(MsgSpec spec, const char *family, bool mutate, bool allTargets = true, bool latestOnly = false)
  {
    if (timeUp())
      return;
    Odo odo;
    uint64_t n = 0;
    do
    {
      Builder bl;
      bl.odo = &odo;
      bl.allTargets = allTargets;
      bl.latestOnly = latestOnly;
      bl.build(spec);
      ++n;
      rep->counters["generated_messages"]++; // counted by every worker alike; divided out below
      if (!route(bl.b.wire))
        continue;
      Job j;
      j.spec = spec;
      j.built = bl.b;
      j.mutate = mutate;
      j.headerMutations = n == 1;
      j.label = std::string(family) + " layout=" + odo.str();
      j.kase = "W:" + bl.b.wire;
      rep->distinct_nontrivial += spec.recs.empty() ? 0 : 1;
      if (bl.b.pointers)
        rep->counters["distinct_messages_with_pointers"]++;
      if (uint64_t(bl.b.pointers) > rep->counters["max_pointers_in_one_message"])
        rep->counters["max_pointers_in_one_message"] = uint64_t(bl.b.pointers);
      if (bl.b.wire.size() > rep->counters["max_message_bytes"])
        rep->counters["max_message_bytes"] = bl.b.wire.size();
      rep->sampleEvery(997, std::string(family) + ": " + describe(spec) + " layout=" + odo.str() + " wire=" + hexs(bl.b.wire).substr(0, 160));
      size_t w = mutate ? bl.b.wire.size() * 8 : bl.b.wire.size() / 8 + 1;
      push(std::move(j), w);
    } while (odo.advance() && !timeUp());
    if (n > rep->counters["max_layouts_of_one_spec"])
      rep->counters["max_layouts_of_one_spec"] = n;
  }

  void poisoned(MsgSpec spec, const Poison &p, bool compress, const char *family)
  {
    if (timeUp())
      return;
    Builder bl;
    (void)compress; // names other than the poisoned ones are written in full
    bl.poison = p;
    bl.build(spec);
    if (!route(bl.b.wire))
      return;
    Job j;
    j.spec = spec;
    j.built = bl.b;
    j.positive = false;
    j.mutate = false;
    j.label = std::string(family) + " poison=" + poisonName(p.kind) + " occ=" + std::to_string(p.occ) + (p.occ2 >= 0 ? "," + std::to_string(p.occ2) : "");
    j.kase = "M:" + bl.b.wire;
    rep->sampleEvery(499, j.label + ": " + describe(spec) + " wire=" + hexs(bl.b.wire).substr(0, 160));
    push(std::move(j), bl.b.wire.size() / 8 + 1);
  }

  void query(const QuerySpec &q)
  {
    if (timeUp())
      return;
    std::string t = "Q:";
    for (size_t i = 0; i < q.names.size(); ++i)
      t += (i ? "," : "") + hexs(q.names[i]);
    t += "|" + std::to_string(q.qtype) + "|" + std::to_string(q.qclass) + "|" + std::to_string(q.id) + "|" + std::to_string(q.rd);
    if (!route(t))
      return;
    Job j;
    j.kind = 1;
    j.q = q;
    j.kase = t;
    rep->sampleEvery(211, "buildQuery name=" + (q.names.empty() ? std::string("<none>") : show(q.names[0], 30)) + " type=" + std::to_string(q.qtype) +
                            " class=" + std::to_string(q.qclass) + " id=" + std::to_string(q.id) + " rd=" + std::to_string(q.rd));
    push(std::move(j), 8);
  }
};

static MsgSpec baseMsg(const Name &q = nameAB())
{
  MsgSpec m;
  m.qname = q;
  return m;
}
static bool isLong(const Name &n) { return wireLen(n) > 60; }

static void families(Gen &g, bool thorough)
{
  vr::Report &r = *g.rep;
  const std::vector<Name> S = {nameAB(), nameRoot(), nameA(), nameB()}; // short names
  const std::vector<Name> L = {nameL63(), name255()};                    // long names
  std::vector<Name> SL = S;
  SL.insert(SL.end(), L.begin(), L.end());
  // ---- P1: single record, all name choices x all compression layouts -----------------------------------------
  r.bounds["P1"] = std::string("1 record; type in 11 types {A,AAAA,CNAME,MX,SRV,NAPTR,TXT,PTR,SOA,unknown(0xff00),NS}; question / owner / RDATA names each in "
                   "{a.b, root, a, b, 63-byte label, 255-byte name} with at most 2 long (>60 byte) names per message; default RDATA values; EVERY "
                   "compression layout (pointer targets: every earlier label start, earlier pointer (chains) and earlier root byte). Mutations for: "
                   "all-short-name messages") + (thorough ? "; " : " not using the name 'a'; ") +
                   (thorough ? "messages with 1 long name whose other names are a.b / root; messages with 2 long names of types A/CNAME/SOA whose other names are a.b"
                             : "messages with 1 long name of types A/CNAME/SOA whose other names are a.b (quick)");
  for (uint16_t t : kTypes)
    for (auto &qn : SL)
      for (auto &ow : SL)
        for (auto &n1 : SL)
          for (auto &n2 : SL)
          {
            if (!typeHasName(t) && !(n1 == SL[0]))
              continue;
            if (t != T_SOA && !(n2 == SL[0]))
              continue;
            int nl = isLong(qn) + isLong(ow) + (typeHasName(t) && isLong(n1)) + (t == T_SOA && isLong(n2));
            if (nl > 2)
              continue;
            bool usesA = qn == SL[2] || ow == SL[2] || n1 == SL[2] || n2 == SL[2];
            bool rep3 = t == T_A || t == T_CNAME || t == T_SOA;
            bool othersAB = (isLong(qn) || qn == SL[0]) && (isLong(ow) || ow == SL[0]) && (isLong(n1) || n1 == SL[0]) && (isLong(n2) || n2 == SL[0]);
            auto abOrRoot = [&](const Name &x) { return isLong(x) || x == SL[0] || x == SL[1]; };
            bool othersABRoot = abOrRoot(qn) && abOrRoot(ow) && abOrRoot(n1) && abOrRoot(n2);
            bool mutate = (nl == 0 && (thorough || !usesA)) || (nl == 1 && (thorough ? othersABRoot : (rep3 && othersAB))) ||
                          (nl == 2 && thorough && rep3 && othersAB);
            MsgSpec m = baseMsg(qn);
            RecSpec rec = defaultRec(t);
            rec.owner = ow;
            rec.n1 = n1;
            rec.n2 = n2;
            m.qtype = t;
            m.recs.push_back(rec);
            g.layouts(m, nl == 0 ? "P1-short" : nl == 1 ? "P1-1long" : "P1-2long", mutate);
          }
  // boundary names 253 / 254 / 255 wire bytes, one at a time
  r.bounds["P1b"] = "names of 253/254/255 wire bytes as question, owner or RDATA name of A / CNAME / SOA records; every layout; all mutations (thorough)";
  for (Name ln : {name253(), name254(), name255()})
    for (uint16_t t : {T_A, T_CNAME, T_SOA})
      for (int where = 0; where < 3; ++where)
      {
        if (where == 2 && t == T_A)
          continue;
        MsgSpec m = baseMsg(where == 0 ? ln : nameAB());
        RecSpec rec = defaultRec(t);
        if (where == 1)
          rec.owner = ln;
        if (where == 2)
          rec.n1 = ln;
        m.recs.push_back(rec);
        g.layouts(m, "P1b", thorough);
      }
  // ---- P2: single record, all RDATA values / TTLs / classes / sections / header flags ------------------------
  r.bounds["P2"] = "1 record; names a.b; every RDATA value of the per-type value sets (address / text bytes over {00,3f,40,c0,ff}, 0/63/64/191/192/255-byte "
                   "strings, u16/u32 extremes) x section in {AN,NS,AR} (quick: mutations for AN only); TTL in {0,1,3600,2^31-1,2^31,2^32-1} x class in {IN,CH,255,0xc00c}; flags in "
                   "{8180,8583,8200,ffff,0100}; every layout; all mutations";
  for (uint16_t t : kTypes)
  {
    auto vars = valueVariants(t);
    for (auto &v : vars)
      for (int sec = 0; sec < 3; ++sec)
      {
        MsgSpec m = baseMsg();
        RecSpec rec = v;
        rec.section = sec;
        m.recs.push_back(rec);
        g.layouts(m, "P2", thorough || sec == 0);
      }
    for (uint32_t ttl : {0u, 1u, 3600u, 0x7fffffffu, 0x80000000u, 0xffffffffu})
      for (uint16_t cls : {uint16_t(1), uint16_t(3), uint16_t(255), uint16_t(0xc00c)})
      {
        MsgSpec m = baseMsg();
        RecSpec rec = defaultRec(t);
        rec.ttl = ttl;
        rec.cls = cls;
        m.recs.push_back(rec);
        g.layouts(m, "P2", true);
      }
    for (uint16_t fl : {uint16_t(0x8583), uint16_t(0x8200), uint16_t(0xffff), uint16_t(0x0100)})
    {
      MsgSpec m = baseMsg();
      m.flags = fl;
      m.id = fl == 0xffff ? 0xffff : 1;
      m.recs.push_back(defaultRec(t));
      g.layouts(m, "P2", false);
    }
  }
  {
    MsgSpec m = baseMsg(); // no records at all, and no question
    g.layouts(m, "P2", true);
    m.hasQuestion = false;
    g.layouts(m, "P2", true);
    m.recs.push_back(defaultRec(T_A));
    g.layouts(m, "P2", true);
  }
  // ---- P3: two and three records, all type tuples ------------------------------------------------------------
  r.bounds["P3"] = std::string("2 records: all 121 type pairs x sections {AN+AN") + (thorough ? ", AN+NS, NS+AR" : "") +
                   "}; names a.b / b; every layout over label-start targets; mutations for " + (thorough ? "all pairs" : "the 49 pairs over {A,AAAA,CNAME,MX,TXT,SOA,unknown} (quick)") + ". 3 records (AN+NS+AR): all 1331 type triples, names a.b / b / a; "
                   "layouts: per name and split point the most recent matching label start; mutations " +
                   (thorough ? "for the 216 triples over {A,CNAME,MX,TXT,SOA,unknown}" : "for the 27 triples over {A,CNAME,TXT} (quick)");
  static const int secPairs[3][2] = {{0, 0}, {0, 1}, {1, 2}};
  for (uint16_t t1 : kTypes)
    for (uint16_t t2 : kTypes)
      for (auto &sp : secPairs)
      {
        if (!thorough && sp[0] + sp[1] != 0)
          continue;
        MsgSpec m = baseMsg();
        RecSpec a = defaultRec(t1, sp[0]), b = defaultRec(t2, sp[1]);
        a.n1 = nameB();
        b.owner = nameB();
        b.n2 = nameB();
        m.recs = {a, b};
        auto in7 = [](uint16_t t) { return t == T_A || t == T_AAAA || t == T_CNAME || t == T_MX || t == T_TXT || t == T_SOA || t == T_UNK; };
        g.layouts(m, "P3-pairs", thorough || (in7(t1) && in7(t2)), false, false);
      }
  for (uint16_t t1 : kTypes)
    for (uint16_t t2 : kTypes)
      for (uint16_t t3 : kTypes)
      {
        auto in3 = [](uint16_t t) { return t == T_A || t == T_CNAME || t == T_TXT; };
        auto in8 = [](uint16_t t) { return t == T_A || t == T_CNAME || t == T_MX || t == T_TXT || t == T_SOA || t == T_UNK; };
        bool mutate = thorough ? (in8(t1) && in8(t2) && in8(t3)) : (in3(t1) && in3(t2) && in3(t3));
        MsgSpec m = baseMsg();
        RecSpec a = defaultRec(t1, 0), b = defaultRec(t2, 1), c = defaultRec(t3, 2);
        a.n1 = nameB();
        b.owner = nameB();
        c.n1 = nameB();
        c.n2 = nameA();
        m.recs = {a, b, c};
        g.layouts(m, "P3-triples", mutate, false, true);
      }
  // ---- P4: clean poisoned messages: the only defect is one bad pointer ---------------------------------------
  r.bounds["P4"] = "1- and 2-record messages of every type (pair), names a.b in full; one name occurrence (question, owner, each RDATA name) replaced by a "
                   "pointer {to itself, label+pointer back to the label, to offset==size, to 0x3fff, to the last byte, to the next byte}; every pair of "
                   "occurrences replaced by pointers at each other";
  for (uint16_t t1 : kTypes)
    for (int two = 0; two < 2; ++two)
      for (uint16_t t2 : kTypes)
      {
        if (!two && t2 != kTypes[0])
          continue;
        MsgSpec m = baseMsg();
        m.recs.push_back(defaultRec(t1, 0));
        if (two)
          m.recs.push_back(defaultRec(t2, two));
        int occs = 1;
        for (auto &rc : m.recs)
          occs += 1 + (typeHasName(rc.type) ? 1 : 0) + (rc.type == T_SOA ? 1 : 0);
        for (int o = 0; o < occs; ++o)
        {
          for (int k : {P_SELF, P_SELF_LABEL, P_OOB_SIZE, P_OOB_MAX, P_LAST_BYTE, P_FWD_NEXT})
          {
            Poison p;
            p.kind = k;
            p.occ = o;
            g.poisoned(m, p, false, "P4");
          }
          for (int o2 = o + 1; o2 < occs; ++o2)
          {
            Poison p;
            p.kind = P_MUTUAL;
            p.occ = o;
            p.occ2 = o2;
            g.poisoned(m, p, false, "P4");
          }
        }
      }
  // ---- Q: buildQuery round trip ---------------------------------------------------------------------------------
  r.bounds["Q"] = "buildQuery: names {'', '.', a, a.b, 'a.b.', A.b, 63-byte label, 64-byte label, names of 253/254/255/256 wire bytes} x qtype in "
                  "{A,AAAA,SRV,NAPTR,ANY,0xff00} x qclass in {IN,CH,ANY} x RD in {0,1} x id in {1,0x1234,0xffff}; 0- and 2-question queries";
  struct QN
  {
    std::string text;
    Name name;
  };
  std::vector<QN> qn = {{"", nameRoot()},        {".", nameRoot()},       {"a", nameA()},
                        {"a.b", nameAB()},       {"a.b.", nameAB()},      {"A.b", mkName({"A", "b"})},
                        {text(nameL63()), nameL63()}, {text(name253()), name253()}, {text(name254()), name254()},
                        {text(name255()), name255()}, {std::string(64, 'x'), mkName({Bytes(64, 'x')})}, {text(nameLong(58)), nameLong(58)}};
  for (auto &n : qn)
    for (uint16_t qt : {uint16_t(1), uint16_t(28), uint16_t(33), uint16_t(35), uint16_t(255), uint16_t(0xff00)})
      for (uint16_t qc : {uint16_t(1), uint16_t(3), uint16_t(255)})
        for (int rd = 0; rd < 2; ++rd)
          for (uint16_t id : {uint16_t(1), uint16_t(0x1234), uint16_t(0xffff)})
          {
            QuerySpec q;
            q.names = {n.text};
            q.expect = {n.name};
            q.legal = {nameLegal(n.name)};
            q.qtype = qt;
            q.qclass = qc;
            q.rd = rd != 0;
            q.id = id;
            g.query(q);
          }
  {
    QuerySpec q;
    q.id = 7;
    g.query(q); // no question
    q.names = {"a.b", text(nameL63())};
    q.expect = {nameAB(), nameL63()};
    q.legal = {true, true};
    g.query(q);
  }
  g.flush();
}

// ------------------------------------------------------------------------------------------------------------
// Replay
// ------------------------------------------------------------------------------------------------------------
static void onAlarm(int)
{
  const char m[] = "REPLAY: no result after 20 s -> violation (terminates)\n";
  if (write(1, m, sizeof m - 1) < 0)
  {
  }
  _exit(1);
}

static int replay(const std::string &file)
{
  Bytes kase = vr::readFile(file);
  IsoShm *shm = new IsoShm();
  memset(shm, 0, sizeof *shm);
  g_shm = shm;
  signal(SIGALRM, onAlarm);
  alarm(20);
  if (kase.size() < 2 || kase[1] != ':')
  {
    printf("REPLAY: unrecognised case\n");
    return 2;
  }
  Bytes body = kase.substr(2);
  printf("(a sanitizer report below is printed unsymbolised; set UBSAN_OPTIONS=print_stacktrace=1:symbolize=1 ASAN_OPTIONS=symbolize=1 for names)\n");
  fflush(stdout);
  if (kase[0] == 'W')
  {
    RefDecoded ref = refDecode(body);
    printf("REPLAY: well-formed message, %zu bytes; reference decode ok=%d strict=%d %s%s\n", body.size(), ref.ok, ref.strict, ref.fail.c_str(),
           ref.lax.c_str());
    if (!ref.ok || !ref.strict)
      return 2;
    printf("  expected: %s\n", describe(ref.msg).c_str());
    evalPositive(ref.msg, body, kase, "replay", false);
  }
  else if (kase[0] == 'M')
  {
    RefDecoded ref = refDecode(body);
    printf("REPLAY: mutated message, %zu bytes; reference walker: ok=%d %s badPointer=%d %s %s\n", body.size(), ref.ok, ref.fail.c_str(), ref.badPointer,
           ref.badSite.c_str(), ref.badKind.c_str());
    evalMutant(body, kase, "replay");
    Outcome o = runParse(body);
    printf("  iora: %s %s\n", o.kind == 0 ? "decoded" : o.kind == 1 ? "DnsParseException" : "OTHER EXCEPTION", o.what.c_str());
  }
  else if (kase[0] == 'Q')
  {
    Job j;
    j.kind = 1;
    j.kase = kase;
    // Q:<hexname>[,<hexname>]|type|class|id|rd
    std::vector<std::string> f;
    size_t p = 0;
    while (true)
    {
      size_t e = body.find('|', p);
      f.push_back(body.substr(p, e == std::string::npos ? std::string::npos : e - p));
      if (e == std::string::npos)
        break;
      p = e + 1;
    }
    if (f.size() != 5)
      return 2;
    size_t s = 0;
    while (!f[0].empty() || s == 0)
    {
      size_t e = f[0].find(',', s);
      std::string nm = vr::unhex(f[0].substr(s, e == std::string::npos ? std::string::npos : e - s));
      if (!(f[0].empty()))
      {
        j.q.names.push_back(nm);
        Name n;
        size_t a = 0;
        std::string t = nm;
        while (a <= t.size())
        {
          size_t b = t.find('.', a);
          std::string lab = t.substr(a, b == std::string::npos ? std::string::npos : b - a);
          if (!lab.empty())
            n.labels.push_back(lab);
          if (b == std::string::npos)
            break;
          a = b + 1;
        }
        j.q.expect.push_back(n);
        j.q.legal.push_back(nameLegal(n));
      }
      if (e == std::string::npos)
        break;
      s = e + 1;
    }
    j.q.qtype = uint16_t(atoi(f[1].c_str()));
    j.q.qclass = uint16_t(atoi(f[2].c_str()));
    j.q.id = uint16_t(atoi(f[3].c_str()));
    j.q.rd = atoi(f[4].c_str()) != 0;
    printf("REPLAY: buildQuery with %zu question(s)\n", j.q.names.size());
    evalQuery(j);
  }
  else
    return 2;
  alarm(0);
  uint64_t nv = 0;
  for (uint32_t i = 0; i < shm->nsig; ++i)
  {
    printf("  VIOLATION %s\n", shm->sigs[i].key);
    nv += shm->sigs[i].n;
  }
  size_t p = 0;
  while (p + 16 <= shm->violUsed)
  {
    uint32_t l[4];
    memcpy(l, shm->viol + p, 16);
    p += 16 + l[0] + l[1] + l[2];
    printf("    %.*s\n", int(l[3]), shm->viol + p);
    p += l[3];
  }
  printf("REPLAY: %s\n", nv ? "violation reproduced" : "no violation");
  return nv ? 1 : 0;
}

int main(int argc, char **argv)
{
  vr::Args args(argc, argv);
  iora::core::Logger::setLevel(iora::core::Logger::Level::Fatal);
  if (!args.replay.empty())
    return replay(args.replay);
  bool thorough = args.thorough();
  double deadline = double(args.getInt("deadline", thorough ? 1500 : 240));
  vr::run_sharded(args, "C19_codec", "exploration", 120, deadline > 30 ? deadline - 15 : deadline,
                  [&](const vr::Shard &sh, vr::Report &r)
                  {
                    r.rule = "distinct (by exact bytes) well-formed messages from the independent encoder that carry >= 1 resource record; "
                             "'evaluations' also counts every mutant, poisoned message and buildQuery case";
                    r.max_samples = 6;
                    g_shm = (IsoShm *)mmap(nullptr, sizeof(IsoShm), PROT_READ | PROT_WRITE, MAP_SHARED | MAP_ANONYMOUS, -1, 0);
                    memset((void *)g_shm, 0, sizeof(IsoShm));
                    Gen g;
                    g.sh = &sh;
                    g.rep = &r;
                    g.iso.rep = &r;
                    g.iso.tick = [&sh]() { if (sh.slot) sh.slot->beats = sh.slot->beats + 1; };
                    g.dry = args.getInt("dry", 0) != 0;
                    if (sh.resumed)
                      r.notes.push_back("worker restarted by the supervisor (should not happen: evaluation is isolated in child processes)");
                    families(g, thorough);
                    // 'generated_messages' was counted by every worker over the whole enumeration: keep it once
                    if (sh.w != 0)
                      r.counters.erase("generated_messages");
                    r.bounds["mutations"] = "every truncation; every single-byte substitution over {00,01,3f,40,c0,ff}; each header count +1,-1,0xffff; "
                                            "pointer {self, forward, back-into-self, offset==size, 0x3fff, last byte, header} over every length/pointer/"
                                            "terminator position of every name; mutual pointers over every pair of names; RDLENGTH in {0,len-1,len+1}. Substitutions inside the 12 "
                                            "header bytes and the count mutations are applied to the first compression layout of every spec only";
                    r.bounds["stall_detection_s"] = "30";
                  });
  return 0;
}

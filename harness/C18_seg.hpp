// C18 part (ii): protocol-aware sequence generator, frame-list descriptor (replayable case text),
// reference reassembly model and the segmentation runner.
#pragma once
#include "C18_ws.hpp"
#include "bexh.hpp"
#include <algorithm>

namespace seg
{
using namespace ws;

struct Ctx
{
  ServerEp S;
  ClientEp C;
  vr::Report *r = nullptr;
  bool thorough = false;
  Endpoint &ep(char e) { return e == 's' ? (Endpoint &)S : (Endpoint &)C; }
};

static const uint8_t KEYS[5][4] = {
  {0x37, 0xfa, 0x21, 0x3d}, {0, 0, 0, 0}, {0xff, 0xff, 0xff, 0xff}, {0x81, 0x80, 0x81, 0x80}, {0x00, 0xff, 0x7e, 0x7f}};

inline Bytes pat(size_t n) // printable ASCII, so it is valid UTF-8 wherever it is cut
{
  Bytes b(n, ' ');
  for (size_t i = 0; i < n; ++i)
    b[i] = char(0x20 + (i * 7 + n) % 95);
  return b;
}
inline char kindOf(uint8_t op)
{
  switch (op)
  {
  case 0: return 'c';
  case 1: return 't';
  case 2: return 'b';
  case 8: return 'X';
  case 9: return 'P';
  case 10: return 'O';
  }
  return '?';
}
inline int opOf(char k)
{
  switch (k)
  {
  case 'c': return 0;
  case 't': return 1;
  case 'b': return 2;
  case 'X': return 8;
  case 'P': return 9;
  case 'O': return 10;
  }
  return -1;
}
inline Frame mk(char kind, bool fin, Bytes payload)
{
  Frame f;
  f.op = uint8_t(opOf(kind));
  f.fin = fin;
  f.payload = std::move(payload);
  return f;
}
// frames -> "t0:c3|P1:70|c1:a9|X1:03e8627965"   (payload hex, or #N = pat(N))
inline std::string describe(const std::vector<Frame> &fr)
{
  std::string o;
  for (size_t i = 0; i < fr.size(); ++i)
  {
    if (i)
      o += '|';
    o.push_back(kindOf(fr[i].op));
    o.push_back(fr[i].fin ? '1' : '0');
    o.push_back(':');
    if (fr[i].payload.size() > 16 && fr[i].payload == pat(fr[i].payload.size()))
      o += "#" + std::to_string(fr[i].payload.size());
    else
      o += vr::hex(fr[i].payload);
  }
  return o;
}
inline bool parseDesc(const std::string &d, std::vector<Frame> &out)
{
  size_t p = 0;
  while (p < d.size())
  {
    size_t e = d.find('|', p);
    if (e == std::string::npos)
      e = d.size();
    std::string t = d.substr(p, e - p);
    if (t.size() < 3 || t[2] != ':' || opOf(t[0]) < 0)
      return false;
    std::string pl = t.substr(3);
    Bytes payload = (!pl.empty() && pl[0] == '#') ? pat(size_t(atoll(pl.c_str() + 1))) : vr::unhex(pl);
    out.push_back(mk(t[0], t[1] == '1', payload));
    p = e + 1;
  }
  return true;
}

struct Layout
{
  size_t start, key, pay, end;
  char kind;
};
// Encode the frame list for the given direction (independent encoder), recording the layout.
inline Bytes buildStream(const std::vector<Frame> &fr, bool masked, std::vector<Layout> &lay, size_t base = 0)
{
  Bytes s;
  for (size_t i = 0; i < fr.size(); ++i)
  {
    Frame f = fr[i];
    f.masked = masked;
    if (masked)
      memcpy(f.key, KEYS[i % 5], 4);
    Bytes w = encode(f);
    Layout l;
    l.start = base + s.size();
    l.end = l.start + w.size();
    l.pay = l.end - f.payload.size();
    l.key = masked ? l.pay - 4 : l.pay;
    l.kind = kindOf(f.op);
    lay.push_back(l);
    s += w;
  }
  return s;
}
inline std::string region(const std::vector<Layout> &lay, size_t p)
{
  for (const Layout &l : lay)
    if (p >= l.start && p < l.end)
    {
      const char *r = p == l.start ? "b0" : p == l.start + 1 ? "b1" : p < l.key ? "ext" : p < l.pay ? "key" : "pay";
      return std::string(1, l.kind) + "." + r;
    }
  return "http";
}

// ---- reference model: what a correct endpoint must deliver / answer for a VALID frame list
struct Expect
{
  std::vector<std::string> msgs; // "t:<repr>" / "b:<repr>"
  std::vector<Bytes> pings;
  int closes = 0;
  std::vector<std::string> shapes; // per message: type, #fragments, control-in-between
};
inline Expect expectOf(const std::vector<Frame> &fr)
{
  Expect e;
  Bytes cur;
  char type = 0;
  int nfrag = 0;
  bool ctl = false;
  for (const Frame &f : fr)
  {
    if (f.op == 1 || f.op == 2)
    {
      type = f.op == 1 ? 't' : 'b';
      cur = f.payload;
      nfrag = 1;
      ctl = false;
    }
    else if (f.op == 0)
    {
      cur += f.payload;
      ++nfrag;
    }
    else if (f.op == 9)
    {
      e.pings.push_back(f.payload);
      if (nfrag)
        ctl = true;
    }
    else if (f.op == 10)
    {
      if (nfrag)
        ctl = true;
    }
    else if (f.op == 8)
      e.closes++;
    if (f.op <= 2 && f.fin)
    {
      e.msgs.push_back(std::string(1, type) + ":" + repr(cur));
      e.shapes.push_back(std::string(1, type) + ":frag" + std::to_string(nfrag) + (ctl ? ":ctl-between" : ""));
      cur.clear();
      nfrag = 0;
    }
  }
  return e;
}

struct Run
{
  std::string log;
  bool threw = false;
  std::string what;
  std::vector<std::string> msgs;
  std::vector<Bytes> pongs;
  int closes = 0, dataSent = 0;
};
// Feed `stream` cut at cuts[0..n) (ascending, strictly inside) or byte-at-a-time.
inline Run runOne(Endpoint &ep, const Bytes &stream, const size_t *cuts, size_t ncuts, bool bytewise, bool detail)
{
  Run r;
  if (detail)
    ep.open(); // baseline: through the real handshake path
  else
    ep.openFast();
  try
  {
    const uint8_t *p = (const uint8_t *)stream.data();
    if (bytewise)
      for (size_t i = 0; i < stream.size(); ++i)
        ep.feed(p + i, 1);
    else
    {
      size_t prev = 0;
      for (size_t i = 0; i < ncuts; ++i)
      {
        ep.feed(p + prev, cuts[i] - prev);
        prev = cuts[i];
      }
      ep.feed(p + prev, stream.size() - prev);
    }
  }
  catch (const std::exception &e)
  {
    r.threw = true;
    r.what = e.what();
  }
  catch (...)
  {
    r.threw = true;
    r.what = "non-std exception";
  }
  r.log = cap().log();
  if (detail)
  {
    for (const Ev &e : cap().evs)
      if (e.k == 'M')
        r.msgs.push_back(e.s);
    std::vector<Frame> fr;
    std::vector<size_t> offs;
    size_t tail;
    cap().frames(fr, offs, tail);
    for (const Frame &f : fr)
    {
      if (f.op == 10)
        r.pongs.push_back(f.payload);
      else if (f.op == 8)
        r.closes++;
      else if (f.op <= 2)
        r.dataSent++;
    }
  }
  ep.closeCase();
  return r;
}

struct SeqCase
{
  std::vector<Frame> frames;
  std::string desc;
  bool pre = false; // client only: the HTTP 101 response travels in the same byte stream
  char ep = 's';
  // derived
  Bytes stream;
  std::vector<Layout> lay;
  Expect exp;
  Run base;
  std::string head; // "seg ep=s pre=0 fr=<desc> cuts="
};

inline void prepare(Ctx &cx, SeqCase &sc)
{
  Endpoint &ep = cx.ep(sc.ep);
  sc.lay.clear();
  if (sc.pre)
  {
    sc.stream = cx.C.resp101;
    sc.stream += buildStream(sc.frames, ep.inboundMasked(), sc.lay, cx.C.resp101.size());
  }
  else
    sc.stream = buildStream(sc.frames, ep.inboundMasked(), sc.lay);
  sc.exp = expectOf(sc.frames);
  sc.head = std::string("seg ep=") + sc.ep + " pre=" + (sc.pre ? "1" : "0") + " fr=" + sc.desc + " cuts=";
  cx.C.feedUpgrade = !sc.pre;
  ep.setMax(kLibraryDefaultMax); // the hostile families shrink the maximum on the long-lived server
}
inline void finish(Ctx &cx) { cx.C.feedUpgrade = true; }

// Unsplit run compared with the generator's expectation.  Returns #violations.
inline int checkBaseline(Ctx &cx, SeqCase &sc)
{
  Endpoint &ep = cx.ep(sc.ep);
  vr::Report &r = *cx.r;
  int v = 0;
  sc.base = runOne(ep, sc.stream, nullptr, 0, false, true);
  r.evaluations++;
  std::string kase = sc.head + "-";
  std::string E = ep.name();
  if (sc.base.threw)
  {
    r.violation("no-exception", E + ":valid-stream", kase, "exception escaped while feeding a valid stream unsplit: " + sc.base.what);
    return 1;
  }
  const Expect &x = sc.exp;
  size_t n = std::max(x.msgs.size(), sc.base.msgs.size());
  for (size_t i = 0; i < n; ++i)
  {
    std::string want = i < x.msgs.size() ? x.msgs[i] : "(none)", got = i < sc.base.msgs.size() ? sc.base.msgs[i] : "(none)";
    if (want != got)
    {
      std::string shape = i < x.shapes.size() ? x.shapes[i] : "extra-message";
      r.violation("delivers-expected", E + ":msg:" + shape, kase,
                  "message #" + std::to_string(i) + ": expected " + want + " got " + got + "; log=" + sc.base.log);
      ++v;
      break;
    }
  }
  if (x.pings != sc.base.pongs)
  {
    std::string w, g;
    for (auto &p : x.pings)
      w += repr(p) + ",";
    for (auto &p : sc.base.pongs)
      g += repr(p) + ",";
    r.violation("pong-matches-ping", E + ":pongs", kase, "expected pong payloads [" + w + "] got [" + g + "]");
    ++v;
  }
  if (sc.base.closes != (x.closes ? 1 : 0))
  {
    r.violation("delivers-expected", E + ":close-frames", kase,
                "expected " + std::to_string(x.closes ? 1 : 0) + " close frame(s) on the wire, got " + std::to_string(sc.base.closes));
    ++v;
  }
  if (sc.base.dataSent)
  {
    r.violation("delivers-expected", E + ":unsolicited-data-frame", kase, "endpoint sent a data frame nobody asked for; log=" + sc.base.log);
    ++v;
  }
  return v;
}

// One segmentation compared with the unsplit baseline.
inline int checkCuts(Ctx &cx, SeqCase &sc, const size_t *cuts, size_t ncuts, bool bytewise)
{
  Endpoint &ep = cx.ep(sc.ep);
  vr::Report &r = *cx.r;
  Run run = runOne(ep, sc.stream, cuts, ncuts, bytewise, false);
  r.evaluations++;
  if (!sc.exp.msgs.empty() || !sc.exp.pings.empty())
    r.distinct_nontrivial++;
  if (!run.threw && run.log == sc.base.log)
    return 0;
  std::string spec, cls;
  if (bytewise)
  {
    spec = "*";
    cls = "bytewise";
  }
  else
  {
    cls = ncuts == 1 ? "cut1:" : "cut2:";
    for (size_t i = 0; i < ncuts; ++i)
    {
      spec += (i ? "," : "") + std::to_string(cuts[i]);
      cls += (i ? "+" : "") + region(sc.lay, cuts[i]);
    }
  }
  std::string E = ep.name();
  if (run.threw)
    r.violation("no-exception", E + ":valid-stream:" + cls, sc.head + spec, "exception escaped: " + run.what);
  else
    r.violation("segmentation-independent", E + ":" + cls, sc.head + spec, "unsplit: " + sc.base.log + "  this segmentation: " + run.log);
  return 1;
}

// Positions near frame starts/ends (used where all positions are unaffordable: declared bound).
inline std::vector<size_t> windowPositions(const SeqCase &sc, size_t after, size_t before)
{
  std::vector<size_t> w;
  size_t n = sc.stream.size();
  for (const Layout &l : sc.lay)
  {
    for (size_t p = l.start; p <= l.start + after && p < l.end; ++p)
      w.push_back(p);
    for (size_t p = l.end > before ? l.end - before : 0; p < l.end; ++p)
      w.push_back(p);
  }
  std::sort(w.begin(), w.end());
  w.erase(std::unique(w.begin(), w.end()), w.end());
  w.erase(std::remove_if(w.begin(), w.end(), [n](size_t p) { return p == 0 || p >= n; }), w.end());
  return w;
}

} // namespace seg
